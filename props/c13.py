"""C13 - agent queries are exact filters; random picks stay within the filter.

Simulated dimension: filters are evaluated in the middle of seeded add/remove histories, under many
seeds of the model's generator and with ambient perturbation between picks; reachability of every
candidate is a bounded-liveness check (every member must be hit within 250*k reseeded picks)."""
import copy
import random

import numpy

from ECAgent.Core import Agent, Component, Environment, Model
from ECAgent.Environments import PositionComponent, SpaceWorld

from .worlds import agent_class

from simkit.stepgate import StepGate

PROPERTY = "C13"
QUICK_RUNS = 20000
CHUNK = 250
RULE = ("0-8 agents with arbitrary subsets of 4 component types and tags from {default, 0, 1, 2, 7}; add/remove histories; "
        "queries get_agents / get_random_agent / shuffle with templates of 0-3 types (including a type nobody has and "
        "repeated types) and tag in {absent, 0, 1, 7}; returned lists are mutated by the caller; reachability over up to "
        "250*k reseedings of the model's generator; repeated picks under the same model seed with ambient RNG "
        "perturbation in between; non-trivial = a template of >=2 types that some agents match only partly, a tag-0 "
        "filter excluding >=1 agent and a candidate set >=2; distinct = sequence of (op, template size, tag, |answer|, "
        "|population|)"
        "; also: tags reassigned while resident, a component type that subclasses another, model lifecycle ops, agents that are environments themselves (empty or inhabited), stretches of the history issued from inside a running timestep, removals refused half-way (order must survive)")
COMPONENTS = {"real": ["ECAgent.Core.Environment.get_agents / get_random_agent / shuffle / add_agent / remove_agent",
                       "Agent.has_component", "Model.random", "SpaceWorld (some runs)"],
              "stub": ["component classes and agents are harness-defined; global random / numpy.random are perturbed"]}
PROBES = ["world_of_an_earlier_run_under_a_model_that_is_garbage_now", "world_handed_to_a_fresh_model_and_the_old_one_collected", "agent_class_slotted_or_with_own_attributes", "negative_tag", "unfinished_walk_before_the_query", "position_subclass_component", "tag_zero_filter", "template_and_tag", "nobody_matches", "partial_template_match", "returned_list_mutated",
          "reach_all_members", "same_seed_repeat", "type_nobody_has", "spatial_world", "default_tag_agent", "retag_while_resident", "model_lifecycle_op", "subclass_component_only", "agent_is_an_environment", "ops_from_inside_a_timestep", "agent_class_with_class_components", "removal_refused_half_way", "history_continued_on_a_copy"]
TECHNIQUE = "deterministic simulation: filter queries inside seeded add/remove histories vs a list-comprehension reference; bounded reachability over reseeded model generators; ambient RNG perturbation between picks"
LEVEL_TEXT = ("Seeded search over populations, histories, templates and tag filters; every listing must equal the reference filter "
              "(identity, joining order, fresh list), every pick must be a member, every shuffle a permutation, nothing may "
              "alter the environment, every candidate must be reachable within 250*k reseeded picks and equal model seeds give "
              "equal picks whatever the ambient generators do. Sampling, not proof; <=8 agents, <=40 ops.")
LEVEL_NOTE = "Trusted: the list-comprehension reference; a false reachability alarm has probability < 6*e^-250 per query."
SHRINK_LISTS = ["ops", "pool"]


class T0(Component):
    pass


class T1(Component, __import__("abc").ABC):
    """A component class whose metaclass is not `type` (abc.ABCMeta): it is a class like any other."""


class T2(__import__("props.common", fromlist=["x"]).ChaosMixin, Component):
    """A component class with special methods of its own (callable, iterable, ordered, falsy, odd repr ...)."""


class T3(Component):
    """A container-like component that holds nothing: falsy (carrying it is a matter of presence, not of truth value)."""

    def __len__(self):
        return 0


class T4(Component):   # nobody ever has this one
    pass


class T5(T0):          # a subclass of T0: carrying T5 is NOT carrying T0 (components are keyed by their exact class)
    pass


TYPES = [T0, T1, T2, T3, T4]     # indexed modulo 5 by templates; index 5 (spatial runs only) is the world-managed PositionComponent


class Waypoint(PositionComponent):
    """A user component type that reuses the x/y/z fields of the bundled PositionComponent: a type of its own (components are
    keyed by their exact class), carried only by the agents it was attached to."""


class Late(Component):   # attached to an agent AFTER it joined (never registered with the model): see op botched_remove
    pass


class Pack(Agent):
    """An agent class with CLASS components T0 and T1: a template asks what the agent itself carries, not what its class has."""
TAGS = [None, 0, 1, 2, 7, 1001, 2 ** 70]      # small ints are shared objects in CPython; the large ones are not


def fresh(tag):
    """An equal but DISTINCT int object (what a tag parsed from a file or computed elsewhere is): tags compare by value."""
    return int(str(tag)) if isinstance(tag, int) and not isinstance(tag, bool) else tag


def gen_query(rng):
    n = rng.choice([0, 0, 1, 1, 2, 2, 3])
    tmpl = [rng.choice([0, 1, 2, 3, 3, 4 if rng.random() < 0.3 else 0, 5 if rng.random() < 0.4 else 1]) for _ in range(n)]
    tag = rng.choice(["absent", "absent", 0, 0, 1, 7, 1001, 2 ** 70])
    return tmpl, tag


def generate(rng, tier):
    pool = []
    for i in range(rng.randint(1, 16 if tier == "thorough" else 10)):
        pool.append({"id": f"a{i}", "comps": sorted(rng.sample(range(4), rng.randint(0, 4))), "tag": rng.choice([0, 1, 2, 3, 4, 5, 5, 6]),
                     "sub": rng.random() < 0.2})
    ops = []
    for _ in range(rng.randint(0, 5)):
        ops.append({"op": "add", "k": rng.randrange(len(pool))})
    for _ in range(rng.randint(4, 50 if tier == "thorough" else 30)):
        r = rng.random()
        if r < 0.22:
            ops.append({"op": "add", "k": rng.randrange(len(pool))})
        elif r < 0.32:
            ops.append({"op": "remove", "k": rng.randrange(len(pool))})
        elif r < 0.37:
            ops.append({"op": "retag", "k": rng.randrange(len(pool)), "tag": rng.choice([0, 1, 2, 7, 1001])})
        elif r < 0.385:
            ops.append({"op": "lifecycle", "what": rng.choice(["step", "complete"])})
        elif r < 0.4:
            # a removal that may be refused half-way (on this tree: KeyError, the component attached after joining was never
            # registered - C03's known finding F2): whoever stays keeps its place in the joining order
            ops.append({"op": "botched_remove", "k": rng.randrange(len(pool))})
        else:
            tmpl, tag = gen_query(rng)
            kind = rng.choice(["get", "get", "pick", "pick", "shuffle", "reach", "repeat"])
            op = {"op": kind, "tmpl": tmpl, "tag": tag}
            if kind == "get":
                op["mutate"] = rng.choice(["none", "clear", "append", "reverse"])
            if kind in ("reach", "repeat"):
                op["seed"] = rng.randint(0, 10 ** 6)
                op["ambient"] = rng.choice(["none", "reseed", "consume", "np"])
            ops.append(op)
    if rng.random() < 0.25 and len(ops) >= 2:
        # a stretch of the history is issued from inside a running timestep (by a System, as far as the package can tell)
        i_ = rng.randint(0, len(ops) - 1)
        j_ = rng.randint(i_ + 1, len(ops))
        ops.insert(j_, {"op": "leave_step"})
        ops.insert(i_, {"op": "enter_step"})
    out = {"pool": pool, "ops": ops, "seed": rng.randint(0, 10 ** 6), "world": rng.choice(["plain", "plain", "plain", "space"])}
    if rng.random() < 0.12:
        ops.insert(rng.randint(0, len(ops)), {"op": "branch"})      # the history continues on a deep copy of model and environment
    if rng.random() < 0.2:
        for p_ in pool:
            if rng.random() < 0.4:
                p_["pack"] = True
    if rng.random() < 0.3:      # some agents are environments themselves (empty - hence falsy - or inhabited)
        for p_ in pool:
            if rng.random() < 0.3:
                p_["nest"] = {"kind": rng.choice(["plain", "space"]), "inner": rng.choice([0, 1, 2])}
    if rng.random() < 0.2:
        # a user component type that builds on the bundled PositionComponent (a waypoint): template index 6
        for p_ in pool:
            if rng.random() < 0.5:
                p_["way"] = True
        for o_ in ops:
            if "tmpl" in o_ and rng.random() < 0.5:
                o_["tmpl"] = (o_["tmpl"] + [6]) if rng.random() < 0.5 or not o_["tmpl"] else [6 if i_ == 0 else t_ for i_, t_ in enumerate(o_["tmpl"])]
    if rng.random() < 0.2:
        for p_ in pool:
            if rng.random() < 0.5 and not p_.get("pack"):
                p_["cls"] = rng.choice(["slotted", "ownattrs"])
    if rng.random() < 0.12:
        for p_ in pool:
            if rng.random() < 0.4:
                p_["negtag"] = True
        for o_ in ops:
            if o_.get("tag", "absent") != "absent" and rng.random() < 0.5:
                o_["tag"] = -1
    if rng.random() < 0.1:
        ops.insert(rng.randint(0, len(ops)), {"op": "handover"})
    out["handed_over"] = rng.random() < 0.12
    if out["handed_over"]:
        for _ in range(rng.randint(1, 3)):
            ops.insert(rng.randint(len(ops) // 3, len(ops)), {"op": "gc"})
    if rng.random() < 0.25:
        for o_ in ops:
            if "tmpl" in o_ and rng.random() < 0.5:
                o_["walk"] = rng.choice(["break", "next", "any", "held"])
    return out


def _world_of_an_earlier_run(seed, spatial):
    """The world served an earlier run under another model: populated, emptied again and handed to a fresh model
    (set_model / set_environment). The earlier model is unreachable when this returns - cyclic garbage, collected whenever
    the collector next runs."""
    old = Model(seed=seed + 17)
    if spatial:
        old.environment = SpaceWorld(old, 5.0, 4.0)
    env = old.environment
    for j in range(3):
        a = Agent(f"earlier{j}", old)
        a.add_component(T0(a, old))
        env.add_agent(a, 1.0, 1.0) if spatial else env.add_agent(a)
    for j in range(3):
        env.remove_agent(f"earlier{j}")
    new = Model(seed=seed)
    env.set_model(new)
    new.set_environment(env)
    return new


def execute(sc, ctx):
    spatial = sc["world"] == "space"
    if sc.get("handed_over"):
        # garbage collection is an event of the schedule here: the automatic collector is off for the run, `gc` ops run it
        import gc
        gc.collect()
        gc.disable()
        ctx.cleanups.append(gc.enable)
        m = _world_of_an_earlier_run(sc["seed"], spatial)
        ctx.probe("world_of_an_earlier_run_under_a_model_that_is_garbage_now")
    else:
        m = Model(seed=sc["seed"])
        if spatial:
            m.environment = SpaceWorld(m, 5.0, 4.0)
    if spatial:
        ctx.probe("spatial_world")
    env = m.environment
    residents = []     # reference: agents in joining order
    held_walks = []
    held_lists = []
    objs = {}
    shape = []
    flags = {"partial": False, "tag0": False, "cand2": False}
    pool = sc["pool"]
    if not pool:
        return

    def make(spec):
        tag = TAGS[spec["tag"] % len(TAGS)]
        if spec.get("negtag"):
            tag = -1          # a negative marker (DEAD = -1): tags are plain ints
            ctx.probe("negative_tag")
        nest = spec.get("nest")
        if nest:
            a = SpaceWorld(m, 2.0, 2.0, id=spec["id"]) if nest["kind"] == "space" else Environment(m, id=spec["id"])
            for j in range(int(nest.get("inner", 0))):
                x = Agent(f"{spec['id']}.in{j}", m)
                a.add_agent(x, 1.0, 1.0) if nest["kind"] == "space" else a.add_agent(x)
            if tag is not None:
                a.tag = tag
            ctx.probe("agent_is_an_environment")
        else:
            cls = agent_class(spec.get("cls"))
            if spec.get("cls"):
                ctx.probe("agent_class_slotted_or_with_own_attributes")
            if spec.get("pack"):
                cls = Pack
                ctx.probe("agent_class_with_class_components")
                for T in (T0, T1):
                    if not Pack.has_class_component(T):
                        Pack.add_class_component(T(Pack, m))
            a = cls(spec["id"], m) if tag is None else cls(spec["id"], m, tag=tag)
        if tag is None:
            ctx.probe("default_tag_agent")
        for c in spec["comps"]:
            a.add_component(TYPES[c % 4](a, m))
        if spec.get("way"):
            a.add_component(Waypoint(a, m, 1.0, 2.0, 0.0))
            ctx.probe("position_subclass_component")
        if spec.get("sub"):
            a.add_component(T5(a, m))
            ctx.probe("subclass_component_only" if 0 not in [c % 4 for c in spec["comps"]] else "subclass_and_base")
        return a

    def ttype(t):
        return PositionComponent if t == 5 else Waypoint if t == 6 else TYPES[t % 5]

    def ref_filter(tmpl, tag):
        out = []
        for a in residents:
            if all(ttype(t) in a.components for t in tmpl) and (tag == "absent" or a.tag == tag):
                out.append(a)
        return out

    def args(tmpl, tag):
        return [ttype(t) for t in tmpl], ({} if tag == "absent" else {"tag": fresh(tag)})

    def same(got, want):
        return len(got) == len(want) and all(x is y for x, y in zip(got, want))

    last_lists = []
    stuck = set()
    gate = StepGate(ctx)
    for op in sc["ops"]:
        kind = op["op"]
        if kind == "enter_step":
            gate.enter(m)
            continue
        if kind == "leave_step":
            gate.leave()
            continue
        if kind == "lifecycle" and ctx.in_step and op.get("what") == "step":
            continue          # stepping the model from inside its own timestep is re-entrant stepping: outside the statements
        before = list(residents)
        if kind == "add":
            spec = pool[op["k"] % len(pool)]
            if any(a.id == spec["id"] for a in residents):
                continue
            a = make(spec)
            if spatial:
                ctx.expect_ok("add", env.add_agent, a, 1.0, 2.0)
            else:
                ctx.expect_ok("add", env.add_agent, a)
            residents.append(a)
            objs[spec["id"]] = a
            ctx.event("add", spec["id"])
            shape.append(["add", len(residents)])
            continue
        if kind == "remove":
            spec = pool[op["k"] % len(pool)]
            hit = [a for a in residents if a.id == spec["id"]]
            if not hit or spec["id"] in stuck:
                continue
            ctx.expect_ok("remove", env.remove_agent, spec["id"])
            residents.remove(hit[0])
            ctx.event("remove", spec["id"])
            shape.append(["rm", len(residents)])
            continue
        if kind == "gc":
            import gc
            gc.collect()
            ctx.fault("lifetime.collector_runs")
            continue
        if kind == "handover":
            # the world is kept for the next run: emptied, handed to a fresh model (set_model / set_environment), the previous
            # model dropped and garbage-collected, then repopulated with agents built for the new model
            if ctx.in_step or stuck or any(isinstance(a, Environment) for a in residents):
                continue
            import gc
            again = [sp for a_ in residents for sp in pool if sp["id"] == a_.id]
            for a in list(residents):
                ctx.expect_ok("remove", env.remove_agent, a.id)
            m2 = Model(seed=sc["seed"] + 1)
            ctx.expect_ok("set_model", env.set_model, m2)
            ctx.expect_ok("set_environment", m2.set_environment, env)
            m = m2
            m2 = a = None
            residents.clear()
            objs.clear()
            del held_lists[:], last_lists[:], held_walks[:]
            gc.collect()
            ctx.fault("lifetime.model_discarded")
            ctx.probe("world_handed_to_a_fresh_model_and_the_old_one_collected")
            for sp in again:
                a = make(sp)
                if spatial:
                    ctx.expect_ok("add", env.add_agent, a, 1.0, 2.0)
                else:
                    ctx.expect_ok("add", env.add_agent, a)
                residents.append(a)
                objs[sp["id"]] = a
            ctx.event("handover", [a.id for a in residents])
            continue
        if kind == "branch":
            if not ctx.in_step:
                m, env, residents, objs = copy.deepcopy((m, env, residents, objs))
                last_lists = []
                ctx.fault("restart.continue_on_copy")
                ctx.probe("history_continued_on_a_copy")
            continue
        if kind == "botched_remove":
            spec = pool[op["k"] % len(pool)]
            hit = [a for a in residents if a.id == spec["id"]]
            if not hit or spec["id"] in stuck:
                continue
            if Late not in hit[0].components:
                hit[0].add_component(Late(hit[0], m))
            st, v = ctx.call(env.remove_agent, spec["id"])
            if st == "ok":
                residents.remove(hit[0])
            else:
                ctx.check(isinstance(v, KeyError), "remove:unexpected-exception", f"{type(v).__name__}: {v}")
                ctx.probe("removal_refused_half_way")
                stuck.add(spec["id"])      # (what the refusal leaves behind is C03's finding F2; this agent is not removed again)
            ctx.check(same(list(env), residents), "order-after-refused-removal",
                      lambda: f"after remove_agent({spec['id']!r}) {'succeeded' if st == 'ok' else 'was refused'} the environment "
                              f"iterates {[a.id for a in env]}, joining order {[a.id for a in residents]}")
            continue
        if kind == "lifecycle":
            ctx.expect_ok("lifecycle", m.complete if op["what"] == "complete" else m.execute)
            ctx.probe("model_lifecycle_op")
            continue
        if kind == "retag":
            spec = pool[op["k"] % len(pool)]
            hit = [a for a in residents if a.id == spec["id"]]
            if hit:
                hit[0].tag = fresh(op["tag"])       # documented: tags may be assigned after initialisation
                ctx.probe("retag_while_resident")
                ctx.event("retag", spec["id"], op["tag"])
            continue
        tmpl, tag = op["tmpl"], op["tag"]
        want = ref_filter(tmpl, tag)
        a_, k_ = args(tmpl, tag)
        if 4 in [t % 5 for t in tmpl]:
            ctx.probe("type_nobody_has")
        if tag == 0:
            ctx.probe("tag_zero_filter")
            if len(ref_filter(tmpl, "absent")) > len(want):
                flags["tag0"] = True
        if tmpl and tag != "absent":
            ctx.probe("template_and_tag")
        if not want:
            ctx.probe("nobody_matches")
        if len(set(tmpl)) >= 2 and any(0 < sum(ttype(t) in a.components for t in set(tmpl)) < len(set(tmpl)) for a in residents):
            ctx.probe("partial_template_match")
            flags["partial"] = True
        if len(want) >= 2:
            flags["cand2"] = True
        for h_list, h_ids in held_lists:
            # a listing handed out earlier belongs to the caller: later listings, picks and shuffles leave it as it was
            ctx.check([a.id for a in h_list] == h_ids, "earlier-listing-changed",
                      lambda: f"a listing handed out earlier ({h_ids}) now reads {[a.id for a in h_list]}")
        if op.get("walk"):
            # the caller walked over the environment just before - and left the walk unfinished (a search loop that found
            # what it looked for, any(...), a half-used iterator it still holds): queries start from scratch regardless
            ctx.probe("unfinished_walk_before_the_query")
            w_ = op["walk"]
            if w_ == "break":
                for x_ in env:
                    break
            elif w_ == "next":
                next(iter(env), None)
            elif w_ == "any":
                any(x_ is residents[min(1, len(residents) - 1)] for x_ in env) if residents else None
            else:
                held_walks[:] = [iter(env)]
                for _ in range(1 + len(residents) // 2):
                    next(held_walks[0], None)
        if kind == "get":
            got = ctx.expect_ok("get_agents", env.get_agents, *a_, **k_)
            ctx.event("get", tmpl, tag, [a.id for a in got] if isinstance(got, list) else repr(got))
            ctx.check(isinstance(got, list), "listing-type", type(got).__name__)
            ctx.check(same(got, want), "listing",
                      lambda: f"get_agents({tmpl}, tag={tag}) = {[a.id for a in got]} expected {[a.id for a in want]}")
            ctx.check(all(got is not prev for prev in last_lists), "listing-not-fresh", "the same list object was returned twice")
            last_lists.append(got)
            del last_lists[:-4]
            mut = op.get("mutate", "none")
            if mut == "none":
                held_lists.append((got, [a.id for a in got]))
                del held_lists[:-3]
            if mut != "none":
                ctx.probe("returned_list_mutated")
                if mut == "clear":
                    got.clear()
                elif mut == "append":
                    got.append(Agent("intruder", m))
                elif mut == "reverse":
                    got.reverse()
                again = ctx.expect_ok("get_agents", env.get_agents, *a_, **k_)
                ctx.check(same(again, want), "listing-aliased",
                          f"after the caller changed the returned list ({mut}) the next answer is {[a.id for a in again]}")
        elif kind == "pick":
            got = ctx.expect_ok("get_random_agent", env.get_random_agent, *a_, **k_)
            ctx.event("pick", tmpl, tag, got.id if got is not None else None)
            if not want:
                ctx.check(got is None, "pick-from-empty", f"returned {getattr(got, 'id', got)!r}")
            else:
                ctx.check(any(got is w for w in want), "pick-outside-filter",
                          lambda: f"get_random_agent({tmpl}, tag={tag}) = {getattr(got, 'id', got)!r}, "
                                  f"candidates {[a.id for a in want]}")
        elif kind == "shuffle":
            got = ctx.expect_ok("shuffle", env.shuffle, *a_, **k_)
            ctx.event("shuffle", tmpl, tag, [a.id for a in got])
            ctx.check(isinstance(got, list) and len(got) == len(want) and
                      sorted(id(a) for a in got) == sorted(id(a) for a in want), "shuffle-not-a-permutation",
                      lambda: f"shuffle({tmpl}, tag={tag}) = {[a.id for a in got]} candidates {[a.id for a in want]}")
        elif kind == "reach":
            if 1 <= len(want) <= 6:
                seen = set()
                state = m.random.getstate()
                budget = 250 * len(want)
                n = 0
                while n < budget and len(seen) < len(want):
                    m.random.seed(op["seed"] + n)
                    got = ctx.expect_ok("get_random_agent", env.get_random_agent, *a_, **k_)
                    ctx.check(got is not None and any(got is w for w in want), "pick-outside-filter",
                              lambda: f"{getattr(got, 'id', got)!r} not in {[a.id for a in want]}")
                    seen.add(got.id)
                    n += 1
                m.random.setstate(state)
                ctx.event("reach", tmpl, tag, sorted(seen), n)
                ctx.check(len(seen) == len(want), "candidate-unreachable",
                          lambda: f"after {n} reseeded picks only {sorted(seen)} of {[a.id for a in want]} were ever returned")
                ctx.probe("reach_all_members")
        elif kind == "repeat":
            state = m.random.getstate()
            m.random.seed(op["seed"])
            p1 = ctx.expect_ok("get_random_agent", env.get_random_agent, *a_, **k_)
            s1 = ctx.expect_ok("shuffle", env.shuffle, *a_, **k_)
            amb = op.get("ambient", "none")
            if amb == "reseed":
                random.seed(op["seed"] + 1)
            elif amb == "consume":
                random.random()
                random.random()
            elif amb == "np":
                numpy.random.seed(op["seed"] % 1000)
                numpy.random.rand(3)
            if amb != "none":
                ctx.fault("ambient." + amb)
            m.random.seed(op["seed"])
            p2 = ctx.expect_ok("get_random_agent", env.get_random_agent, *a_, **k_)
            s2 = ctx.expect_ok("shuffle", env.shuffle, *a_, **k_)
            m.random.setstate(state)
            ctx.event("repeat", tmpl, tag, getattr(p1, "id", None), [a.id for a in s1])
            ctx.check(p1 is p2 and same(s1, s2), "same-seed-different-pick",
                      lambda: f"model seed {op['seed']}: pick {getattr(p1, 'id', None)}/{getattr(p2, 'id', None)}, "
                              f"shuffle {[a.id for a in s1]}/{[a.id for a in s2]}")
            ctx.probe("same_seed_repeat")
        # no query alters the environment
        now = list(env)
        ctx.check(same(now, before) and len(env) == len(before), "query-altered-environment",
                  lambda: f"{kind}: environment {[a.id for a in now]} was {[a.id for a in before]}")
        shape.append([kind, len(tmpl), tag, len(want), len(residents)])
        ctx.state([len(residents), kind, len(tmpl), str(tag), len(want)])
    gate.leave()
    ctx.nontrivial = flags["partial"] and flags["tag0"] and flags["cand2"]
    ctx.sig = shape
