"""C04 - the environment holds exactly the live agents; failed operations leave no trace.

Simulated dimension: the property's own quantifier is "every error path injected at every reachable
state": the simulator reaches states by seeded add/remove histories over a pool of agent objects with
colliding ids and injects each rejection there (duplicate id by the same / another object, unknown id,
strict lookup, out-of-bounds placement on each axis and side), comparing a full observable snapshot
before and after."""
import copy
import itertools
import pickle

from ECAgent.Core import Agent, AgentNotFoundError, Component, DuplicateAgentError, Environment, Model
from ECAgent.Environments import GridWorld, PositionComponent

from simkit.stepgate import StepGate

from .worlds import RefWorld, agent_class, gen_world, get_pos, make_world

PROPERTY = "C04"
QUICK_RUNS = 16000
CHUNK = 200
RULE = ("plain, continuous and grid environments; a pool of agent objects with deliberately colliding ids (distinct "
        "objects, same id) each carrying 0-3 components fixed before joining; 5-60 ops from add / remove / get_agent / "
        "strict get_agent / len / iterate / get_agents with rejections dup (same object, other object), unknown "
        "(remove, strict lookup) and oob(axis, side, near|far) generated against the current state; non-trivial = >=3 "
        "residents at some point, >=1 removal from the middle followed by iteration and >=2 different rejection kinds "
        "fired; distinct = sequence of (op, outcome, population)"
        "; also: continuous extents in (0,1), fractional out-of-bounds coordinates in grids, worlds that are not model.environment, an environment without any model, callers that edit returned listings / use the random helpers, model lifecycle ops, agents that are environments themselves (own components, inhabitants, population changing while resident), stretches of the history issued from inside a running timestep, adds / removals spelled addAgent / removeAgent, agents constructed for another model, agents bringing equal-valued position components into a plain environment")
COMPONENTS = {"real": ["ECAgent.Core.Environment add_agent / remove_agent / get_agent / get_agents / __len__ / __iter__",
                       "SpaceWorld / DiscreteWorld / GridWorld / LineWorld add_agent / remove_agent",
                       "SystemManager component pools (observed)"],
              "stub": ["agents and component classes are harness-defined"]}
PROBES = ["identifier_with_whitespace_padding_next_to_its_twin", "same_id_resident_in_two_environments_of_one_model", "second_environment_of_the_model_populated", "agent_class_slotted_or_with_own_attributes", "overlapping_or_unfinished_iterations", "dup_same_object", "dup_other_object", "unknown_remove", "unknown_strict_lookup", "oob_x_lo", "oob_x_hi",
          "oob_y_lo", "oob_y_hi", "oob_z_lo", "oob_z_hi", "oob_far", "reject_on_empty_environment", "remove_from_middle",
          "readd_after_remove", "plain_env", "spatial_env", "model_lifecycle_op", "caller_scrambles_listing", "oob_fractional_in_grid", "environment_without_model",
          "agent_is_an_environment", "nested_population_changed_while_resident", "ops_from_inside_a_timestep", "deprecated_camelcase_spelling", "agent_constructed_for_another_model",
          "agents_with_equal_position_components_in_a_plain_environment", "history_continued_on_a_copy"]
TECHNIQUE = "deterministic simulation: every rejection injected at states reached by seeded add/remove histories, full observable snapshot compared before/after, insertion-ordered map reference"
LEVEL_TEXT = ("Seeded search over add/remove histories with colliding ids; after every operation length, iteration, listing and "
              "lookup must agree with an insertion-ordered reference; each injected rejection must raise the documented class "
              "and leave environment, rejected agent, positions and every component listing unchanged. Sampling, not proof; "
              "<=10 agent objects, <=60 ops.")
LEVEL_NOTE = ("Trusted: the reference map; agents' component sets are not modified while resident (C03's dimension) and agents "
              "never carry a PositionComponent of their own when joining a spatial world (outside the quantifier).")
SHRINK_LISTS = ["ops", "pool"]


class K0(Component):
    pass


class K1(K0):           # a subclass of K0: components are keyed by their exact class
    pass


class K2(__import__("props.common", fromlist=["x"]).ChaosMixin, Component):
    """A component class with special methods of its own (callable, iterable, ordered, falsy, odd repr ...)."""


KT = [K0, K1, K2]


def generate(rng, tier):
    world = gen_world(rng, kinds=("plain", "plain", "space", "space", "discrete", "grid", "line"), subunit=0.2)
    world["attached"] = rng.random() < 0.8
    orphan = world["kind"] == "plain" and rng.random() < 0.2
    ids = [f"i{j}" for j in range(rng.randint(1, 5))]
    if rng.random() < 0.15:
        ids[rng.randrange(len(ids))] = rng.choice(["", "", "{x}", "%s", "{}"])    # falsy, or with format / template syntax
    if rng.random() < 0.1:
        ids[rng.randrange(len(ids))] = "ENVIRONMENT"       # an agent that happens to be called like the environment itself
    pool = [{"id": rng.choice(ids), "comps": sorted(rng.sample(range(3), rng.randint(0, 3)))} for _ in range(rng.randint(2, 16 if tier == "thorough" else 10))]
    ops = []
    for _ in range(rng.randint(5, 80 if tier == "thorough" else 50)):
        r = rng.random()
        k = rng.randrange(len(pool))
        if r < 0.36:
            ops.append({"op": "add", "k": k, "frac": [rng.random() for _ in range(3)]})
        elif r < 0.56:
            ops.append({"op": "remove", "k": k})
        elif r < 0.62:
            ops.append({"op": "remove_id", "id": rng.choice(ids + ["ghost", ""])})
        elif r < 0.72:
            ops.append({"op": "lookup", "id": rng.choice(ids + ["ghost"]), "strict": rng.random() < 0.5})
        elif r < 0.86:
            ops.append({"op": "oob", "k": k, "axis": rng.randrange(3), "side": rng.choice(["lo", "hi"]),
                        "far": rng.random() < 0.3, "half": rng.random() < 0.3, "frac": [rng.random() for _ in range(3)]})
        elif r < 0.93:
            ops.append({"op": "observe"})
        elif r < 0.96:
            ops.append({"op": "scramble", "how": rng.choice(["reverse", "clear", "pop", "shuffle", "pick", "iter"])})
        else:
            ops.append({"op": "lifecycle", "what": rng.choice(["step", "complete"])})
    if orphan:
        world = {"kind": "plain", "orphan": True}
        for p_ in pool:
            p_["comps"] = []
        ops = [o for o in ops if o["op"] != "lifecycle"]
    if not orphan and rng.random() < 0.25:
        for p_ in pool:          # agents that were constructed for ANOTHER model (a template / builder model) and live here
            if rng.random() < 0.4:
                p_["foreign"] = True
    if world["kind"] == "plain" and not orphan and rng.random() < 0.2:
        for p_ in pool:          # in a plain environment a position component is a component like any other: agents may bring
            if rng.random() < 0.5:   # one along (all at the same coordinates - components are told apart by identity)
                p_["ownpos"] = True
    if orphan:
        pass
    elif rng.random() < 0.3:
        # some agents are environments themselves ("all environments are treated as agents"): with components of their own,
        # with inhabitants when they join, and with a population that changes while they are resident
        nested = []
        for j, p_ in enumerate(pool):
            if rng.random() < 0.3:
                p_["nest"] = {"kind": rng.choice(["plain", "plain", "grid"]), "inner": rng.choice([0, 0, 1, 2])}
                nested.append(j)
        for j in nested:
            for _ in range(rng.randint(0, 3)):
                ops.insert(rng.randint(0, len(ops)), {"op": "nest", "k": j, "what": rng.choice(["add", "add", "remove"])})
    if rng.random() < 0.12:
        for _ in range(rng.randint(1, 2)):      # checkpoint / branch: the history continues on a deep copy (or pickle round trip)
            ops.insert(rng.randint(0, len(ops)), {"op": "branch", "how": rng.choice(["deepcopy", "deepcopy", "pickle"])})
    for o_ in ops:        # the deprecated camelCase spellings (addAgent / removeAgent) are still public API: some calls use them
        if o_.get("op") in ("add", "remove") and rng.random() < 0.08:
            o_["camel"] = True
    if rng.random() < 0.25 and len(ops) >= 2:
        # a stretch of the history is issued from inside a running timestep (by a System, as far as the package can tell)
        i_ = rng.randint(0, len(ops) - 1)
        j_ = rng.randint(i_ + 1, len(ops))
        ops.insert(j_, {"op": "leave_step"})
        ops.insert(i_, {"op": "enter_step"})
    if rng.random() < 0.2:
        for p_ in pool:
            if rng.random() < 0.5:
                p_["cls"] = rng.choice(["slotted", "ownattrs"])
    if not orphan and rng.random() < 0.12:
        # a second environment bound to the same model holds agents of its own - other objects that happen to carry the ids
        # (and component classes) of agents over here; ids are unique per environment, listings are per model
        for _ in range(rng.randint(2, 8)):
            ops.insert(rng.randint(0, len(ops)), {"op": rng.choice(["side_add", "side_add", "side_remove"]), "k": rng.randrange(len(pool))})
    sc = {"world": world, "pool": pool, "ops": ops, "walks": rng.random() < 0.3}
    if rng.random() < 0.15:
        # (drawn last) identifiers as they come out of a file: one id also occurs with padding ("i1 ", " i1", "i1\t"). A padded id
        # is a different identifier: it names its own agent, and only that agent
        base = rng.choice(ids)
        twin = rng.choice([base + " ", " " + base, base + "\t", base + "\n", " " + base + " "])
        for e in pool:
            if e["id"] == base and rng.random() < 0.5:
                e["id"] = twin
        for o in ops:
            if o.get("id") == base and rng.random() < 0.5:
                o["id"] = twin
        sc["padded_id"] = twin
    return sc


def execute(sc, ctx):
    m = Model(seed=20260927)
    ref = RefWorld(sc["world"])
    env = make_world(m, sc["world"])
    if sc["world"].get("orphan"):
        env = Environment(None)          # an environment without any model: only component-less agents can live in it
        ctx.probe("environment_without_model")
    spatial = ref.spatial
    ctx.probe("spatial_env" if spatial else "plain_env")
    if sc.get("padded_id") is not None:
        ctx.probe("identifier_with_whitespace_padding_next_to_its_twin")
    pool = sc["pool"]
    if not pool:
        return
    inner_serial = [0]

    def inner_add(e):
        inner_serial[0] += 1
        x = Agent(f"inner{inner_serial[0]}", m)           # component-less inhabitant of a nested environment
        e.add_agent(x, 0, 0) if isinstance(e, GridWorld) else e.add_agent(x)

    objs = []
    other_model = Model(seed=77)
    for i, spec in enumerate(pool):
        nest = spec.get("nest")
        if nest and not sc["world"].get("orphan"):
            a = GridWorld(m, 2, 2, id=spec["id"]) if nest["kind"] == "grid" else Environment(m, id=spec["id"])
            ctx.probe("agent_is_an_environment")
        else:
            a = agent_class(spec.get("cls"))(spec["id"], m)
            if spec.get("cls"):
                ctx.probe("agent_class_slotted_or_with_own_attributes")
        home = m
        if spec.get("foreign") and not sc["world"].get("orphan") and not isinstance(a, Environment):
            home = other_model
            a = agent_class(spec.get("cls"))(spec["id"], home)
            ctx.probe("agent_constructed_for_another_model")
        for c in spec["comps"]:
            a.add_component(KT[c % 3](a, home))
        if spec.get("ownpos") and sc["world"]["kind"] == "plain" and not sc["world"].get("orphan"):
            a.add_component(PositionComponent(a, home, 1.0, 2.0, 0.0))
            ctx.probe("agents_with_equal_position_components_in_a_plain_environment")
        if isinstance(a, Environment):
            for j in range(int(nest.get("inner", 0))):
                inner_add(a)
        objs.append(a)
    residents = {}       # id -> pool index, insertion ordered
    ever = set()
    shape = []
    kinds_fired = set()
    flags = {"three": False, "mid": False}
    pending_mid = False

    def place(frac):
        if not spatial:
            return ()
        p = [int(frac[ax] * (ref.hi(ax) + 1)) if ref.positive(ax) else 0 for ax in range(3)]
        p = [min(c, max(ref.hi(ax), 0)) for ax, c in enumerate(p)]
        return ref.real(p)

    def pools():
        cp = m.systems.component_pools
        return sorted((t.__name__, [id(c) for c in lst]) for t, lst in cp.items() if t is not PositionComponent)

    def snapshot():
        return {"env": [(a.id, id(a)) for a in env], "len": len(env),
                "agents": [(id(a), sorted(t.__name__ for t in a.components), get_pos(a) if PositionComponent in a else None)
                           for a in objs],
                "nested": [(id(a), [x.id for x in a.agents.values()]) for a in objs if isinstance(a, Environment)],
                "pools": pools()}

    side = {}          # a second environment bound to the same model, with residents of its own (filled by side_add)
    held = []          # an iteration of the environment begun earlier and never finished (the caller broke out of a loop)

    def check_agreement(where):
        want = [objs[k] for k in residents.values()]
        if sc.get("walks"):
            # every iteration of an environment is a walk of its own: unfinished walks, overlapping walks and walks begun
            # before other reads do not disturb each other
            ctx.probe("overlapping_or_unfinished_iterations")
            cap = len(want) * len(want) + 2
            first = next(iter(env), None)                        # a search loop that left early
            ctx.check(first is (want[0] if want else None), "iteration", f"{where}: first of a fresh walk")
            pending = iter(env)
            head = list(itertools.islice(pending, 1))
            held[:] = [iter(env)]
            next(held[0], None)
            pairs = list(itertools.islice(((a.id, b.id) for a in env for b in env), cap))
            ctx.check(pairs == [(a.id, b.id) for a in want for b in want], "iteration",
                      lambda: f"{where}: nested walks of the same environment gave {pairs[:6]}... ({len(pairs)} pairs) expected "
                              f"{len(want) ** 2} pairs of {[a.id for a in want]}")
            z = list(itertools.islice(zip(env, env), cap))
            ctx.check(len(z) == len(want) and all(x is y for x, y in z), "iteration", lambda: f"{where}: zip(env, env) gave {[(x.id, y.id) for x, y in z]}")
            mid = list(env)
            rest = head + list(itertools.islice(pending, cap))
            ctx.check(len(rest) == len(want) and all(x is y for x, y in zip(rest, want)) and len(mid) == len(want), "iteration",
                      lambda: f"{where}: a walk begun before another full walk yielded {[a.id for a in rest]} expected {[a.id for a in want]}")
        it = list(env)
        ctx.check(len(env) == len(want), "length", f"{where}: len {len(env)} expected {len(want)}")
        ctx.check(len(it) == len(want) and all(x is y for x, y in zip(it, want)), "iteration",
                  lambda: f"{where}: iterates {[a.id for a in it]} expected {[a.id for a in want]}")
        lst = env.get_agents()
        ctx.check(len(lst) == len(want) and all(x is y for x, y in zip(lst, want)), "listing",
                  lambda: f"{where}: get_agents {[a.id for a in lst]}")
        for i_ in sorted({s["id"] for s in pool} | {"ghost"}):
            got = env.get_agent(i_)
            exp = objs[residents[i_]] if i_ in residents else None
            ctx.check(got is exp, "lookup", f"{where}: get_agent({i_!r}) is {getattr(got, 'id', got)!r} object mismatch")
        # the component listings hold exactly the residents' components (no stray component after a failure)
        exp_pools = {}
        for a in want:
            for t, c in a.components.items():
                if t is not PositionComponent:
                    exp_pools.setdefault(t.__name__, []).append(id(c))
        if side:
            # (with a second environment the order inside a listing is the order of joining across both: compared as sets here)
            for a in side["res"].values():
                for t, c in a.components.items():
                    exp_pools.setdefault(t.__name__, []).append(id(c))
            ctx.check(sorted((n_, sorted(l_)) for n_, l_ in pools()) == sorted((n_, sorted(l_)) for n_, l_ in exp_pools.items()),
                      "component-listings", lambda: f"{where}: listings {pools()} expected (as sets) {sorted(exp_pools.items())}")
            ctx.check([x.id for x in side["env"]] == [x.id for x in side["res"].values()], "iteration",
                      lambda: f"{where}: the second environment iterates {[x.id for x in side['env']]}")
        else:
            ctx.check(pools() == sorted(exp_pools.items()), "component-listings",
                      lambda: f"{where}: listings {pools()} expected {sorted(exp_pools.items())}")
        for a in objs:
            if spatial and (a.id not in residents or objs[residents[a.id]] is not a):
                ctx.check(PositionComponent not in a, "stray-position", f"{where}: non-resident {a.id} carries a position")

    def rejected(what, excs, fn, *args, **kw):
        before = snapshot()
        ctx.expect_raises(what, excs, fn, *args, **kw)
        after = snapshot()
        ctx.check(after == before, f"{what}:left-a-trace",
                  lambda: f"state changed by the rejected call: {[k for k in before if before[k] != after[k]]}")
        kinds_fired.add(what)
        if not residents:
            ctx.probe("reject_on_empty_environment")

    gate = StepGate(ctx)
    for op in sc["ops"]:
        kind = op["op"]
        if kind == "enter_step":
            gate.enter(env.model)
            continue
        if kind == "leave_step":
            gate.leave()
            continue
        if kind == "lifecycle" and ctx.in_step and op.get("what") == "step":
            continue          # stepping the model from inside its own timestep is re-entrant stepping: outside the statements
        if kind in ("side_add", "side_remove"):
            k = op["k"] % len(pool)
            if sc["world"].get("orphan") or isinstance(objs[k], Environment):
                continue
            if not side:
                side["env"] = Environment(m, id="side-environment")
                side["res"] = {}
            if kind == "side_add" and k not in side["res"] and all(t_.id != objs[k].id for t_ in side["res"].values()):
                twin = Agent(objs[k].id, m)
                for c in pool[k]["comps"]:
                    twin.add_component(KT[c % 3](twin, m))
                ctx.expect_ok("side-add", side["env"].add_agent, twin)
                side["res"][k] = twin
                ctx.probe("same_id_resident_in_two_environments_of_one_model" if objs[k].id in residents else "second_environment_of_the_model_populated")
            elif kind == "side_remove" and k in side["res"]:
                ctx.expect_ok("side-remove", side["env"].remove_agent, side["res"].pop(k).id)
            ctx.event(kind, k)
            check_agreement(kind)
            continue
        if kind == "add":
            k = op["k"] % len(pool)
            a = objs[k]
            if a.id in residents:
                same = residents[a.id] == k
                ctx.fault("reject.dup_agent")
                ctx.probe("dup_same_object" if same else "dup_other_object")
                rejected("add-duplicate", DuplicateAgentError, env.add_agent, a, *place(op["frac"]))
                shape.append(["dup", same, len(residents)])
            else:
                if op.get("camel") and (not spatial or ref.inside([0, 0, 0])):
                    ctx.probe("deprecated_camelcase_spelling")
                    ctx.expect_ok("add", env.addAgent, a)
                    op = dict(op, frac=[0, 0, 0])
                else:
                    ctx.expect_ok("add", env.add_agent, a, *place(op["frac"]))
                residents[a.id] = k
                if (a.id, k) in ever:
                    ctx.probe("readd_after_remove")
                ever.add((a.id, k))
                shape.append(["add", len(residents)])
                if spatial:
                    ctx.check(get_pos(a) == tuple(place(op["frac"])), "placement", f"{a.id}")
            ctx.event("add", k, a.id in residents)
        elif kind in ("remove", "remove_id"):
            i_ = pool[op["k"] % len(pool)]["id"] if kind == "remove" else op["id"]
            if i_ in residents:
                idx = list(residents).index(i_)
                if 0 < idx < len(residents) - 1:
                    ctx.probe("remove_from_middle")
                    pending_mid = True
                ctx.expect_ok("remove", env.removeAgent if op.get("camel") else env.remove_agent, i_)
                del residents[i_]
                shape.append(["rm", idx, len(residents)])
            else:
                ctx.fault("reject.unknown_agent")
                ctx.probe("unknown_remove")
                rejected("remove-unknown", AgentNotFoundError, env.remove_agent, i_)
                shape.append(["rmx", len(residents)])
            ctx.event("remove", i_)
        elif kind == "lookup":
            i_ = op["id"]
            if op["strict"]:
                if i_ in residents:
                    got = ctx.expect_ok("lookup-strict", env.get_agent, i_, True)
                    ctx.check(got is objs[residents[i_]], "lookup", f"strict {i_}")
                else:
                    ctx.fault("reject.lookup")
                    ctx.probe("unknown_strict_lookup")
                    rejected("lookup-strict-unknown", AgentNotFoundError, env.get_agent, i_, True)
            else:
                got = ctx.expect_ok("lookup", env.get_agent, i_)
                ctx.check(got is (objs[residents[i_]] if i_ in residents else None), "lookup", f"{i_}")
            shape.append(["look", op["strict"], i_ in residents])
        elif kind == "oob":
            if not spatial:
                continue
            k = op["k"] % len(pool)
            a = objs[k]
            ax = op["axis"] % 3
            if not ref.positive(ax):
                axes = [x for x in range(3) if ref.positive(x)]
                if not axes:
                    continue
                ax = axes[op["axis"] % len(axes)]
            p = [int(op["frac"][x] * (ref.hi(x) + 1)) if ref.positive(x) else 0 for x in range(3)]
            p = [min(c, max(ref.hi(x), 0)) for x, c in enumerate(p)]
            step = 10 ** 6 * ref.den if op["far"] else (1 if ref.den == 8 and op["frac"][0] < 0.5 else ref.den)
            p[ax] = (ref.hi(ax) + step) if op["side"] == "hi" else -step
            if a.id in residents and residents[a.id] == k:
                continue      # a resident agent placed again: duplicate and out of bounds at once - not a single error path
            ctx.fault("reject.oob")
            ctx.probe(f"oob_{'xyz'[ax]}_{op['side']}")
            if op["far"]:
                ctx.probe("oob_far")
            coords = list(ref.real(p))
            if op.get("half") and ref.den == 1 and not op["far"]:
                # grid world, non-integral coordinate strictly between the last cell and the next (or between -1 and 0)
                coords[ax] = (ref.hi(ax) + 0.5) if op["side"] == "hi" else -0.5
                ctx.probe("oob_fractional_in_grid")
            rejected("add-out-of-bounds", Exception, env.add_agent, a, *coords)
            shape.append(["oob", ax, op["side"], len(residents)])
            ctx.event("oob", k, p)
        elif kind == "lifecycle":
            # membership does not depend on the model's lifecycle (a completed model is falsy, an agent without components too)
            ctx.expect_ok("lifecycle", m.complete if op["what"] == "complete" else m.execute)
            ctx.probe("model_lifecycle_op")
        elif kind == "scramble":
            # the caller edits the list it got back, or uses the helpers that work on such a list; the environment's own
            # listing, iteration and lookups must be unaffected
            how = op["how"]
            if how in ("reverse", "clear", "pop"):
                lst = ctx.expect_ok("get_agents", env.get_agents)
                if how == "reverse":
                    lst.reverse()
                elif how == "clear":
                    lst.clear()
                elif lst:
                    lst.pop(0)
            elif how == "shuffle" and env.model is not None:      # the random helpers need the model's generator
                ctx.expect_ok("shuffle", env.shuffle)
            elif how == "pick" and env.model is not None:
                ctx.expect_ok("get_random_agent", env.get_random_agent)
            else:
                for _ in env:
                    break
            ctx.probe("caller_scrambles_listing")
        elif kind == "nest":
            e = objs[op["k"] % len(pool)]
            if not isinstance(e, Environment):
                continue
            if op["what"] == "add":
                ctx.expect_ok("nested-add", inner_add, e)
            elif e.agents:
                ctx.expect_ok("nested-remove", e.remove_agent, next(iter(e.agents)))
            if e.id in residents and objs[residents[e.id]] is e:
                ctx.probe("nested_population_changed_while_resident")
        elif kind == "branch":
            if ctx.in_step or env.model is None:
                continue
            blob = (m, env, objs, other_model, side)
            m, env, objs, other_model, side = pickle.loads(pickle.dumps(blob)) if op.get("how") == "pickle" else copy.deepcopy(blob)
            ctx.fault("restart.continue_on_copy")
            ctx.probe("history_continued_on_a_copy")
        elif kind == "observe":
            pass
        if len(residents) >= 3:
            flags["three"] = True
        check_agreement(kind)
        if pending_mid and kind not in ("remove", "remove_id"):
            flags["mid"] = True
            pending_mid = False
        ctx.state([list(residents), kind])
    gate.leave()
    check_agreement("after-the-step")
    ctx.nontrivial = flags["three"] and flags["mid"] and len(kinds_fired) >= 2
    ctx.sig = shape[:60]
