"""C16 - grid search scores every combination correctly and returns the true best.

Simulated dimension: the same search is executed serially and on the simulated pool under a seeded
schedule; outcomes must be value-identical, and the scoring arithmetic is checked against an exact
recomputation with fractions.Fraction."""
import itertools
import sys
from fractions import Fraction

import ECAgent.Batching as B

from simkit.simpool import make_pool
from . import workloads as W
from .c15 import as_list, decode_values, gen_pool

PROPERTY = "C16"
QUICK_RUNS = 8000
CHUNK = 100
ISOLATE = True     # fork per run: a change that adds process-global state to the package cannot leak between runs
RULE = ("grids of 1-12 combinations, repetitions 1-6 (>=2 for variance modes), all eight scoring modes, score tables of "
        "integers of any magnitude (beyond +-sys.maxsize included) or dyadic floats, negative / tied / non-monotone, "
        "optimum forced first / middle / last or tied; the search runs serially and on a simulated pool (1..16 workers, "
        "seeded durations / ties / stalled workers); non-trivial = >=3 combinations with the optimum not at an end, or "
        "a tie for best, or |score| > sys.maxsize; distinct = (mode, combinations, repetitions, processes, best index, "
        "tie?, magnitude class, completion permutation)"
        "; also: numpy integer scores, sibling ParameterList edited before the search, duplicate combinations handled in the oracle; real-pool arm changes program state between two parallel searches; rare switch for known finding F9, parameters named like the search code's own arguments (max_timesteps, model_cls, mode, ...), one-shot iterables (iterator / generator) as values of a later parameter, models with their own `timestep` attribute, models that run a batch of their own while being built, the model's running state as the score function sees it, every model stepped through exactly the timesteps up to its completion / the limit")
COMPONENTS = {"real": ["ECAgent.Batching.grid_search", "_run_model_for_search", "_score_model_for_search", "ParameterList",
                       "statistics.mean/variance as called by the package", "ECAgent.Core.Model / SystemManager"],
              "stub": ["multiprocessing.Pool -> simkit.simpool.SimPool", "models and score function are harness workloads"]}
PROBES = ["exact_rational_scores", "mode_0", "mode_1", "mode_2", "mode_3", "mode_4", "mode_5", "mode_6", "mode_7", "tie_for_best",
          "negative_only", "single_combination", "beyond_maxsize", "optimum_first", "optimum_middle", "optimum_last",
          "parallel_reordered", "float_scores", "numpy_integer_scores", "parameter_named_like_a_batching_argument", "model_with_own_timestep_attribute", "one_shot_iterable_as_a_later_parameter",
          "parameterlist_searched_replaced_searched_again"]
TECHNIQUE = "deterministic simulation: serial vs simulated-parallel schedules of the same search, exact Fraction recomputation of every aggregate and of the best"
LEVEL_TEXT = ("Seeded search over grids, modes, score tables and simulated pool schedules; every aggregate and the returned best "
              "are compared with an exact rational recomputation and the serial and simulated-parallel outcomes must be "
              "value-identical. Sampling, not proof; <=12 combinations x <=6 repetitions, <=16 workers. A real-pool arm "
              "repeats the comparison with uncontrolled interleaving.")
LEVEL_NOTE = ("Trusted: SimPool's model of Pool.imap; score values are ints or dyadic floats so that the expected aggregate is "
              "exactly representable or the correctly rounded float statistics produces.")
SHRINK_LISTS = ["grid"]
SHRINK_SKIP = ("mode",)
MAXSIZE = sys.maxsize


def gen_score(rng, style):
    if style == "small":
        return rng.randint(-6, 6)
    if style == "neg":
        return -rng.randint(1, 50)
    if style == "big":
        return rng.choice([1, -1]) * (MAXSIZE + rng.randint(0, 2 ** 70))
    if style == "bigpos":
        return MAXSIZE + rng.randint(0, 2 ** 66)
    if style == "bigneg":
        return -MAXSIZE - rng.randint(0, 2 ** 66)
    if style == "float":
        return [rng.randint(-2 ** 12, 2 ** 12), 8]
    if style == "fraction":
        # an exact rational score (fractions.Fraction: a ratio of two counts) that no double represents
        return {"frac": [rng.randint(-60, 60), rng.choice([3, 7, 9, 11, 3 * 2 ** 60 + 1])]}
    return rng.randint(-1000, 1000)


def generate(rng, tier):
    while True:
        grid = []
        for i in range(rng.randint(1, 3)):
            n = rng.randint(1, 4)
            kind = rng.choice(["list", "list", "tuple", "range", "scalar", "oneshot"])
            if kind == "tuple" and rng.random() < 0.2:
                kind = "ntuple"
            if kind == "oneshot":
                kind = rng.choice(["iter", "gen"]) if i > 0 else "list"
            if kind == "scalar" and rng.random() < 0.15:
                grid.append([f"p{i}", {"kind": "taglib", "v": rng.choice([["PREY", "PREDATOR"], ["A"], [], ["X", "Y", "Z"]])}])
            elif kind == "scalar":
                grid.append([f"p{i}", {"kind": "scalar", "v": rng.randint(0, 9)}])
            elif kind == "range":
                grid.append([f"p{i}", {"kind": "range", "v": n}])
            else:
                grid.append([f"p{i}", {"kind": kind, "v": rng.sample(range(10), n)}])   # distinct values: unique combos
        if grid and rng.random() < 0.02:
            grid[-1][0] = rng.choice(["records", "score"])       # trigger of known finding F9 (rare on purpose)
        size = 1
        for _, s in grid:
            size *= len(as_list(s))
        if 1 <= size <= (16 if tier == "thorough" else 12):
            break
    if rng.random() < 0.12 and grid[0][0] not in ("records", "score"):
        grid[0][0] = rng.choice(W.SPECIAL_NAMES)
    shadow = rng.choice([None, None, None, None, 0.25, 2.0, 7])      # the model keeps an attribute of its own called `timestep`
    mode = rng.randrange(8)
    reps = rng.randint(2 if mode >= 6 else 1, 8 if tier == "thorough" else 6)
    style = rng.choice(["small", "small", "neg", "big", "bigpos", "bigneg", "float", "mid", "mid"])
    if rng.random() < 0.1:
        style = "fraction"
    scores = [[gen_score(rng, style) for _ in range(reps)] for _ in range(size)]
    r = rng.random()
    if r < 0.5 and size >= 2:
        # force the optimum to a chosen position (or a tie) by copying an extreme row
        is_min = mode % 2 == 0
        pos = rng.choice([0, size // 2, size - 1])
        if mode >= 6:
            flat = [rng.randint(-3, 3)] * reps if style != "float" else [[rng.randint(-20, 20), 8]] * reps
            wide = [(-1) ** j * 10 ** 6 for j in range(reps)] if style != "float" else [[(-1) ** j * 2 ** 20, 8] for j in range(reps)]
            row = flat if is_min else wide
        else:
            if style == "float":
                v = [(-2 ** 14 if is_min else 2 ** 14), 8]
            elif style in ("big", "bigpos", "bigneg"):
                v = (-1 if is_min else 1) * (MAXSIZE + 2 ** 72)
            else:
                v = -5000 if is_min else 5000
            row = [v] * reps
        scores[pos] = list(row)
        if rng.random() < 0.35:
            scores[rng.randrange(size)] = list(row)     # a tie for best
    elif r < 0.6:
        scores = [list(scores[0]) for _ in range(size)]  # everything tied
    max_ts = rng.choice([None, None, rng.randint(0, 5)])
    reuse = {"first": rng.choice(["list", "iter", "gen", "range"]), "second": rng.sample([2, 3, 4, 7, 8], 2)} if rng.random() < 0.08 else None
    return {"reuse": reuse, "nested_batches": rng.random() < 0.08, "shadow_timestep": shadow, "numpy_scores": style in ("small", "neg", "mid") and rng.random() < 0.3, "sibling": rng.random() < 0.15, "grid": grid, "via": rng.choice(["dict", "plist"]), "reps": reps, "mode": mode, "scores": scores,
            "processes": rng.choice([2, 2, 3, 4, 8, 16, rng.randint(2, 16)]), "max_ts": max_ts,
            "base_stop": rng.randint(0, 4), "spread": rng.randint(1, 3), "pool": gen_pool(rng, size)}


def to_frac(v):
    if isinstance(v, dict):
        return Fraction(v["frac"][0], v["frac"][1])
    return Fraction(v[0], v[1]) if isinstance(v, list) else Fraction(v)


def to_val(v):
    if isinstance(v, dict):
        return Fraction(v["frac"][0], v["frac"][1])
    return v[0] / v[1] if isinstance(v, list) else v


def aggregate(rec_specs, mode):
    """Exact aggregate and the value the package should report for it."""
    fr = [to_frac(v) for v in rec_specs]
    ints = all(not isinstance(v, (list, dict)) for v in rec_specs)
    n = len(fr)
    if mode in (0, 1):
        x = min(fr) if mode == 0 else max(fr)
    elif mode in (2, 3):
        x = sum(fr) / n
    elif mode in (4, 5):
        x = sum(fr)
    else:
        mean = sum(fr) / n
        x = sum((v - mean) ** 2 for v in fr) / (n - 1)
    if any(isinstance(v, dict) for v in rec_specs):
        rep = x             # exact rational scores aggregate exactly (min / max / sum / statistics.mean / variance all do)
    elif ints and x.denominator == 1:
        rep = int(x)
    else:
        rep = float(x)
    return x, rep


def run_search(ctx, sc, processes, label):
    names = [g[0] for g in sc["grid"]]
    raw = {n: decode_values(s) for n, s in sc["grid"]}
    if sc.get("sibling"):
        sib = B.ParameterList(raw)          # a sibling list built from the same dict and edited: must not leak into `raw`
        sib.add_parameter("zz_extra", [1, 2])
    params = B.ParameterList(raw) if sc["via"] == "plist" else raw
    combos = [dict(zip(names, vals)) for vals in itertools.product(*[as_list(s) for _, s in sc["grid"]])]
    sigs = [W.sig_of(c) for c in combos]
    table = {}
    for i, s in enumerate(sigs):
        table.setdefault(s, sc["scores"][i % len(sc["scores"])])
    W.reset({"base_stop": sc["base_stop"], "spread": sc["spread"], "scores": table,
             "collectors_defined": [["col0", 1]], "numpy_scores": bool(sc.get("numpy_scores")),
             "shadow_timestep": sc.get("shadow_timestep"), "nested_batches": sc.get("nested_batches")})
    if sc.get("shadow_timestep") is not None:
        ctx.probe("model_with_own_timestep_attribute")
    if any(isinstance(v, dict) for row in sc["scores"] for v in row):
        ctx.probe("exact_rational_scores")
    if any(n_ in W.SPECIAL_NAMES for n_ in names):
        ctx.probe("parameter_named_like_a_batching_argument")
    if any(s_["kind"] in ("iter", "gen") for _, s_ in sc["grid"]):
        ctx.probe("one_shot_iterable_as_a_later_parameter")
    stats = {}
    kwargs = {"processes": processes, "repetitions": int(sc["reps"]), "mode": B.ScoreMode(int(sc["mode"]) % 8)}
    if sc["max_ts"] is not None:
        kwargs["max_timesteps"] = sc["max_ts"]
    old = B.Pool
    B.Pool = make_pool(sc["pool"], stats)
    before = [(k, repr(v)) for k, v in (params._parameters if isinstance(params, B.ParameterList) else params).items()]
    try:
        st, val = ctx.call(B.grid_search, W.SearchModel, params, W.score_fn, **kwargs)
    finally:
        B.Pool = old
    after = [(k, repr(v)) for k, v in (params._parameters if isinstance(params, B.ParameterList) else params).items()]
    ctx.check(after == before, "caller-parameters-modified", f"grid_search changed the caller's parameters: {after} was {before}")
    comp = stats["batches"][0]["completion"] if stats.get("batches") else None
    ctx.event(label, processes, comp, st if st == "ok" else type(val).__name__)
    if st != "ok":
        ctx.fail("search:unexpected-exception", f"{label}: {type(val).__name__}: {val}")
    return combos, sigs, table, val, comp, list(W.LEDGER)


def check_outcome(ctx, sc, combos, sigs, table, val, ledger, label):
    mode = int(sc["mode"]) % 8
    reps = int(sc["reps"])
    ctx.check(isinstance(val, tuple) and len(val) == 2, "outcome-shape", f"{label}: {type(val).__name__}")
    best, results = val
    ctx.check(len(results) == len(combos), "result-count", f"{label}: {len(results)} results for {len(combos)} combinations")
    exact = []
    occurrence = {}
    for i, (c, r) in enumerate(zip(combos, results)):
        # the k-th combination with the same parameters (possible only in shrunk scenarios) continues the score table
        k = occurrence.get(sigs[i], 0)
        occurrence[sigs[i]] = k + 1
        row = table[sigs[i]]
        spec = [row[(k * reps + j) % len(row)] for j in range(reps)]
        want_rec = [to_val(v) for v in spec]
        for k, v in c.items():
            ctx.check(k in r and r[k] == v and type(r[k]) is type(v), "parameters-modified",
                      f"{label}: combination {i}: parameter {k}={v!r} reported as {r.get(k)!r}",
                      finding="F9" if k in ("records", "score") else None)
        ctx.check(set(c) | {"records", "score"} <= set(r), "result-keys", f"{label}: combination {i}: keys {sorted(r)}")
        ctx.check(list(r["records"]) == want_rec, "records",
                  f"{label}: combination {i} ({sigs[i]}): records {r['records']!r} expected {want_rec!r}")
        x, rep = aggregate(spec, mode)
        exact.append(x)
        ctx.check(r["score"] == rep, "aggregate",
                  f"{label}: combination {i}: mode {mode} score {r['score']!r} expected {rep!r} (exact {x})")
    target = min(exact) if mode % 2 == 0 else max(exact)
    bi = exact.index(target)
    ctx.check(best == results[bi], "best",
              lambda: f"{label}: mode {mode}: returned best has score {best.get('score')!r} params "
                      f"{ {k: best.get(k) for k in combos[0]} }, the first optimum is combination {bi} "
                      f"with score {results[bi]['score']!r}; all scores {[r['score'] for r in results]}")
    # every model ran to its own completion or the step limit, never beyond; reps models per combination
    ctx.check(sorted(e["sig"] for e in ledger) == sorted(s for s in sigs for _ in range(reps)), "evaluations",
              f"{label}: models built {sorted(e['sig'] for e in ledger)}")
    for e in ledger:
        done = False
        for name, t, running in e["ticks"]:
            ctx.check(not done and running, "ran-after-completion", f"{label}: {e['sig']}: {name} at t={t}")
            if sc["max_ts"] is not None:
                ctx.check(t < sc["max_ts"], "past-step-limit", f"{label}: {e['sig']}: {name} at t={t}")
            if name == "stopper" and e["completed_at"] == t:
                done = True
        ctx.check(e.get("scored"), "not-scored", f"{label}: {e['sig']}")
        # ... and not short of it either: the model was stepped through every timestep up to completion / the limit
        lim = W.stop_at_of(e["sig"])
        reach = lim if sc["max_ts"] is None else min(lim, sc["max_ts"] - 1)
        seen = [t for n_, t, _ in e["ticks"] if n_ == "stopper"]
        want_running = not (sc["max_ts"] is None or sc["max_ts"] > lim)
        ctx.check(e.get("running_when_scored") == want_running, "model-state-when-scored",
                  f"{label}: {e['sig']}: the score function saw is_running()={e.get('running_when_scored')}; the run ended "
                  f"{'at the step limit, the model had not completed' if want_running else 'with the model completing itself'}")
        ctx.check(seen == list(range(0, reach + 1)), "stepping",
                  f"{label}: {e['sig']}: stepped through timesteps {seen}, expected 0..{reach}")
    return bi, exact


def reuse_after_replacing(ctx, sc):
    """Coarse-to-fine refinement with ONE ParameterList: searched, one parameter replaced under its own name (remove + add),
    searched again - the second search is about the parameters as they are declared NOW."""
    how = sc["reuse"]
    first = {"list": [0, 1], "iter": iter([0, 1]), "gen": (v for v in [0, 1]), "range": range(2)}[how["first"]]
    pl = B.ParameterList({"a": first, "b": [5]})
    second = list(how["second"])
    table = {W.sig_of({"a": a_, "b": 5}): [int(10 * a_ + 3)] for a_ in [0, 1] + second}
    for round_, vals in (("first", [0, 1]), ("second", second)):
        W.reset({"base_stop": 1, "spread": 1, "scores": table, "collectors_defined": [["col0", 1]]})
        best, results = ctx.expect_ok("grid_search-" + round_, B.grid_search, W.SearchModel, pl, W.score_fn,
                                      mode=B.ScoreMode.MIN, processes=1)
        got = [r_.get("a") for r_ in results]
        ctx.check(got == vals and best.get("a") == min(vals), "evaluations",
                  f"{round_} search on a reused ParameterList evaluated a={got} (best a={best.get('a')}), declared now: a={vals}")
        if round_ == "first":
            ctx.expect_ok("remove_parameter", pl.remove_parameter, "a")
            ctx.expect_ok("add_parameter", pl.add_parameter, "a", list(second))
    ctx.probe("parameterlist_searched_replaced_searched_again")


def execute(sc, ctx):
    if sc.get("reuse"):
        reuse_after_replacing(ctx, sc)
    size = 1
    for _, s in sc["grid"]:
        size *= len(as_list(s))
    names = [g[0] for g in sc["grid"]]
    if size < 1 or size > 16 or len(set(names)) != len(names) or not sc["scores"] or int(sc["reps"]) < 1:
        return
    mode = int(sc["mode"]) % 8
    if mode >= 6 and int(sc["reps"]) < 2:
        return
    ctx.probe(f"mode_{mode}")
    if sc.get("numpy_scores"):
        ctx.probe("numpy_integer_scores")
    combos, sigs, table, val1, _, led1 = run_search(ctx, sc, 1, "serial")
    bi, exact = check_outcome(ctx, sc, combos, sigs, table, val1, led1, "serial")
    p = max(2, int(sc["processes"]))
    combos, sigs, table, valp, comp, ledp = run_search(ctx, sc, p, "parallel")
    check_outcome(ctx, sc, combos, sigs, table, valp, ledp, "parallel")
    ctx.check(val1[1] == valp[1] and val1[0] == valp[0], "serial-vs-parallel", "outcomes differ between 1 and "
              f"{p} processes")
    ctx.sim_time += sum(len(e["ticks"]) for e in led1) + sum(len(e["ticks"]) for e in ledp)
    ctx.fault("pool.pickle", len(combos))
    if comp is not None and comp != sorted(comp):
        ctx.fault("pool.reorder")
        ctx.probe("parallel_reordered")
    target = exact[bi]
    tie = exact.count(target) > 1
    big = any(abs(x) > MAXSIZE for x in exact)
    if tie:
        ctx.probe("tie_for_best")
    if all(x < 0 for x in exact):
        ctx.probe("negative_only")
    if len(combos) == 1:
        ctx.probe("single_combination")
    if big:
        ctx.probe("beyond_maxsize")
    if any(isinstance(v, list) for row in sc["scores"] for v in row):
        ctx.probe("float_scores")
    ctx.probe("optimum_first" if bi == 0 else ("optimum_last" if bi == len(combos) - 1 else "optimum_middle"))
    ctx.nontrivial = (len(combos) >= 3 and 0 < bi < len(combos) - 1) or tie or big
    ctx.sig = [mode, len(combos), int(sc["reps"]), p, bi, tie, big, comp]
    ctx.state([mode, len(combos), bi, tie, big])


def _real_one(sc):
    from simkit.core import Ctx, Violation
    ctx = Ctx(keep_trace=False)
    names = [g[0] for g in sc["grid"]]
    raw = {n: decode_values(s, oneshot=False) for n, s in sc["grid"]}       # (this arm uses one grid for four searches)
    combos = [dict(zip(names, vals)) for vals in itertools.product(*[as_list(s) for _, s in sc["grid"]])]
    sigs = [W.sig_of(c) for c in combos]
    table = {}
    for i, s in enumerate(sigs):
        table.setdefault(s, sc["scores"][i % len(sc["scores"])])
    kw = {"repetitions": int(sc["reps"]), "mode": B.ScoreMode(int(sc["mode"]) % 8)}
    if sc["max_ts"] is not None:
        kw["max_timesteps"] = sc["max_ts"]
    cfg = {"base_stop": sc["base_stop"], "spread": sc["spread"], "scores": table, "collectors_defined": [["col0", 1]],
           "sleep_us": 700, "isolation_probe": True}
    try:
        W.reset(cfg)
        v1 = B.grid_search(W.SearchModel, dict(raw), W.score_fn, processes=1, **kw)
        W.reset(cfg)
        procs = max(2, min(8, sc["processes"]))
        vp = B.grid_search(W.SearchModel, dict(raw), W.score_fn, processes=procs, **kw)
        ctx.check(v1[0] == vp[0] and v1[1] == vp[1], "real-pool:serial-vs-parallel", "outcomes differ")
        # the program's state changes (another score table) and the search is repeated with the same process count:
        # workers must see the state of THIS call, not of an earlier one
        def shifted(v):
            if isinstance(v, dict):
                return {"frac": [v["frac"][0] + 1000 * v["frac"][1], v["frac"][1]]}
            return [v[0] + 8000, v[1]] if isinstance(v, list) else v + 1000
        table2 = {s: [shifted(v) for v in row] for s, row in table.items()}
        cfg2 = dict(cfg, scores=table2)
        W.reset(cfg2)
        v1b = B.grid_search(W.SearchModel, dict(raw), W.score_fn, processes=1, **kw)
        W.reset(cfg2)
        vpb = B.grid_search(W.SearchModel, dict(raw), W.score_fn, processes=procs, **kw)
        ctx.check(v1b[0] == vpb[0] and v1b[1] == vpb[1], "real-pool:stale-worker-state",
                  "a second parallel search in the same process used the program state of an earlier call")
    except Violation as v:
        return {"kind": v.kind, "detail": v.detail, "scenario": sc}
    return None


def post_batch(tier, seed):
    import random
    import time
    from simkit.core import run_seed
    n = 2 if tier == "quick" else 100
    t0 = time.time()
    for i in range(n):
        rng = random.Random(run_seed(seed, "C16-real", i))
        sc = generate(rng, tier)
        v = _real_one(sc)
        if v is not None:
            return {"violation": {"arm": "real multiprocessing.Pool (schedule not controlled; replay = re-run, best effort)",
                                  **v}}
    # one search picked for the isolation probe (at least 4 combinations, integer scores): executions that share one interpreter
    # overwrite each other's interpreter-wide state, worker PROCESSES cannot
    for i in range(200):
        rng = random.Random(run_seed(seed, "C16-real-isolation", i))
        sc = generate(rng, tier)
        size = 1
        for _, s_ in sc["grid"]:
            size *= len(as_list(s_))
        if size >= 4 and all(isinstance(v_, int) for row in sc["scores"] for v_ in row) and not sc.get("numpy_scores") \
                and all(g_[0] not in ("records", "score") for g_ in sc["grid"]) and sc["base_stop"] >= 2 \
                and (sc["max_ts"] is None or sc["max_ts"] >= 3):          # (the models must actually take a few steps)
            v = _real_one(sc)
            if v is not None:
                return {"violation": {"arm": "real multiprocessing.Pool (schedule not controlled; replay = re-run, best effort)", **v}}
            break
    from . import startmethod
    sm = startmethod.run(tier, seed, "search")
    if "violation" in sm:
        return sm
    return {"evidence": {"real_pool_arm": {"searches": n, "wall_s": round(time.time() - t0, 2),
                                           "note": "real multiprocessing.Pool; serial and parallel outcomes compared by value"},
                         **sm["evidence"]}}
