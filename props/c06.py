"""C06 - completion is immediate and final: nothing runs after complete().

Simulated dimension: complete() is a cancellation injected at an arbitrary point of the schedule - by a
system at any queue position and timestep (also in the middle of a multi-step request), or from
outside between steps; afterwards the simulator keeps issuing requests and checks that nothing moves."""
import logging

import numpy          # (loaded once in the worker: forked runs must not import it each)

from .common import (ambient_warnings, model_class, model_class, MAXSIZE, Model, ModelCompleteError, Rec, RefSched, SystemNotFoundError, gen_flavour, gen_prio, gen_window,
                     rec_class, spec_defaults)

PROPERTY = "C06"
QUICK_RUNS = 20000
CHUNK = 400
RULE = ("1-8 recording systems (mixed priorities/windows); completion point = (system, timestep) at any position of "
        "the order or 'from outside after step t'; then a tail of 3-15 requests from {execute(), execute(n), "
        "execute_systems(), execute_systems(throw_error=True), add_system, remove_system, duplicate add, unknown "
        "removal, rejected n, complete() again}; non-trivial = completion from outside, or from a system that is "
        "neither first nor last with >=1 due system behind it, followed by >=3 further requests; distinct = "
        "(queue length, completer position, due systems behind, inside multi-step?, tail op kinds)"
        "; also: completion before the first step, a completer that raises right after complete(), systems bound to another (running) model, falsy systems, ambient logging state (custom logger without a level, raised level, logging.disable), completion by a member of a private SystemManager of the same model, further requests issued by the completing system itself")
COMPONENTS = {"real": ["ECAgent.Core.Model.complete/is_running/__bool__/execute", "ECAgent.Core.SystemManager.execute_systems",
                       "add_system/remove_system after completion"],
              "stub": ["System.execute bodies are harness recorders; the completer calls model.complete() when scripted"]}
PROBES = ["strictness_flag_truthy_but_not_the_True_singleton", "strict_request_on_a_running_model", "completer_first", "completer_middle", "completer_last", "complete_outside", "complete_at_t0",
          "multi_step_spans_completion", "throw_error_raised", "add_after_complete", "remove_after_complete",
          "due_system_skipped", "completer_raises_after_complete", "completed_by_member_of_a_private_system_manager", "request_from_inside_the_completing_timestep", "raising_request_inside_an_iterator", "system_bound_to_another_model", "falsy_systems", "systems_returning_values_from_execute",
          "logging_custom_logger", "logging_level_warning", "logging_disable_info", "logging_disable_critical", "logging_level_debug"]
TECHNIQUE = "deterministic simulation: complete() injected as a cancellation at every schedule point, then a seeded request tail with a 'nothing moves' oracle"
LEVEL_TEXT = ("Seeded search over the completion point (queue position x timestep, inside multi-step requests, from outside) "
              "and over the later request history; checks that nothing executes after the completing system, that the clock, "
              "the log and is_running()/bool() never change again and that throw_error=True raises ModelCompleteError. "
              "Sampling, not proof; <=8 systems, horizon <=20, tail <=15.")
LEVEL_NOTE = ("Trusted: reference scheduler; whether the completing step itself advances the clock is not constrained "
              "(either value is accepted, then it must stay frozen).")
SHRINK_LISTS = ["tail", "pre", "systems"]
SHRINK_SKIP = ("end",)


def generate(rng, tier):
    n = rng.randint(1, 8)
    horizon = rng.randint(1, 20 if tier == "thorough" else 12)
    systems = []
    for i in range(n):
        s = {"id": f"s{i}", "prio": gen_prio(rng), "foreign": rng.random() < 0.1}
        s.update(gen_window(rng, horizon, always=0.75))
        systems.append(s)
    tc = rng.choice([0, 0, rng.randint(0, horizon)])
    if rng.random() < 0.25:
        comp = {"by": None, "t": rng.choice([tc, tc, -1])}   # -1: completed from outside before any step
    else:
        comp = {"by": rng.choice(systems)["id"], "t": tc}
    pre = []
    t = 0
    while t <= tc:
        k = rng.choice([1, 1, 2, 3, 5])
        pre.append({"op": rng.choice(["adv", "adv", "bare"]), "n": k})
        t += k
    tail = []
    fresh = 0
    for _ in range(rng.randint(3, 15)):
        r = rng.random()
        if r < 0.25:
            tail.append({"op": "adv", "n": 1})
        elif r < 0.4:
            tail.append({"op": "adv", "n": rng.randint(2, 6)})
        elif r < 0.52:
            tail.append({"op": "bare"})
        elif r < 0.66:
            tail.append({"op": "bare_throw", "via": rng.choice([None, None, None, "map", "generator", "one", "numpy"])})
        elif r < 0.76:
            spec = {"id": f"n{fresh}", "prio": gen_prio(rng)}
            fresh += 1
            tail.append({"op": "add", "sys": spec})
        elif r < 0.84:
            tail.append({"op": "remove", "k": rng.randrange(n)})
        elif r < 0.88:
            tail.append({"op": "add_dup", "k": rng.randrange(n)})
        elif r < 0.92:
            tail.append({"op": "bad", "v": rng.choice(["zero", "neg", "float", "str", "none"])})
        elif r < 0.96:
            tail.append({"op": "complete"})
        else:
            tail.append({"op": "remove_ghost"})
    if comp["by"] is not None and rng.random() < 0.12:
        # the completing system is a "group": it owns a SystemManager of its own for the same model and steps its members; one
        # of THEM completes the model - the rest of the group, and the rest of the timestep, must be skipped all the same
        nm = rng.randint(2, 4)
        comp["group"] = {"members": nm, "completer": rng.randrange(nm)}
    if comp["by"] is not None and rng.random() < 0.15:
        # the completing system (or a helper it calls) goes on to ask for more steps while its timestep is still on the stack:
        # these are "later requests" like any other
        comp["then_request"] = [rng.choice(["throw", "throw", "plain", "execute"]) for _ in range(rng.randint(1, 3))]
    if comp["by"] is not None and rng.random() < 0.2:
        comp["then_raise"] = rng.choice(["OSError", "ValueError", "RuntimeError", "KeyError"])
    # ambient logging state: the statement's reactions must not depend on whether anybody listens to the model's logger
    r = rng.random()
    log = None if r < 0.7 else rng.choice(["custom_logger", "custom_logger", "level_warning", "disable_info", "disable_critical",
                                            "level_debug"])
    sc = dict({"systems": systems, "complete": comp, "pre": pre, "tail": tail, "logging": log}, **gen_flavour(rng))
    # (drawn last) a driver loop that steps the scheduler in strict mode: `execute_systems(throw_error=True)` on a RUNNING model is
    # an ordinary step - the documented error is for requests on a complete model, not for the timestep in which completion happens
    sc["pre_strict"] = rng.random() < 0.25
    return sc


BAD = {"zero": 0, "neg": -3, "float": 1.5, "str": "2", "none": None}
EXC = {"OSError": OSError, "ValueError": ValueError, "RuntimeError": RuntimeError, "KeyError": KeyError}


class World:
    def __init__(self, sc, ctx, model):
        self.ctx, self.model = ctx, model
        self.log = []
        self.comp = sc["complete"]
        self.completed_at_seq = None

    def on_execute(self, s):
        t = self.model.systems.timestep
        self.log.append((t, s.id))
        self.ctx.event("exec", s.id, t)
        if self.completed_at_seq is None and self.comp["by"] == s.id and t >= self.comp["t"]:
            self.ctx.fault("cancel.complete")
            g = self.comp.get("group")
            if g:
                self.run_group(g, t)
            else:
                self.model.complete()
            self.completed_at_seq = len(self.log)
            self.ctx.event("complete-inside", s.id, t)
            for req in self.comp.get("then_request") or ():
                self.ctx.probe("request_from_inside_the_completing_timestep")
                clock = self.model.systems.timestep
                if req == "throw":
                    self.ctx.expect_raises("throw_error-inside-step", ModelCompleteError, self.model.systems.execute_systems,
                                           throw_error=True)
                elif req == "plain":
                    self.ctx.expect_ok("execute_systems-inside-step", self.model.systems.execute_systems)
                else:
                    self.ctx.expect_ok("execute-inside-step", self.model.execute)
                self.ctx.check(len(self.log) == self.completed_at_seq and self.model.systems.timestep == clock,
                               "ran-after-complete", f"t={t}: a request issued by the completing system itself moved the model: "
                                                     f"log {self.log[self.completed_at_seq:]}, clock {clock} -> {self.model.systems.timestep}")
            if self.comp.get("then_raise"):
                # the system completes the model and then fails (e.g. while writing its final report)
                self.ctx.probe("completer_raises_after_complete")
                raise EXC[self.comp["then_raise"]]("failure after complete()")


def _run_group(self, g, t):
    """The completing system steps a private SystemManager(model); member `completer` completes the model."""
    from ECAgent.Core import System, SystemManager
    world, glog = self, []
    nm, who = max(1, int(g["members"])), int(g["completer"]) % max(1, int(g["members"]))

    class Member(System):
        def execute(self_):
            glog.append(self_.id)
            if self_.id == f"g{who}":
                world.model.complete()

    sm2 = SystemManager(self.model)
    for j in range(nm):
        sm2.add_system(Member(f"g{j}", self.model, priority=-j))
    self.ctx.probe("completed_by_member_of_a_private_system_manager")
    st, v = self.ctx.call(sm2.execute_systems)
    if st != "ok":
        self.ctx.fail("group-step:unexpected-exception", f"{type(v).__name__}: {v}")
    self.ctx.check(glog == [f"g{j}" for j in range(who + 1)], "ran-after-complete",
                   f"t={t}: a private SystemManager of the same model ran {glog}; its member g{who} completed the model, so "
                   f"exactly g0..g{who} may have run")


World.run_group = _run_group


def execute(sc, ctx):
    ambient_warnings(sc, ctx)
    try:
        _execute(sc, ctx)
    finally:
        logging.disable(logging.NOTSET)
        logging.getLogger("MODEL").setLevel(logging.INFO)


def _execute(sc, ctx):
    how = sc.get("logging")
    if how == "custom_logger":           # a logger of the user's own: no level set, so it inherits WARNING from the root
        m = model_class(sc, ctx)(seed=20260927, logger=logging.getLogger("c06.user.logger"))
    else:
        m = model_class(sc, ctx)(seed=20260927)
    Rec_ = rec_class(sc, ctx)       # noqa: N806
    w = World(sc, ctx, m)
    ref = RefSched()
    sm = m.systems
    other = Model(seed=99)
    # (constructing a Model re-arms the shared 'MODEL' logger, so the ambient state is set after the last construction)
    if how == "level_warning":
        m.logger.setLevel(logging.WARNING)
    elif how == "level_debug":
        m.logger.setLevel(logging.DEBUG)
    elif how == "disable_info":
        logging.disable(logging.INFO)
    elif how == "disable_critical":
        logging.disable(logging.CRITICAL)
    if how:
        ctx.fault("ambient.logging")
        ctx.probe("logging_" + how)
    objs = {}
    for spec in sc["systems"]:
        spec = spec_defaults(spec)
        if ref.has(spec["id"]) or spec["freq"] < 1:
            continue
        # a "foreign" system was constructed for another, still running model but is registered here (a shared observer)
        objs[spec["id"]] = Rec_(spec, other if spec.get("foreign") else m, w)
        if spec.get("foreign"):
            ctx.probe("system_bound_to_another_model")
        ctx.expect_ok("setup-add", sm.add_system, objs[spec["id"]])
        ref.add(spec)
    done = False
    frozen_clock = None
    frozen_log = None
    shape = {}
    tail_kinds = []

    def observe(where):
        nonlocal frozen_clock
        if done:
            ctx.check(m.is_running() is False and bool(m) is False, "running-after-complete",
                      f"{where}: is_running()={m.is_running()} bool={bool(m)}")
            ctx.check(len(w.log) == frozen_log, "ran-after-complete",
                      f"{where}: systems executed after completion: {w.log[frozen_log:]}")
            ctx.check(sm.timestep == frozen_clock and m.timestep == frozen_clock, "clock-moved-after-complete",
                      f"{where}: timestep {sm.timestep}, was {frozen_clock} when completion returned")
            # a refused request leaves ALL model state untouched: the registered systems are the ones registered / removed by name
            ctx.check([s_.id for s_ in sm.execution_queue] == ref.ids() and sorted(map(str, sm.systems)) == sorted(ref.ids()),
                      "registry-changed-after-complete",
                      lambda: f"{where}: queue {[s_.id for s_ in sm.execution_queue]} / registry {sorted(map(str, sm.systems))}, "
                              f"registered by the history: {ref.ids()}")
        else:
            ctx.check(m.is_running() is True and bool(m) is True, "not-running-before-complete", where)

    def advance(kind, n):
        nonlocal done, frozen_clock, frozen_log
        t0 = ref.t
        before = len(w.log)
        if kind == "bare" and sc.get("pre_strict"):
            ctx.probe("strict_request_on_a_running_model")
            st, v = ctx.call(sm.execute_systems, throw_error=True)
        else:
            st, v = ctx.call(sm.execute_systems) if kind == "bare" else ctx.call(m.execute, n)
        if kind == "bare":
            n = 1
        if st != "ok":
            # only the scripted failure of the completing system may escape, and only in the completing call
            ok = (w.completed_at_seq is not None and not done and w.comp.get("then_raise")
                  and isinstance(v, EXC[w.comp["then_raise"]]))
            ctx.check(ok, "advance:unexpected-exception", f"{type(v).__name__}: {v}")
        if done:
            return
        new = w.log[before:]
        if w.completed_at_seq is None:
            # ordinary steps: exactly the due systems, each once, per timestep
            want = sorted((t, sid) for t in range(t0, t0 + n) for sid in ref.due(t))
            ctx.check(sorted(new) == want, "firing-before-complete", f"{sorted(new)} != {want}")
            ref.t += n
            ctx.sim_time += n
            ctx.check(sm.timestep == ref.t, "clock", f"{sm.timestep} != {ref.t}")
            return
        # the completing call
        done = True
        tc = w.log[w.completed_at_seq - 1][0]
        by = w.comp["by"]
        after = w.log[w.completed_at_seq:]
        ctx.check(not after, "ran-after-complete", f"executed after the completing system in t={tc}: {after}")
        for t in range(t0, tc):
            got = sorted(e for e in new if e[0] == t)
            ctx.check(got == sorted((t, sid) for sid in ref.due(t)), "firing-before-complete", f"t={t}: {got}")
        in_step = [sid for t, sid in new if t == tc]
        due = ref.due(tc)
        ctx.check(len(set(in_step)) == len(in_step) and set(in_step) <= set(due), "completing-step",
                  f"t={tc}: {in_step} not a duplicate-free subset of due {due}")
        ctx.check(in_step[-1] == by, "completing-step", f"{by} is not the last execution of t={tc}: {in_step}")
        pos = due.index(by)
        behind = len(due) - pos - 1
        if behind:
            ctx.probe("due_system_skipped")
        ctx.probe("completer_first" if pos == 0 else ("completer_last" if behind == 0 else "completer_middle"))
        if tc == 0:
            ctx.probe("complete_at_t0")
        if kind == "adv" and tc < t0 + n - 1:
            ctx.probe("multi_step_spans_completion")
        shape.update(n=len(ref.q), pos=pos, behind=behind, span=bool(kind == "adv" and tc < t0 + n - 1))
        ctx.sim_time += tc - t0 + 1
        ctx.check(sm.timestep in (tc, tc + 1), "clock-after-completing-call",
                  f"timestep {sm.timestep} after completing in t={tc}")
        frozen_clock = sm.timestep
        frozen_log = len(w.log)
        ref.t = frozen_clock

    for op in sc["pre"]:
        if done:
            break
        if w.comp["by"] is None and ref.t > w.comp["t"]:
            break
        advance(op["op"], max(1, min(int(op.get("n", 1)), 8)))
        observe("pre")
    if not done:
        # completion from outside between steps (also the fallback when the scripted completer never ran)
        ctx.fault("cancel.complete")
        ctx.expect_ok("complete", m.complete)
        ctx.event("complete-outside", ref.t)
        ctx.probe("complete_outside")
        done = True
        frozen_clock = sm.timestep
        frozen_log = len(w.log)
        shape.update(n=len(ref.q), pos=-1, behind=0, span=False)
        if ref.t == 0:
            ctx.probe("complete_at_t0")
    observe("after-complete")
    for op in sc["tail"]:
        kind = op["op"]
        tail_kinds.append(kind)
        if kind == "adv":
            ctx.expect_ok("execute-after-complete", m.execute, max(1, min(int(op["n"]), 8)))
        elif kind == "bare":
            ctx.expect_ok("execute_systems-after-complete", sm.execute_systems)
        elif kind == "bare_throw":
            via = op.get("via")
            if via == "map":
                # the request sits inside a function driven by map(): the documented error must come out of it as itself
                ctx.expect_raises("throw_error", ModelCompleteError, lambda: list(map(lambda _: sm.execute_systems(throw_error=True), [0])))
                ctx.probe("raising_request_inside_an_iterator")
            elif via == "generator":
                def driver():
                    yield sm.execute_systems(throw_error=True)
                ctx.expect_raises("throw_error", ModelCompleteError, lambda: next(driver()))
                ctx.probe("raising_request_inside_an_iterator")
            elif via in ("one", "numpy"):
                # the flag as it comes out of a computation: the int 1 (a count, a bool sum) or a numpy bool (arr.any())
                ctx.expect_raises("throw_error", ModelCompleteError, sm.execute_systems, throw_error=1 if via == "one" else numpy.bool_(True))
                ctx.probe("strictness_flag_truthy_but_not_the_True_singleton")
            else:
                ctx.expect_raises("throw_error", ModelCompleteError, sm.execute_systems, throw_error=True)
            ctx.probe("throw_error_raised")
        elif kind == "add":
            spec = spec_defaults(op["sys"])
            if ref.has(spec["id"]) or spec["id"] in objs:
                continue
            objs[spec["id"]] = Rec_(spec, m, w)
            ctx.expect_ok("add-after-complete", sm.add_system, objs[spec["id"]])
            ref.add(spec)
            ctx.probe("add_after_complete")
        elif kind == "remove":
            ids = sorted(objs)
            if not ids:
                continue
            sid = ids[op["k"] % len(ids)]
            if ref.has(sid):
                ctx.expect_ok("remove-after-complete", sm.remove_system, sid)
                ref.remove(sid)
                ctx.probe("remove_after_complete")
            else:
                ctx.fault("reject.unknown_system")
                ctx.expect_raises("remove-unknown", SystemNotFoundError, sm.remove_system, sid)
        elif kind == "add_dup":
            ids = ref.ids()
            if not ids:
                continue
            ctx.fault("reject.dup_system")
            ctx.expect_raises("add-duplicate", KeyError, sm.add_system,
                              Rec({"id": ids[op["k"] % len(ids)], "prio": 3}, m, w))
        elif kind == "remove_ghost":
            ctx.fault("reject.unknown_system")
            ctx.expect_raises("remove-unknown", SystemNotFoundError, sm.remove_system, "ghost")
        elif kind == "bad":
            ctx.fault("reject.bad_n")
            ctx.call(m.execute, BAD.get(op["v"], 0))   # may raise or return; state must not move
        elif kind == "complete":
            ctx.expect_ok("complete-again", m.complete)
        ctx.event("tail", kind)
        observe(f"tail:{kind}")
        for sid, o in objs.items():
            ctx.check((sm[sid] is o) == ref.has(sid), "registry-after-complete", sid)
        ctx.state([len(ref.q), kind])
    ctx.nontrivial = len(sc["tail"]) >= 3 and (shape.get("pos") == -1 or (shape.get("pos", 0) > 0 and shape.get("behind", 0) > 0))
    ctx.sig = [shape, tail_kinds]
