"""C20 - class components and default tags belong to exactly one agent class.

Simulated dimension: seeded histories over process-global class state (the per-class stores live on
Agent and its subclasses for the life of the process) with rejected attach / detach injected; each
history runs in a forked child of a pristine parent so that histories are independent and Agent /
Environment themselves can take part."""
from ECAgent.Core import Agent, Component, ComponentNotFoundError, Environment, Model
from ECAgent.Environments import SpaceWorld

PROPERTY = "C20"
QUICK_RUNS = 16000
CHUNK = 200
ISOLATE = True
RULE = ("a hierarchy of 3-8 classes created with type(name, (Base,), {}) under Agent, Environment and (some runs) "
        "SpaceWorld: chains of depth <=3 and siblings; 3 component types; 5-50 ops from attach / detach class component, "
        "rejected duplicate attach (ValueError), rejected detach of an absent one (ComponentNotFoundError), set default "
        "tag, instantiate with / without explicit tag, attach an instance component, observe - on any class including "
        "Agent and Environment themselves; non-trivial = hierarchy depth >=2 with a sibling and >=1 default-tag change "
        "on a subclass followed by instantiation of that subclass, its parent and its child; distinct = sequence of "
        "(class position in the hierarchy, op, outcome)"
        "; also: classes made by one class statement executed repeatedly (same module and qualified name), models built in mid-history (their default environment is created with Environment's default tag of that moment), classes created in mid-history (fresh / shared namespace dict / cloned from another class's __dict__), class-level operations issued from __init_subclass__ while a class is being created, model lifecycle ops, rare stress runs with hundreds of classes, one of the three component types is falsy (__len__ == 0)")
COMPONENTS = {"real": ["ECAgent.Core._MetaAgent (per-class _components / _tag, add/remove/get/has_class_component, "
                       "__getitem__/__len__/__contains__, tag property)", "Agent.__init__ (default tag)", "Environment / "
                       "SpaceWorld constructors"],
              "stub": ["agent classes are created by the harness with type(); component classes are harness-defined"]}
PROBES = ["no_tag_spelled_as_none", "explicit_negative_tag", "explicit_tag_zero_with_nonzero_default", "tag_set_on_Agent_itself", "class_component_on_environment_class",
          "reject_duplicate_attach", "reject_detach_absent", "instance_component_attached", "subclass_instantiated_after_tag",
          "parent_instantiated_after_child_tag", "child_instantiated_after_parent_tag", "depth_3_chain", "sibling_isolation_checked", "class_created_mid_history", "class_cloned_from_namespace",
          "shared_namespace_dict", "model_lifecycle_op", "many_classes", "class_level_op_inside_creation_hook", "model_built_mid_history", "classes_sharing_module_and_qualname", "diamond_of_environment_and_agent_class", "default_tag_set_inside_the_constructor",
          "one_component_object_attached_to_two_classes"]
TECHNIQUE = "deterministic simulation: seeded class-level attach/detach/tag histories over generated hierarchies, pristine forked process per history, per-class reference"
LEVEL_TEXT = ("Seeded search over class hierarchies and class-level histories; after every operation, for every class in the "
              "hierarchy including Agent and Environment, class components, length, membership and default tag must equal a "
              "per-class reference (parents, children and siblings unaffected), instances must receive the current default tag "
              "of their own class unless one is given, and instance and class component stores must stay disjoint. Sampling, "
              "not proof; <=8 classes, <=50 ops.")
LEVEL_NOTE = "Trusted: the per-class reference; every history starts from a pristine process image (fork), so the global stores of Agent / Environment start empty."
SHRINK_LISTS = ["ops", "classes"]


class P0(__import__("props.common", fromlist=["x"]).ChaosMixin, Component):
    """A component class with special methods of its own (callable, iterable, ordered, falsy, odd repr ...)."""


class P1(P0):           # a subclass of P0: stores are keyed by the exact class (carrying P1 is not carrying P0)
    pass


class P2(Component, __import__("abc").ABC):
    """(its metaclass is abc.ABCMeta, not `type`.) A container-like component: falsy (it defines __len__ and holds nothing). Presence is never a matter of truthiness."""

    def __len__(self):
        return 0


PT = [P0, P1, P2]
PENDING = {}


def _creation_hook(cls, **kwargs):
    """__init_subclass__ of every harness-made class: class-level operations issued while `cls` is being created
    (a registering base class, a plugin pattern) must act on `cls` itself."""
    act = PENDING.pop("act", None)
    if act:
        if act.get("attach") is not None:
            comp = PT[act["attach"] % 3](cls, PENDING["model"])
            cls.add_class_component(comp)
            PENDING["made"] = comp
        if act.get("tag") is not None:
            cls.tag = act["tag"]
        PENDING["fired"] = True


def ns(d):
    d = dict(d) if d is not None else {}
    d["__init_subclass__"] = classmethod(_creation_hook)
    return d
BASES = {"Agent": Agent, "Environment": Environment, "SpaceWorld": SpaceWorld}


class Grazer(Agent):
    """A cooperative agent class whose constructor hands an explicit tag up the chain."""

    def __init__(self, id, model, tag=None):
        super().__init__(id, model, tag=5 if tag is None else tag)


class LazyTag(Agent):
    """An agent class that sets up its own default tag lazily, in its constructor, before handing over to Agent.__init__."""

    def __init__(self, id, model):
        type(self).tag = 4
        super().__init__(id, model)


def make_species(base):
    """A class factory: ONE class statement executed many times. Every call yields a distinct class; they all share module
    and qualified name ('make_species.<locals>.Species') - which says nothing about their class-level state."""
    class Species(base):
        pass
    return Species


def generate(rng, tier):
    classes = []      # {"name", "base": index into classes or root name}
    roots = ["Agent", "Agent", "Agent", "Environment"] + (["SpaceWorld"] if rng.random() < 0.3 else [])
    for i in range(rng.randint(3, 11 if tier == "thorough" else 8)):
        if classes and rng.random() < 0.6:
            cand = [j for j, c in enumerate(classes) if c["depth"] < 3]
            if cand:
                j = rng.choice(cand)
                classes.append({"name": f"K{i}", "base": j, "depth": classes[j]["depth"] + 1,
                                "ns": rng.choice(["fresh", "fresh", "shared"]),
                                "hook": {"attach": rng.choice([None, 0, 1, 2]), "tag": rng.choice([None, 3, 6])}
                                if rng.random() < 0.15 else None})
                continue
        classes.append({"name": f"K{i}", "base": rng.choice(roots), "depth": 1, "ns": rng.choice(["fresh", "fresh", "shared"])})
    n = len(classes) + 2      # + Agent, Environment themselves
    ops = []
    for _ in range(rng.randint(5, 70 if tier == "thorough" else 50)):
        c = rng.randrange(n) if rng.random() < 0.85 else rng.choice([n - 2, n - 1])
        r = rng.random()
        if r < 0.25:
            ops.append({"op": "attach", "c": c, "t": rng.randrange(3), "shared": rng.random() < 0.2})
        elif r < 0.4:
            ops.append({"op": "detach", "c": c, "t": rng.randrange(3)})
        elif r < 0.6:
            ops.append({"op": "tag", "c": c, "v": rng.choice([0, 1, 2, 5, 7])})
            if c < len(classes) and rng.random() < 0.6:
                # bias: instantiate the class itself, its parent and a child right after the default-tag change
                fam = [c]
                if isinstance(classes[c]["base"], int):
                    fam.append(classes[c]["base"])
                kids = [j for j, k in enumerate(classes) if k["base"] == c and isinstance(k["base"], int)]
                if kids:
                    fam.append(rng.choice(kids))
                rng.shuffle(fam)
                for f in fam:
                    ops.append({"op": "new", "c": f, "tag": rng.choice([None, None, 0]), "comp": None})
        elif r < 0.88:
            ops.append({"op": "new", "c": c, "tag": rng.choice([None, None, None, 0, 0, 3]), "comp": rng.choice([None, None, 0, 1, 2])})
        elif r < 0.93:
            ops.append({"op": "subclass", "c": c, "how": rng.choice(["fresh", "shared", "clone", "clone", "factory", "factory"]),
                        "hook": {"attach": rng.choice([None, 0, 1, 2]), "tag": rng.choice([None, 3, 6])}
                        if rng.random() < 0.3 else None})
        elif r < 0.95:
            ops.append({"op": "lifecycle", "c": c, "what": rng.choice(["complete", "step"])})
        else:
            ops.append({"op": "observe"})
    if rng.random() < 0.3:
        # models built in mid-history: the environment a Model() brings along is an Environment created without an explicit
        # tag at that moment - whenever it is first looked at
        for _ in range(rng.randint(1, 3)):
            at = rng.randint(0, len(ops))
            ops.insert(at, {"op": "new_model"})
            ops.insert(rng.randint(at + 1, len(ops)), {"op": "touch_models", "step": rng.random() < 0.3})
    if rng.random() < 0.25:
        # tags are plain ints: negative markers (DEAD = -1), large values and bools are given explicitly or set as defaults too
        for o_ in ops:
            if o_["op"] == "new" and o_.get("tag") is not None and rng.random() < 0.6:
                o_["tag"] = rng.choice([-1, -1, -7, -2 ** 70, 2 ** 70, True, False])
            elif o_["op"] == "tag" and rng.random() < 0.3:
                o_["v"] = rng.choice([-1, -3, 2 ** 70])
    for o_ in ops:
        if o_["op"] == "new" and o_.get("tag") is None and rng.random() < 0.2:
            o_["spell_none"] = rng.choice(["kw", "pos"])
    many = rng.choice([140, 180, 260]) if rng.random() < (0.04 if tier == "thorough" else 0.015) else 0
    return {"classes": classes, "ops": ops, "many": many, "diamond": rng.random() < 0.08, "lazy_tag": rng.random() < 0.08}


def execute(sc, ctx):
    m = Model(seed=20260927)
    hooked = []
    shared_ns = ns({"species": "generic"})      # ONE namespace dict reused by a class factory for several classes
    PENDING.clear()
    PENDING["model"] = m
    built = []       # (class object, parent index or None, kind)
    for i, c in enumerate(sc["classes"]):
        base = c["base"]
        if isinstance(base, int):
            if base >= len(built):
                base = "Agent"
            else:
                PENDING["act"] = c.get("hook")
                built.append((type(c["name"], (built[base][0],), shared_ns if c.get("ns") == "shared" else ns({})), base,
                              built[base][2]))
                hooked.append((len(built) - 1, PENDING.pop("fired", False), PENDING.pop("made", None), c.get("hook")))
                PENDING.pop("act", None)
                continue
        root = BASES.get(base, Agent)
        built.append((type(c["name"], (root,), shared_ns if c.get("ns") == "shared" else ns({})), None,
                      base if base in BASES else "Agent"))
    if any(c.get("ns") == "shared" for c in sc["classes"]):
        ctx.probe("shared_namespace_dict")
    crowd = []
    for j in range(min(int(sc.get("many") or 0), 400)):
        # many more agent classes, each with its own class component and default tag, all touched before the history starts
        k_ = type(f"Crowd{j}", (Agent,), {})
        comp_ = PT[j % 3](k_, m)
        k_.add_class_component(comp_)
        k_.tag = 1 + j % 5
        crowd.append((k_, comp_, 1 + j % 5))
    if crowd:
        ctx.probe("many_classes")
    idx_agent, idx_env = len(built), len(built) + 1
    built.append((Agent, None, "Agent"))
    built.append((Environment, None, "Environment"))
    # built-in relations: Environment derives from Agent; SpaceWorld from Environment (not in the list, but unaffected)
    comps = [dict() for _ in built]     # reference: type -> component
    tags = [0] * len(built)
    for idx, fired, made, act in hooked:
        if fired and act:
            if act.get("attach") is not None and made is not None:
                comps[idx][type(made)] = made
            if act.get("tag") is not None:
                tags[idx] = act["tag"]
            ctx.probe("class_level_op_inside_creation_hook")
    shape = []
    models = []        # [model, Environment's default tag when it was built, looked at yet?]
    counter = [0]

    def depth(i):
        d, p = 1, built[i][1]
        while p is not None:
            d, p = d + 1, built[p][1]
        return d

    def children(i):
        return [j for j in range(len(built)) if built[j][1] == i]

    if any(depth(i) >= 3 for i in range(len(built) - 2)):
        ctx.probe("depth_3_chain")
    tagged_sub = {}      # class index -> saw instantiation of {self, parent, child} after its tag change
    has_sibling = any(len(children(i)) >= 2 for i in range(len(built))) or sum(1 for b in built[:-2] if b[1] is None) >= 2

    def check_all(where):
        for i, (cls, _, _) in enumerate(built):
            ref = comps[i]
            ctx.check(len(cls) == len(ref), "class-component-count",
                      lambda: f"{where}: len({cls.__name__}) = {len(cls)} expected {len(ref)}")
            for T in PT:
                got = cls[T]
                ctx.check(got is ref.get(T), "class-component-visibility",
                          lambda: f"{where}: {cls.__name__}[{T.__name__}] is "
                                  f"{'set' if got is not None else None}, reference {'set' if T in ref else None} "
                                  f"(a class component leaked between classes or vanished)")
                ctx.check((T in cls) == (T in ref), "class-component-membership", f"{where}: {T.__name__} in {cls.__name__}")
                ctx.check(cls.has_class_component(T) == (T in ref), "class-component-membership", f"{where}: has_class_component")
                st, v = ctx.call(cls.get_class_component, T, True)
                if T in ref:
                    ctx.check(st == "ok" and v is ref[T], "class-component-strict", f"{where}: {cls.__name__}")
                else:
                    ctx.check(st == "exc" and isinstance(v, ComponentNotFoundError), "class-component-strict",
                              f"{where}: {cls.__name__}.get_class_component({T.__name__}, True) did not raise")
            ctx.check(cls.has_class_component(*list(ref)) is True, "class-component-membership", f"{where}: all-of")
            if ref:
                # a requirement list may name a type twice (two lists joined): that changes nothing
                twice = list(ref) + list(ref)[:1]
                ctx.check(cls.has_class_component(*twice) is True, "class-component-membership",
                          f"{where}: {cls.__name__}.has_class_component({', '.join(t.__name__ for t in twice)}) is not True "
                          f"although the class has {[t.__name__ for t in ref]}")
                missing = [T for T in PT if T not in ref]
                if missing:
                    ctx.check(cls.has_class_component(*twice, missing[0]) is False, "class-component-membership", f"{where}: all-of + absent")
            ctx.check(cls.tag == tags[i], "default-tag-visibility",
                      lambda: f"{where}: {cls.__name__}.tag = {cls.tag!r}, reference {tags[i]!r} (a default tag leaked between classes)")
        for k_, comp_, tag_ in crowd:
            ctx.check(len(k_) == 1 and k_[type(comp_)] is comp_ and k_.tag == tag_, "class-component-visibility",
                      lambda: f"{where}: {k_.__name__} lost its class component or default tag (many classes alive)")
        if has_sibling:
            ctx.probe("sibling_isolation_checked")

    check_all("start")
    for op in sc["ops"]:
        kind = op["op"]
        if kind == "observe":
            check_all("observe")
            continue
        if kind == "new_model":
            models.append([ctx.expect_ok("new-model", Model, seed=5), tags[idx_env], False])
            ctx.probe("model_built_mid_history")
            continue
        if kind == "touch_models":
            for rec_ in models:
                if rec_[2]:
                    continue
                rec_[2] = True
                if op.get("step"):
                    ctx.expect_ok("step-new-model", rec_[0].execute)
                got = rec_[0].environment.tag
                ctx.check(got == rec_[1], "model-environment-default-tag",
                          f"the environment of a Model() built while Environment's default tag was {rec_[1]!r} has tag {got!r} "
                          f"(Environment.tag is now {tags[idx_env]!r})")
            continue
        i = op["c"] % len(built)
        cls, parent, rootkind = built[i]
        pos = [depth(i), rootkind, len(children(i))]
        if kind == "lifecycle":
            # class-level state does not depend on the lifecycle of the model the components were built with
            ctx.expect_ok("lifecycle", m.complete if op["what"] == "complete" else m.execute)
            ctx.probe("model_lifecycle_op")
        elif kind == "attach":
            T = PT[op["t"] % 3]
            comp = T(cls, m)
            holders = [j for j in range(len(built)) if j != i and T in comps[j]]
            if op.get("shared") and holders:
                # the very component object another class holds is attached here as well: both classes have it from now on
                comp = comps[holders[0]][T]
                ctx.probe("one_component_object_attached_to_two_classes")
            if T in comps[i]:
                ctx.fault("reject.class_component")
                ctx.probe("reject_duplicate_attach")
                ctx.expect_raises("attach-duplicate", ValueError, cls.add_class_component, comp)
                shape.append([pos, "attach", "rej"])
            else:
                ctx.expect_ok("attach", cls.add_class_component, comp)
                comps[i][T] = comp
                if rootkind != "Agent" or i == idx_env:
                    ctx.probe("class_component_on_environment_class")
                shape.append([pos, "attach", "ok"])
            ctx.event("attach", i, T.__name__)
        elif kind == "detach":
            T = PT[op["t"] % 3]
            if T in comps[i]:
                ctx.expect_ok("detach", cls.remove_class_component, T)
                del comps[i][T]
                shape.append([pos, "detach", "ok"])
            else:
                ctx.fault("reject.class_component")
                ctx.probe("reject_detach_absent")
                ctx.expect_raises("detach-absent", ComponentNotFoundError, cls.remove_class_component, T)
                shape.append([pos, "detach", "rej"])
            ctx.event("detach", i, T.__name__)
        elif kind == "subclass":
            if len(built) >= 14:
                continue
            how = op.get("how", "fresh")
            fired, made = False, None
            if how == "clone" and i not in (idx_agent, idx_env):
                # a class rebuilt from another class's namespace (what slot-adding class decorators do): a new sibling
                # that must start with no class components and the default tag NONE
                clone_ns = dict(cls.__dict__)
                clone_ns.pop("__dict__", None)
                clone_ns.pop("__weakref__", None)
                sub = ctx.expect_ok("clone-class", type, f"L{len(built)}", cls.__bases__, clone_ns)
                built.append((sub, parent, rootkind))
                ctx.probe("class_cloned_from_namespace")
            else:
                PENDING["act"] = op.get("hook")
                if how == "factory":
                    sub = ctx.expect_ok("create-subclass", make_species, cls)
                    ctx.probe("classes_sharing_module_and_qualname")
                else:
                    sub = ctx.expect_ok("create-subclass", type, f"L{len(built)}", (cls,), shared_ns if how == "shared" else ns({}))
                built.append((sub, i, rootkind))
                fired, made = PENDING.pop("fired", False), PENDING.pop("made", None)
                PENDING.pop("act", None)
            comps.append({})
            tags.append(0)          # a new class starts with the default tag NONE and no class components
            if how != "clone" and op.get("hook") and fired:
                if op["hook"].get("attach") is not None and made is not None:
                    comps[-1][type(made)] = made
                if op["hook"].get("tag") is not None:
                    tags[-1] = op["hook"]["tag"]
                ctx.probe("class_level_op_inside_creation_hook")
            ctx.probe("class_created_mid_history")
            shape.append([pos, "subclass"])
            ctx.event("subclass", i)
        elif kind == "tag":
            v = int(op["v"])

            def set_tag():
                cls.tag = v
            ctx.expect_ok("set-default-tag", set_tag)
            tags[i] = v
            if i == idx_agent:
                ctx.probe("tag_set_on_Agent_itself")
            if i not in (idx_agent, idx_env):
                tagged_sub[i] = set()
            shape.append([pos, "tag"])
            ctx.event("tag", i, v)
        elif kind == "new":
            counter[0] += 1
            aid = f"x{counter[0]}"
            explicit = op.get("tag")
            kw = {} if explicit is None else {"tag": explicit}

            def make():
                if rootkind == "Agent":
                    if not kw and op.get("spell_none"):
                        # "no tag" spelled out - what a subclass constructor with its own tag=None parameter forwards
                        ctx.probe("no_tag_spelled_as_none")
                        return cls(aid, m, tag=None) if op["spell_none"] == "kw" else cls(aid, m, None)
                    return cls(aid, m, **kw)
                if kw:
                    return None      # environments take no tag argument
                if rootkind == "SpaceWorld":
                    return cls(m, 3.0, 2.0, id=aid)
                return cls(m, id=aid)
            inst = ctx.expect_ok("instantiate", make)
            if inst is None:
                continue
            want = tags[i] if explicit is None else explicit
            if explicit == 0 and tags[i] != 0:
                ctx.probe("explicit_tag_zero_with_nonzero_default")
            if explicit is not None and not isinstance(explicit, bool) and explicit < 0:
                ctx.probe("explicit_negative_tag")
            ctx.check(inst.tag == want, "instance-default-tag",
                      lambda: f"{cls.__name__}(...{'' if explicit is None else f', tag={explicit}'}).tag = {inst.tag!r}, "
                              f"expected {want!r} (current default tag of its own class is {tags[i]!r}; "
                              f"Agent.tag is {tags[idx_agent]!r})")
            ctx.check(len(inst.components) == 0, "class-component-on-instance",
                      f"a new {cls.__name__} instance already has components {list(inst.components)}")
            if op.get("comp") is not None:
                T = PT[op["comp"] % 3]
                ic = T(inst, m)
                ctx.expect_ok("instance-attach", inst.add_component, ic)
                ctx.probe("instance_component_attached")
                ctx.check(inst.components.get(T) is ic and len(inst.components) == 1, "instance-component", "")
            for j, marks in tagged_sub.items():
                if i == j:
                    marks.add("self")
                    ctx.probe("subclass_instantiated_after_tag")
                elif built[j][1] == i:
                    marks.add("parent")
                    ctx.probe("parent_instantiated_after_child_tag")
                elif parent == j:
                    marks.add("child")
                    ctx.probe("child_instantiated_after_parent_tag")
            shape.append([pos, "new", explicit is not None])
            ctx.event("new", i, explicit, inst.tag)
        check_all(f"after {kind} on {cls.__name__}")
        ctx.state([[len(c) for c in comps], tags, kind])
    deep = any(depth(i) >= 2 for i in range(len(built)) if i not in (idx_agent, idx_env))
    ctx.nontrivial = deep and has_sibling and any(m_ >= {"self", "parent", "child"} for m_ in tagged_sub.values())
    if sc.get("lazy_tag"):
        # the default tag that counts is the class's CURRENT one when the agent is initialised
        ctx.probe("default_tag_set_inside_the_constructor")
        first = ctx.expect_ok("instantiate-lazy", LazyTag, "lazy-1", m)
        ctx.check(first.tag == 4 and LazyTag.tag == 4, "instance-default-tag",
                  f"LazyTag sets its class default to 4 before Agent.__init__ runs; the instance has tag {first.tag!r}")
        ctx.check(Agent.tag == tags[idx_agent], "default-tag-visibility", f"LazyTag.tag = 4 leaked into Agent.tag = {Agent.tag!r}")
    if sc.get("diamond"):
        # environments are agents too, also in a diamond: class Pasture(Environment, Grazer) - Environment's constructor must
        # pass control on along the MRO, so that Grazer's explicit tag reaches Agent and wins over Pasture's default tag
        ctx.probe("diamond_of_environment_and_agent_class")
        pasture = ctx.expect_ok("create-diamond", type, "Pasture", (Environment, Grazer), {})

        def retag():
            pasture.tag = 9
        ctx.expect_ok("set-default-tag", retag)
        inst = ctx.expect_ok("instantiate-diamond", pasture, m, "pasture-1")
        ctx.check(inst.tag == 5, "instance-default-tag",
                  f"Pasture(Environment, Grazer): Grazer's constructor passes tag=5 explicitly, the instance has tag {inst.tag!r} "
                  f"(Pasture's default is 9)")
        ctx.check(Grazer.tag == 0 and Environment.tag == tags[idx_env], "default-tag-visibility",
                  f"Pasture.tag = 9 leaked: Grazer.tag={Grazer.tag!r} Environment.tag={Environment.tag!r}")
    ctx.sig = shape
