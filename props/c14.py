"""C14 - a parameter list builds the exact Cartesian product, once each.

Simulated dimension: a seeded declare / remove / build history with rejected declarations (non-string
or duplicate name, removal of an unknown name) and caller-side mutation of returned dictionaries as
the injected disturbances. The product itself is a pure function; what the history adds is
repeatability, independence and failure atomicity."""
import copy

import numpy as np

import ECAgent.Batching as B

PROPERTY = "C14"
QUICK_RUNS = 12000
CHUNK = 250
RULE = ("0-5 parameters, values in {int, float, None, str (incl. multi-character and empty), list, tuple, range, 1-D "
        "ndarray} of length 0, 1 or more with repeats, declared through the constructor dict and/or add_parameter; ops "
        "add / remove / build / build twice / mutate a returned dict / rejected non-str name (AttributeError), duplicate "
        "(KeyError), remove unknown (KeyError); non-trivial = >=2 multi-valued parameters live at a build and >=1 remove "
        "or rejected op before it; distinct = (declared lengths and kinds at each build, op kinds)"
        "; also: equal-valued values of different type / sign (1, 1.0, True, 0.0, -0.0), str-subclass strings, agent classes / objects as single values, the constructor dict checked for aliasing, collections whose elements are unhashable (lists, dicts, rows of a 2-D array), one collection object declared under two names, 9-13 parameters of which 2-4 are collections")
COMPONENTS = {"real": ["ECAgent.Batching.ParameterList.__init__ / add_parameter / remove_parameter / build"],
              "stub": ["none - the reference is an independent nested-loop product"]}
PROBES = ["product_of_more_than_2048_combinations", "array_of_text_labels", "collection_of_a_list_or_tuple_subclass", "empty_collection", "no_parameters", "repeated_values", "string_value", "rebuild_after_mutation", "ndarray_value",
          "range_value", "constructor_dict", "reject_nonstr", "reject_duplicate", "reject_unknown", "constructor_rejected",
          "single_value_is_agent_class_or_object", "string_value_of_a_str_subclass", "values_with_unhashable_elements", "one_object_declared_under_two_names", "nine_or_more_parameters"]
TECHNIQUE = "deterministic simulation: seeded declare/remove/build histories with injected rejected declarations and caller-side mutation vs an independent nested-loop product"
LEVEL_TEXT = ("Seeded search over declaration histories; every build must equal an independent nested-loop product (first-declared "
              "parameter slowest), be repeatable, return fresh dictionaries and leave declaration and caller's value objects "
              "untouched; rejected declarations must raise the documented class without effect. Sampling, not proof; product "
              "size <=300.")
LEVEL_NOTE = ("Trusted: the nested-loop reference; only rebinding / deleting / adding keys of returned dictionaries is injected "
              "(deep independence of shared value objects is not claimed by the statement); dicts, sets, bytes, generators and "
              "0-d arrays are outside the statement's 'scalar, string or re-iterable collection'.")
SHRINK_LISTS = ["ops", "init"]


def gen_val(rng):
    r = rng.random()
    n = rng.choice([0, 1, 1, 2, 2, 3, 4])
    if r < 0.03:
        return {"k": "agentclass", "v": rng.choice(["Agent", "Wolf", "agent_instance", "taglib", "constgen", "model", "sysman", "component"])}
    if r < 0.12:
        return {"k": "int", "v": rng.randint(-5, 50)}
    if r < 0.18:
        return {"k": "float", "v": rng.choice([0.5, -1.25, 3.0])}
    if r < 0.22:
        return {"k": "none"}
    if r < 0.30:
        return {"k": "str", "v": rng.choice(["xyz", "a", "", "hello world"])}
    if r < 0.34:
        return {"k": "strsub", "v": rng.choice(["moore", "ab", ""]), "how": rng.choice(["subclass", "numpy"])}
    elems = [rng.choice([0, 1, 2, 3, 1, "s", "tt", None, 2.5, 1.0, True, 0.0, False, "-0.0", 2.0]) for _ in range(n)]
    if rng.random() < 0.12:     # values that are themselves containers (start positions, rule sets): unhashable elements
        elems = [rng.choice([[0, 0], [5, 5], [0, 0], {"rule": 1}, [], {"a": [1, 2]}, [[1], [2]]]) for _ in range(max(n, 1))]
    if r >= 0.87 and rng.random() < 0.3:
        return {"k": "ndarray2d", "v": [[rng.randint(0, 4) for _ in range(2)] for _ in range(n)]}
    if r < 0.6:
        return {"k": "listsub" if rng.random() < 0.1 else "list", "v": elems}
    if r < 0.75:
        return {"k": "ntuple" if rng.random() < 0.25 else "tuple", "v": elems}
    if r < 0.87:
        return {"k": "range", "v": n}
    if rng.random() < 0.3:
        # an array of labels (numpy text / bytes dtype): a collection of its elements like any other array
        return {"k": "ndarray_text", "v": [rng.choice(["greedy", "random", "a", "", "bb"]) for _ in range(n)], "bytes": rng.random() < 0.3}
    return {"k": "ndarray", "v": [rng.randint(0, 4) for _ in range(n)]}


class Levels(list):
    """A list type of the user's own: a collection of values like any list."""


_NT = {}


def _ntuple(vals):
    """A tuple with named fields (collections.namedtuple): a tuple like any other - a collection of its elements."""
    import collections
    n = len(vals)
    if n not in _NT:
        _NT[n] = collections.namedtuple(f"Levels{n}", [f"f{i}" for i in range(n)])
    return _NT[n](*vals)


class Label(str):
    """A string type of the user's own (like a str-valued Enum member)."""
    __slots__ = ()


class Wolf(__import__("ECAgent.Core", fromlist=["Agent"]).Agent):
    pass


_SINGLETONS = {}


def _single(name):
    from ECAgent.Core import Agent, Model
    if name not in _SINGLETONS:
        if name in ("taglib", "constgen", "model", "sysman", "component"):
            # objects of bundled classes handed to every model as they are (a tag library shared by the runs, a generator, a
            # template model): none of them is a collection of values
            from ECAgent.Core import Component
            from ECAgent.Environments import ConstantGenerator
            import ECAgent.Tags as _tags       # (`from ECAgent.Tags import X` fails on this package: the module's __getattr__
            lib = _tags.TagLibrary()           # answers the import machinery's probe for __path__ with TagNotFoundError)
            lib.add_tag("PREY")
            lib.add_tag("PREDATOR")
            tm = Model(seed=1)
            _SINGLETONS[name] = {"taglib": lib, "constgen": ConstantGenerator(3), "model": tm, "sysman": tm.systems,
                                 "component": Component(None, tm)}[name]
            return _SINGLETONS[name]
        _SINGLETONS[name] = {"Agent": Agent, "Wolf": Wolf}.get(name) or Agent("lone", Model(seed=1))
    return _SINGLETONS[name]


def _el(v):
    return -0.0 if v == "-0.0" else v


def decode(spec):
    k = spec["k"]
    if k in ("list", "tuple"):
        vals = [_el(v) for v in spec["v"]]
        return vals if k == "list" else tuple(vals)
    if k == "listsub":
        return Levels(_el(v) for v in spec["v"])
    if k == "ntuple":
        return _ntuple([_el(v) for v in spec["v"]])
    if k in ("int", "float", "str"):
        return spec["v"]
    if k == "none":
        return None
    if k == "agentclass":
        return _single(spec["v"])
    if k == "strsub":
        return np.str_(spec["v"]) if spec.get("how") == "numpy" else Label(spec["v"])
    if k == "list":
        return list(spec["v"])
    if k == "tuple":
        return tuple(spec["v"])
    if k == "range":
        return range(int(spec["v"]))
    if k == "ndarray":
        return np.array(spec["v"], dtype=np.int64)
    if k == "ndarray_text":
        return np.array(spec["v"], dtype="S8" if spec.get("bytes") else "U8")
    if k == "ndarray2d":
        return np.array(spec["v"], dtype=np.int64).reshape(len(spec["v"]), 2)
    raise ValueError(k)


def as_list(spec):
    k = spec["k"]
    if k in ("int", "float", "str"):
        return [spec["v"]]
    if k == "none":
        return [None]
    if k == "agentclass":
        return [_single(spec["v"])]
    if k == "strsub":
        return [np.str_(spec["v"]) if spec.get("how") == "numpy" else Label(spec["v"])]
    if k == "range":
        return list(range(int(spec["v"])))
    if k == "ndarray_text":
        return list(np.array(spec["v"], dtype="S8" if spec.get("bytes") else "U8"))
    if k == "ndarray":
        return list(np.array(spec["v"], dtype=np.int64))      # iterating the declared array yields numpy scalars
    if k == "ndarray2d":
        return list(np.array(spec["v"], dtype=np.int64).reshape(len(spec["v"]), 2))     # ... or its rows
    return [_el(v) for v in spec["v"]]


def generate(rng, tier):
    names = [f"p{i}" for i in range(5)] + ["records", "score"]
    init = None
    if rng.random() < 0.12:
        # a model with many arguments of which only a few are swept: 9-13 parameters, most single values, 2-4 collections at
        # random positions (the order of the product is the declaration order whatever the positions are)
        wide = [f"q{i}" for i in range(rng.choice([rng.randint(9, 13), rng.randint(9, 13), rng.randint(9, 13), rng.randint(64, 70)]))]
        if rng.random() < 0.03:
            wide = [f"q{i}" for i in range(rng.randint(1100, 1600))]      # a configuration object flattened into keyword arguments
        multi = set(rng.sample(range(len(wide)), rng.randint(2, 4)))
        init = []
        for i, nm in enumerate(wide):
            if i in multi:
                init.append([nm, {"k": rng.choice(["list", "tuple"]), "v": [rng.randint(0, 9) for _ in range(rng.randint(2, 3))]}])
            else:
                init.append([nm, rng.choice([{"k": "int", "v": rng.randint(-5, 50)}, {"k": "str", "v": "xyz"}, {"k": "none"},
                                             {"k": "float", "v": 0.5}])])
        names = names + wide
    elif rng.random() < 0.6:
        init = [[rng.choice(names[:5]), gen_val(rng)] for _ in range(rng.randint(0, 3))]
        if rng.random() < 0.06:
            init.append([{"bad": rng.choice(["int", "none", "tuple"])}, gen_val(rng)])
    ops = []
    for _ in range(rng.randint(3, 30 if tier == "thorough" else 20)):
        r = rng.random()
        if r < 0.3:
            ops.append({"op": "add", "name": rng.choice(names), "v": gen_val(rng), "same_object_as_last": rng.random() < 0.12})
        elif r < 0.42:
            ops.append({"op": "remove", "name": rng.choice(names)})
        elif r < 0.72:
            ops.append({"op": "build", "mutate": rng.choice(["none", "none", "rebind", "delete", "clear", "addkey"]),
                        "again": rng.random() < 0.6})
        elif r < 0.82:
            ops.append({"op": "add_bad", "name": rng.choice(["int", "none", "tuple", "bytes"]), "v": gen_val(rng)})
        elif r < 0.92:
            ops.append({"op": "add", "name": rng.choice(names[:3]), "v": gen_val(rng)})
        else:
            ops.append({"op": "remove", "name": "ghost"})
    ops.append({"op": "build", "mutate": "none", "again": True})
    sc = {"init": init, "ops": ops}
    if rng.random() < 0.06 and (init is None or len(init) <= 3):
        # (drawn last) a real sweep: two long ranges, a few thousand combinations - built before the rest of the history and
        # withdrawn again, so the later (small) builds are not multiplied by it
        sc["ops"] = [{"op": "add", "name": "big0", "v": {"k": "range", "v": rng.randint(40, 70)}, "same_object_as_last": False},
                     {"op": "add", "name": "big1", "v": {"k": "range", "v": rng.randint(30, 60)}, "same_object_as_last": False},
                     {"op": "build", "mutate": "none", "again": rng.random() < 0.5},
                     {"op": "remove", "name": "big0"}, {"op": "remove", "name": "big1"}] + ops
    return sc


BAD = {"int": 32, "none": None, "tuple": ("a",), "bytes": b"p0"}


def product(decl):
    out = [{}]
    for name, vals in decl:
        out = [dict(d, **{name: v}) for d in out for v in vals]
    return out


def eq(a, b):
    """The combination holds the declared value itself: same type, same value, same sign of zero (1 / 1.0 / True differ)."""
    if a is None or b is None:
        return a is b
    if type(a) is not type(b):
        return False
    if isinstance(a, np.ndarray):
        return a.dtype == b.dtype and a.shape == b.shape and bool(np.array_equal(a, b))
    try:
        return bool(a == b) and repr(a) == repr(b)
    except Exception:
        return False


def execute(sc, ctx):
    decl = []          # reference: ordered [(name, spec)]
    inputs = []        # (value object given to the package, deep copy at hand-over)
    pl = None
    init = sc.get("init")
    if init is not None:
        raw = {}
        specs = {}
        badkey = False
        for name, spec in init:
            v = decode(spec)
            if isinstance(name, dict):
                raw[BAD[name["bad"]]] = v
                badkey = True
            else:
                raw[name] = v          # a repeated name keeps its first position and takes the last value (dict semantics)
                specs[name] = spec
            inputs.append((v, v if spec["k"] == "agentclass" else copy.deepcopy(v)))
        ctx.probe("constructor_dict")
        if badkey:
            ctx.fault("reject.param")
            ctx.probe("constructor_rejected")
            ctx.expect_raises("constructor-nonstr-key", AttributeError, B.ParameterList, raw)
            pl = ctx.expect_ok("constructor", B.ParameterList)
            decl = []
        else:
            pl = ctx.expect_ok("constructor", B.ParameterList, raw)
            decl = [(k, specs[k]) for k in raw]      # reference order = the dict's own insertion order
    else:
        pl = ctx.expect_ok("constructor", B.ParameterList)
    shape = []
    disturbed = False
    nontrivial = False
    raw_snapshot = None
    if init is not None:
        raw_snapshot = (raw, [(k, id(v)) for k, v in raw.items()])

    def check_build(where, mutate="none", again=False):
        nonlocal nontrivial
        want = product([(n, as_list(s)) for n, s in decl])
        if len(want) > 300000:
            return
        if len(want) > 2048:
            ctx.probe("product_of_more_than_2048_combinations")
        from simkit.core import Stuck, deadline
        try:
            with deadline(3.0 if any(s["k"] == "agentclass" for _, s in decl) else 30.0):
                got = ctx.expect_ok("build", pl.build)
        except Stuck:
            ctx.fail("build-does-not-terminate", f"{where}: build() still running after seconds; declared "
                                                 f"{[(n, s['k'], s.get('v')) for n, s in decl]}")
        ctx.check(isinstance(got, list), "build-type", type(got).__name__)
        size = 1
        for _, s in decl:
            size *= len(as_list(s))
        ctx.check(len(got) == size == len(want), "product-size", f"{where}: {len(got)} combinations, expected {size}")
        for i, (g, w) in enumerate(zip(got, want)):
            ctx.check(isinstance(g, dict) and sorted(g) == sorted(n for n, _ in decl), "combination-keys",
                      lambda: f"{where}: combination {i} has keys {list(g)} expected {[n for n, _ in decl]}")
            for k in w:
                ctx.check(eq(g[k], w[k]), "product-order-or-value",
                          lambda: f"{where}: combination {i}: {k}={g[k]!r}, nested-loop reference {w[k]!r}; "
                                  f"declared {[(n, as_list(s)) for n, s in decl]}")
        ctx.check(len({id(g) for g in got}) == len(got), "shared-dict", f"{where}: a dict object appears twice")
        lens = [len(as_list(s)) for _, s in decl]
        if not decl:
            ctx.probe("no_parameters")
        if len(decl) >= 9:
            ctx.probe("nine_or_more_parameters")
        if 0 in lens:
            ctx.probe("empty_collection")
        if any(len(as_list(s)) != len(set(map(repr, as_list(s)))) for _, s in decl):
            ctx.probe("repeated_values")
        for _, s in decl:
            if s["k"] == "str":
                ctx.probe("string_value")
            if s["k"] in ("ndarray", "ndarray2d", "ndarray_text"):
                ctx.probe("ndarray_value")
            if s["k"] == "ndarray_text":
                ctx.probe("array_of_text_labels")
            if s["k"] == "ndarray2d" or (s["k"] in ("list", "tuple") and any(isinstance(e, (list, dict)) for e in s["v"])):
                ctx.probe("values_with_unhashable_elements")
            if s["k"] == "range":
                ctx.probe("range_value")
            if s["k"] in ("ntuple", "listsub"):
                ctx.probe("collection_of_a_list_or_tuple_subclass")
            if s["k"] == "agentclass":
                ctx.probe("single_value_is_agent_class_or_object")
            if s["k"] == "strsub":
                ctx.probe("string_value_of_a_str_subclass")
        if sum(1 for n_ in lens if n_ >= 2) >= 2 and disturbed:
            nontrivial = True
        shape.append(["build", lens, [s["k"] for _, s in decl]])
        if mutate != "none" and got:
            ctx.fault("alias.mutate_result")
            for g in got[:: max(1, len(got) // 3)]:
                if mutate == "rebind":
                    for k in list(g):
                        g[k] = "overwritten"
                elif mutate == "delete" and g:
                    del g[next(iter(g))]
                elif mutate == "clear":
                    g.clear()
                elif mutate == "addkey":
                    g["records"] = [1, 2, 3]
            if mutate == "clear":
                got.clear()
        if again or mutate != "none":
            second = ctx.expect_ok("build", pl.build)
            if mutate != "none":
                ctx.probe("rebuild_after_mutation")
            ctx.check(len(second) == len(want) and all(sorted(g) == sorted(w) and all(eq(g[k], w[k]) for k in w)
                                                       for g, w in zip(second, want)),
                      "build-not-repeatable", f"{where}: a second build differs (after mutate={mutate})")
            ctx.check(not ({id(g) for g in second} & {id(g) for g in got}), "dicts-shared-between-builds", where)
        # the dict handed to the constructor stays the caller's: declaring / removing parameters on the list never edits it
        if raw_snapshot is not None:
            ctx.check([(k, id(v)) for k, v in raw_snapshot[0].items()] == raw_snapshot[1], "constructor-dict-modified",
                      lambda: f"{where}: the dict passed to ParameterList(...) now has keys {list(raw_snapshot[0])}")
        # the caller's value objects are never modified
        for obj, snap in inputs:
            same = (np.array_equal(obj, snap) if isinstance(obj, np.ndarray) else obj == snap)
            ctx.check(same, "caller-value-modified", f"{where}: {snap!r} became {obj!r}")

    last_value = None
    for op in sc["ops"]:
        kind = op["op"]
        if kind == "add":
            name, spec = op["name"], op["v"]
            v = decode(spec)
            if op.get("same_object_as_last") and last_value is not None:
                # the VERY SAME object declared under a second name (sizes = [10, 20, 30]; width=sizes, height=sizes)
                spec, v = last_value
                ctx.probe("one_object_declared_under_two_names")
            if any(n == name for n, _ in decl):
                ctx.fault("reject.param")
                ctx.probe("reject_duplicate")
                ctx.expect_raises("add-duplicate", KeyError, pl.add_parameter, name, v)
                disturbed = True
                shape.append(["dup"])
            else:
                ctx.expect_ok("add", pl.add_parameter, name, v)
                last_value = (spec, v)
                decl.append((name, spec))
                inputs.append((v, v if spec["k"] == "agentclass" else copy.deepcopy(v)))
                shape.append(["add", spec["k"]])
            ctx.event("add", name, spec["k"])
        elif kind == "add_bad":
            ctx.fault("reject.param")
            ctx.probe("reject_nonstr")
            ctx.expect_raises("add-nonstr-name", AttributeError, pl.add_parameter, BAD[op["name"]], decode(op["v"]))
            disturbed = True
            shape.append(["bad"])
            ctx.event("add_bad", op["name"])
        elif kind == "remove":
            name = op["name"]
            if any(n == name for n, _ in decl):
                ctx.expect_ok("remove", pl.remove_parameter, name)
                decl = [(n, s) for n, s in decl if n != name]
                shape.append(["rm"])
            else:
                ctx.fault("reject.param")
                ctx.probe("reject_unknown")
                ctx.expect_raises("remove-unknown", KeyError, pl.remove_parameter, name)
                shape.append(["rmx"])
            disturbed = True
            ctx.event("remove", name)
        elif kind == "build":
            check_build("build", op.get("mutate", "none"), op.get("again", False))
            ctx.event("build", len(decl))
            continue
        # a rejected (or accepted) declaration op: the next build must reflect exactly the reference
        check_build(f"after-{kind}")
        ctx.state([[len(as_list(s)) for _, s in decl], kind])
    ctx.nontrivial = nontrivial
    ctx.sig = shape
