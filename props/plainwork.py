"""Workload for the start-method arm of C15 / C16: a model, a collector and a score function that are pure functions of the
model's parameters (no harness state), so that worker processes which do NOT inherit the parent's memory (multiprocessing's
`spawn` and `forkserver` start methods - the only one on Windows, the default on macOS and, from 3.14, on Linux) can run them."""
from ECAgent.Core import Model, System
from ECAgent.Collectors import Collector


def stop_at(a, b):
    return 2 + (a + 2 * b) % 3


class PlainStopper(System):
    def __init__(self, model):
        super().__init__("stopper", model, priority=10)

    def execute(self):
        if self.model.systems.timestep >= stop_at(self.model.a, self.model.b):
            self.model.complete()


class PlainCollector(Collector):
    def collect(self):
        self.records.append((self.model.a, self.model.b, self.model.systems.timestep))


class PlainModel(Model):
    def __init__(self, a=0, b=0):
        super().__init__(seed=1)
        self.a, self.b = a, b
        self.systems.add_system(PlainStopper(self))
        self.systems.add_system(PlainCollector("rec", self, priority=-1))


def plain_score(model):
    return model.a * 7 - model.b * model.b + model.systems.timestep


def expected_records(a, b, max_ts):
    return [(a, b, t) for t in range(min(stop_at(a, b), max_ts))]


def expected_score(a, b, max_ts):
    # the completing timestep itself still advances the clock: a model that completes itself at t = stop_at ends at stop_at + 1
    return a * 7 - b * b + min(stop_at(a, b) + 1, max_ts)
