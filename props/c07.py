"""C07 - same seed, same trajectory, independent of global state and of other models.

Simulated dimension: a determinism audit of the framework itself. The simulator owns every ambient
source (global random, numpy.random, hash seed, process, other live models) and perturbs them on a
seeded schedule - between timesteps and, through perturbation systems, inside them - while a scripted
stochastic model runs. One digest must come out."""
import json
import os
import random
import subprocess
import sys

import numpy

from . import chaos

PROPERTY = "C07"
QUICK_RUNS = 6000
CHUNK = 100
ISOLATE = True
RULE = ("ChaosModel(seed, cfg): plain / grid / line / continuous (wrapping or not) world, 3-12 agents, system mix of "
        "{wealth transfer via get_random_agent with template/tag, order-dependent shuffle update, model.random moves, "
        "births/deaths, filtered picks}, AgentCollector, horizon 5-30; perturbation schedule of reseed / consume / "
        "numpy seed / numpy draws / new model (same or other seed) / stepping 1-3 other live models, between and "
        "inside timesteps; non-trivial = >=1 pick and >=1 shuffle over >=3 agents and >=1 perturbation fired between "
        "two draws; distinct = (world, system mix, perturbation kinds and placement); cross-environment arm: fresh "
        "interpreters under other PYTHONHASHSEEDs and real batch_run workers"
        "; also: str / bytes / float label seeds, environments handed from a builder model to the run model (Environment.set_model), a grid-walk system that reorders the neighbour lists it gets from the world in place, another model failing inside one of its timesteps, driver-level draws between timesteps; secondary arms: a model built here and finished in a forked child; a Core-only model in fresh interpreters with and without numpy / ECAgent.Environments imported beforehand")
COMPONENTS = {"real": ["ECAgent.Core.Model.random", "Environment.get_random_agent / shuffle / get_agents",
                       "SpaceWorld / GridWorld / LineWorld add_agent, move, remove_agent", "AgentCollector",
                       "ECAgent.Batching.batch_run with the real multiprocessing.Pool (cross-environment arm)"],
              "stub": ["the stochastic model and its systems are harness workloads (props/chaos.py); global random / "
                       "numpy.random are perturbed, not replaced"]}
PROBES = ["generator_seeded_after_construction", "search_driver", "search_driver_variance_mode", "perturb_inside_timestep", "perturb_between_timesteps", "other_model_same_seed_interleaved",
          "filtered_pick_2plus_candidates", "reseed", "consume", "np_seed", "np_rand", "new_model", "step_other",
          "string_seed", "spatial_world", "environment_handed_to_another_model", "crash_other"]
TECHNIQUE = "deterministic simulation: seeded perturbation schedule over every ambient randomness source (global RNGs, other models, hash seed, worker process) with a single-digest oracle"
LEVEL_TEXT = ("Seeded search over model configurations, seeds and ambient perturbation schedules; the full trace digest of the "
              "perturbed run must equal that of an undisturbed run of the same (seed, cfg), and so must every other live model "
              "with the same (seed, cfg); a cross-environment arm repeats configurations in fresh interpreters under other "
              "hash seeds and in real batch_run workers. Sampling, not proof; horizon <=30, <=12 agents, <=4 live models.")
LEVEL_NOTE = ("Trusted: the workload draws randomness only through the framework; seed=None (OS entropy) is not generated; "
              "process / hash-seed arms are real (not simulated) and their expected outcome is a deterministic digest.")
SHRINK_LISTS = ["perturb", "others", "pre"]
OPS = ["reseed", "consume", "np_seed", "np_rand", "new_model", "step_other", "shuffle_global", "crash_other"]


def gen_seed(rng):
    r = rng.random()
    if r < 0.6:
        return rng.randint(0, 10 ** 6)
    if r < 0.75:
        return rng.choice([0, 1, -1, 2 ** 63, -2 ** 40, 2 ** 130 + 7])
    if r < 0.9:
        return rng.randint(-2 ** 31, 2 ** 31)
    return rng.choice(["seed", "", "another seed", "experiment-A", {"bytes": "7265706c69636174652d37"}, 2.5, -0.0])


def real_seed(seed):
    """Scenario encoding -> the object handed to Model(seed=...); bytes travel as {"bytes": hex}."""
    if isinstance(seed, dict):
        return bytes.fromhex(seed["bytes"])
    return seed


def gen_op(rng):
    op = rng.choice(OPS)
    return {"op": op, "arg": rng.randint(0, 50)}


def generate(rng, tier):
    cfg = chaos.gen_cfg(rng, tier)
    seed = gen_seed(rng)
    others = []
    for _ in range(rng.choice([0, 1, 1, 2, 3])):
        same = rng.random() < 0.5
        others.append({"seed": seed if same else gen_seed(rng), "same_cfg": same or rng.random() < 0.5})
    alt = chaos.gen_cfg(rng, tier)
    perturb = []
    for _ in range(rng.randint(1, 10)):
        p = gen_op(rng)
        p["t"] = rng.randint(0, cfg["horizon"] - 1)
        p["where"] = "between" if rng.random() < 0.5 or not cfg["ambient"] else rng.randrange(len(cfg["ambient"]))
        perturb.append(p)
    pre = [gen_op(rng) for _ in range(rng.randint(0, 3))]
    handover = None
    if rng.random() < 0.3:
        # an environment populated under a builder model and then handed to the run model (Environment.set_model)
        handover = {"builder_seed": gen_seed(rng), "other_builder_seed": gen_seed(rng), "pre_queries": rng.randint(0, 6),
                    "world": rng.choice(["plain", "grid", "space"]), "agents": rng.randint(2, 9), "queries": rng.randint(2, 8)}
    sc = {"seed": seed, "cfg": cfg, "alt_cfg": alt, "others": others, "perturb": perturb, "pre": pre, "handover": handover}
    sc["seeding"] = rng.choice(["ctor"] * 5 + ["late_seed", "replace"])
    if rng.random() < 0.2:
        # the same (seed, cfg) built and stepped by the package's own parameter search, scored on the trajectory
        sc["search"] = {"mode": rng.randrange(8), "reps": rng.randint(2, 3), "second_seed": rng.random() < 0.5}
    return sc


def handover_trace(seed_t, seed_b, pre, h):
    """Random queries of an environment after it was handed from a builder model to the run model."""
    from ECAgent.Core import Agent, Environment, Model
    from ECAgent.Environments import GridWorld, SpaceWorld
    b = Model(seed=seed_b)
    if h["world"] == "grid":
        env = GridWorld(b, 4, 3)
    elif h["world"] == "space":
        env = SpaceWorld(b, 4.0, 3.0)
    else:
        env = Environment(b)
    b.set_environment(env)
    for i in range(int(h["agents"])):
        a = Agent(f"h{i}", b, tag=i % 3)
        if i % 4 != 3:
            a.add_component(chaos.Wealth(a, b, i))
        if h["world"] == "plain":
            env.add_agent(a)
        else:
            env.add_agent(a, i % 4, i % 3)
    for _ in range(int(pre)):                      # the builder's own use of the environment
        env.get_random_agent()
        env.shuffle(chaos.Wealth)
    t = Model(seed=seed_t)
    env.set_model(t)
    t.set_environment(env)
    out = []
    for q in range(int(h["queries"])):
        p = env.get_random_agent()
        out.append(["pick", p.id if p else None])
        out.append(["shuffle", [a.id for a in env.shuffle(chaos.Wealth)]])
        p2 = env.get_random_agent(chaos.Wealth, tag=q % 3)
        out.append(["fpick", p2.id if p2 else None])
    return out


def execute(sc, ctx):
    h = sc.get("handover")
    if h:
        ctx.fault("ambient.other_model_builder")
        ctx.probe("environment_handed_to_another_model")
        ref_t = handover_trace(real_seed(sc["seed"]), real_seed(h["other_builder_seed"]), 0, h)
        got_t = handover_trace(real_seed(sc["seed"]), real_seed(h["builder_seed"]), h["pre_queries"], h)
        ctx.event("handover", ref_t[:3])
        ctx.check(got_t == ref_t, "trajectory-depends-on-previous-model",
                  lambda: f"after Environment.set_model the picks of the new model (seed {sc['seed']!r}) depend on the builder "
                          f"model's seed / earlier draws: {got_t[:4]} vs {ref_t[:4]}")
    cfg = sc["cfg"]
    seed = real_seed(sc["seed"])
    key = json.dumps(cfg, sort_keys=True)
    altkey = json.dumps(sc["alt_cfg"], sort_keys=True)
    chaos.HOOK["fn"] = None
    ref_model = chaos.ChaosModel(seed, key)
    d_ref = ref_model.run_all()
    ref_trace = ref_model.trace
    picks = sum(1 for e in ref_trace if e[0] == "pick")
    shuffles = sum(1 for e in ref_trace if e[0] == "shuffle" and len(e[2]) >= 3)
    if any(e[0] == "fpick" and len(e[3]) >= 2 for e in ref_trace):
        ctx.probe("filtered_pick_2plus_candidates")
    if isinstance(seed, (str, bytes)):
        ctx.probe("string_seed")
    if cfg["world"] != "plain":
        ctx.probe("spatial_world")
    ctx.event("reference", d_ref, len(ref_trace))

    others = []
    fired = {"inside": 0, "between": 0, "kinds": []}

    def ambient(op):
        kind, arg = op["op"], int(op["arg"])
        ctx.fault("ambient." + kind)
        ctx.probe(kind) if kind in PROBES else None
        fired["kinds"].append(kind)
        if kind == "reseed":
            random.seed(arg)
        elif kind == "consume":
            for _ in range(arg % 17 + 1):
                random.random()
        elif kind == "np_seed":
            numpy.random.seed(arg)
        elif kind == "np_rand":
            numpy.random.rand(arg % 9 + 1)
        elif kind == "shuffle_global":
            random.shuffle(list(range(arg % 11 + 2)))
        elif kind == "new_model":
            same = arg % 2 == 0
            m2 = chaos.ChaosModel(seed if same else arg, key if arg % 3 else altkey)
            for _ in range(arg % 4):
                m2.execute()
        elif kind == "crash_other":
            # another model fails inside one of its timesteps; the caller catches the error and carries on
            cm = chaos.ChaosModel(arg, key if arg % 2 else altkey)
            cm.systems.add_system(chaos.Bomb("bomb", cm, priority=[9, 3, 0, -3][arg % 4]))
            try:
                cm.execute()
            except chaos.BombError:
                pass
        elif kind == "step_other":
            if others:
                o = others[arg % len(others)]
                if o["m"].is_running():
                    o["m"].execute()
                    o["m"].between()
                    if o["seed"] == seed and o["key"] == key:
                        ctx.probe("other_model_same_seed_interleaved")

    for op in sc["pre"]:
        ambient(op)
    target_cls = {"late_seed": chaos.LateSeedChaosModel, "replace": chaos.OwnGeneratorChaosModel}.get(sc.get("seeding"), chaos.ChaosModel)
    if target_cls is not chaos.ChaosModel:
        ctx.probe("generator_seeded_after_construction")
    target = target_cls(seed, key)
    for o in sc["others"]:
        k = key if o["same_cfg"] else altkey
        others.append({"m": chaos.ChaosModel(real_seed(o["seed"]), k), "seed": real_seed(o["seed"]), "key": k})
    inside = {}
    between = {}
    for p in sc["perturb"]:
        if p["where"] == "between":
            between.setdefault(int(p["t"]), []).append(p)
        else:
            inside.setdefault((f"amb{int(p['where'])}", int(p["t"])), []).append(p)

    def hook(model, sid, t):
        if model is not target:
            return
        for p in inside.get((sid, t), []):
            fired["inside"] += 1
            ctx.probe("perturb_inside_timestep")
            ambient(p)

    chaos.HOOK["fn"] = hook
    try:
        guard = 0
        while target.is_running() and guard < 200:
            t = target.systems.timestep
            for p in between.get(t, []):
                fired["between"] += 1
                ctx.probe("perturb_between_timesteps")
                ambient(p)
            ctx.steps += 1
            target.execute()
            target.between()
            ctx.sim_time += 1
            guard += 1
    finally:
        chaos.HOOK["fn"] = None
    d = target.digest()
    ctx.event("target", d)
    if d != d_ref:
        # first divergent trace entry, for the report
        i = 0
        while i < min(len(ref_trace), len(target.trace)) and ref_trace[i] == target.trace[i]:
            i += 1
        ctx.fail("trajectory-depends-on-ambient-state",
                 f"seed={seed!r}: digest {d} != undisturbed {d_ref}; first divergence at trace entry {i}: "
                 f"{target.trace[i] if i < len(target.trace) else None} vs {ref_trace[i] if i < len(ref_trace) else None}")
    for o in others:
        do = o["m"].run_all()
        alone = chaos.ChaosModel(o["seed"], o["key"]).run_all()
        ctx.event("other", do)
        ctx.check(do == alone, "other-model-not-reproducible",
                  f"a model (seed={o['seed']!r}) stepped in between differs from its undisturbed run")
        if o["seed"] == seed and o["key"] == key:
            ctx.check(do == d_ref, "same-seed-different-trajectory", "two live models with equal seed and cfg diverged")
    if sc.get("search"):
        search_arm(sc, ctx, seed, cfg)
    ctx.nontrivial = picks >= 1 and shuffles >= 1 and (fired["inside"] + fired["between"]) >= 1
    ctx.sig = [cfg["world"], sorted(cfg["systems"]), sorted(set(fired["kinds"])), fired["inside"] > 0, fired["between"] > 0,
               len(others)]
    ctx.state([cfg["world"], sorted(cfg["systems"]), sorted(set(fired["kinds"]))])


def _trajectory_score(model):
    return float(int(model.digest()[:12], 16))       # < 2**48: exact as a double


def search_arm(sc, ctx, seed, cfg):
    """grid_search as the driver: every repetition of every evaluated seed follows the hand-built model's trajectory."""
    import ECAgent.Batching as B
    g = sc["search"]
    key2 = json.dumps(dict(cfg, driver_draws=False), sort_keys=True)      # (grid_search is the driver here)
    seeds = [seed] + ([seed + 1] if g["second_seed"] and isinstance(seed, int) and not isinstance(seed, bool) else [])
    want = {repr(s_): _trajectory_score_of(s_, key2) for s_ in seeds}
    mode = B.ScoreMode(int(g["mode"]))
    ctx.fault("ambient.search_driver")
    ctx.probe("search_driver_variance_mode" if mode.name.endswith("VARIANCE") else "search_driver")
    st, val = ctx.call(B.grid_search, chaos.ChaosModel, {"seed": list(seeds), "cfg": key2}, _trajectory_score,
                       processes=1, repetitions=int(g["reps"]), mode=mode)
    if st != "ok":
        ctx.fail("search-driver-raised", f"grid_search over ChaosModel (mode {mode.name}) raised {val!r}")
    _, results = val
    for r_ in results:
        w_ = want.get(repr(r_.get("seed")))
        ctx.check(w_ is not None and list(r_.get("records", [])) == [w_] * int(g["reps"]), "trajectory-depends-on-driver",
                  lambda: f"grid_search mode={mode.name} seed={r_.get('seed')!r}: repetitions scored {r_.get('records')}, the "
                          f"model built by hand with that seed scores {w_}")
    ctx.event("search", mode.name, len(results))


def _trajectory_score_of(seed, key):
    m = chaos.ChaosModel(seed, key)
    m.run_all()
    return _trajectory_score(m)


# ------------------------------------------------------------------------------------------------------------------
# Cross-environment arm: fresh interpreters under other hash seeds, real batch_run workers (fork; spawn in thorough)

def _fresh(how, jobs, hashseed):
    env = dict(os.environ)
    env["PYTHONHASHSEED"] = str(hashseed)
    env["VERIF_REPO"] = os.environ.get("VERIF_REPO", "/repo")
    cp = subprocess.run([sys.executable, os.path.join(os.path.dirname(os.path.abspath(__file__)), "chaos_cli.py"), how],
                        input=json.dumps(jobs), capture_output=True, text=True, env=env, timeout=900)
    line = [ln for ln in cp.stdout.splitlines() if ln.startswith("DIGESTS ")]
    if cp.returncode != 0 or not line:
        from simkit.core import HarnessError
        raise HarnessError(f"chaos_cli {how} failed: {cp.stdout[-500:]} {cp.stderr[-1500:]}")
    return json.loads(line[0][8:])


def post_batch(tier, seed):
    import time
    from simkit.core import run_seed
    t0 = time.time()
    n = 20 if tier == "quick" else 60
    jobs = []
    for i in range(n):
        rng = random.Random(run_seed(seed, "C07-cross", i))
        jobs.append([gen_seed(rng), dict(chaos.gen_cfg(rng, tier), driver_draws=False)])     # (batch_run is the driver in these arms)
    # label seeds are legal (random.Random hashes str/bytes deterministically): always include a few
    for i, lab in enumerate(["experiment-A", {"bytes": "7265706c69636174652d37"}, "run #12"]):
        jobs[i][0] = lab
    chaos.HOOK["fn"] = None
    here = [chaos.ChaosModel(real_seed(s), json.dumps(c, sort_keys=True)).run_all() for s, c in jobs]
    hashseeds = [0, 1, 4242] if tier == "quick" else [0, 1, 2, 3, 5, 8, 13, 21, 34, 55, 89, 144, 233, 377, 610, 4242]
    for hs in hashseeds:
        got = _fresh("direct", jobs, hs)
        for j, (a, b) in enumerate(zip(here, got)):
            if a != b:
                return {"violation": {"kind": "trajectory-depends-on-hash-seed-or-process", "hashseed": hs,
                                      "seed": jobs[j][0], "cfg": jobs[j][1], "digest_here": a, "digest_fresh": b}}
    arms = [("batch-fork", jobs[:4 if tier == "quick" else 12])]
    if tier == "thorough":
        arms.append(("batch-spawn", jobs[:6]))
    for how, js in arms:
        got = _fresh(how, js, 99)
        for j, pair in enumerate(got):
            if any(d != here[j] for d in pair) or len(pair) < 2:
                return {"violation": {"kind": "trajectory-depends-on-worker-process", "arm": how, "seed": js[j][0],
                                      "cfg": js[j][1], "digest_here": here[j], "digests_workers": pair}}
    # a model built (and partly run) in this process and finished in ANOTHER one - a forked child - follows the same trajectory
    for j, (s, c) in enumerate(jobs[:6 if tier == "quick" else 30]):
        mdl = chaos.ChaosModel(real_seed(s), json.dumps(c, sort_keys=True))
        for _ in range(max(1, c["horizon"] // 3)):
            mdl.execute()
        r_, w_ = os.pipe()
        pid = os.fork()
        if pid == 0:
            try:
                os.close(r_)
                os.write(w_, mdl.run_all().encode())
            finally:
                os._exit(0)
        os.close(w_)
        got = os.read(r_, 100).decode()
        os.close(r_)
        os.waitpid(pid, 0)
        if got != here[j]:
            return {"violation": {"kind": "trajectory-depends-on-the-process-that-steps-the-model", "seed": s, "cfg": c,
                                  "digest_here": here[j], "digest_finished_in_forked_child": got}}
    # what the process has imported is ambient state too: a model that needs nothing but ECAgent.Core must run the same in an
    # interpreter that never loaded numpy and in one that did (the harness itself always has numpy loaded, hence real processes)
    cjobs = []
    for i in range(6 if tier == "quick" else 24):
        rng = random.Random(run_seed(seed, "C07-core", i))
        cjobs.append([rng.randint(0, 10 ** 9), rng.choice([5, 20, 33, 40, 64, 100]), rng.randint(3, 10)])
    modes = ["bare", "numpy-first", "environments-first", "grid-model-first"]
    core = {}
    for mode in modes:
        env = dict(os.environ, PYTHONHASHSEED="11", VERIF_REPO=os.environ.get("VERIF_REPO", "/repo"))
        cp = subprocess.run([sys.executable, os.path.join(os.path.dirname(os.path.abspath(__file__)), "chaos_core.py"), mode],
                            input=json.dumps(cjobs), capture_output=True, text=True, env=env, timeout=900)
        line = [ln for ln in cp.stdout.splitlines() if ln.startswith("DIGESTS ")]
        if cp.returncode != 0 or not line:
            from simkit.core import HarnessError
            raise HarnessError(f"chaos_core {mode} failed: {cp.stdout[-500:]} {cp.stderr[-1500:]}")
        core[mode] = json.loads(line[0][8:])
        bare_ok = "NOT-BARE" not in cp.stdout if mode == "bare" else None
        if mode == "bare":
            bare = bare_ok
    for mode in modes[1:]:
        for j, (a, b) in enumerate(zip(core["bare"], core[mode])):
            if a != b:
                return {"violation": {"kind": "trajectory-depends-on-what-the-process-has-imported", "mode": mode,
                                      "seed_pop_horizon": cjobs[j], "digest_bare_interpreter": a, "digest_" + mode: b}}
    return {"evidence": {"core_only_arm": {"jobs": len(cjobs), "modes": modes, "bare_interpreter_really_without_numpy": bare},
                         "cross_environment_arm": {
        "configurations": n, "fresh_interpreters_with_hashseeds": hashseeds, "real_batch_run_arms": [a for a, _ in arms],
        "wall_s": round(time.time() - t0, 2),
        "note": "real processes / hash seeds (not simulated); every digest equals the in-process reference"}}}
