"""ChaosModel - the scripted stochastic workload of C07 (top-level, picklable, usable through batch_run).

Everything random goes through the framework: Environment.get_random_agent (with and without template /
tag filters), Environment.shuffle, and Model.random for moves / births / deaths. The trace records
every system execution, pick, shuffle order, position, component value and collector record; its
SHA-256 is the digest. The workload itself never iterates a set or hashes a string into an order."""
import hashlib
import json
import random

from ECAgent.Collectors import AgentCollector, Collector
from ECAgent.Core import Agent, Component, Model, System
from ECAgent.Environments import DiscreteWorld, GridWorld, LineWorld, PositionComponent, SpaceWorld

HOOK = {"fn": None}     # perturbation callback installed by the harness: fn(model, where, t)


class Wealth(Component):
    def __init__(self, agent, model, w):
        super().__init__(agent, model)
        self.w = w


class Marker(Component):
    pass


def _pos(a):
    p = a[PositionComponent]
    return None if p is None else [p.x, p.y, p.z]


class Transfer(System):
    def execute(self):
        m = self.model
        env = m.environment
        a = env.get_random_agent(Wealth)
        b = env.get_random_agent(Wealth, tag=1)
        if b is None:
            b = env.get_random_agent(Wealth)
        m.trace.append(["pick", m.systems.timestep, a.id if a else None, b.id if b else None])
        if a is not None and b is not None and a[Wealth].w > 0:
            a[Wealth].w -= 1
            b[Wealth].w += 1


class ShuffleUpdate(System):
    def execute(self):
        m = self.model
        order = m.environment.shuffle(Wealth)
        m.trace.append(["shuffle", m.systems.timestep, [a.id for a in order]])
        for i, a in enumerate(order):
            a[Wealth].w = (a[Wealth].w * 3 + i) % 17


class Move(System):
    def execute(self):
        m = self.model
        env = m.environment
        if not isinstance(env, SpaceWorld):
            return
        cont = m.cfg["world"].startswith("space")
        for a in list(env):
            if cont:
                dx, dy = m.random.uniform(-2.5, 2.5), m.random.uniform(-2.5, 2.5)
            else:
                dx, dy = m.random.randint(-2, 2), m.random.randint(-2, 2)
            env.move(a, dx, dy)
            m.trace.append(["pos", a.id, _pos(a)])


class NeighbourWalk(System):
    """The usual grid idiom: ask the world for the neighbouring cells, reorder the returned list in place with the model's
    generator, step onto the first one."""

    def execute(self):
        m = self.model
        env = m.environment
        if not isinstance(env, DiscreteWorld):
            return
        for a in list(env):
            cells = env.get_neighbours(a[PositionComponent], radius=m.cfg.get("radius", 1), ret_type=tuple,
                                       mode=m.cfg.get("nmode", "moore"))
            m.random.shuffle(cells)
            if cells:
                env.move_to(a, cells[0][0], cells[0][1])
            ids = env.get_neighbours(a[PositionComponent], incl_center=True)
            ids.reverse()                       # a caller may do what it likes with the list it was given
            m.trace.append(["nwalk", a.id, [list(c) for c in cells[:4]], ids[:3], _pos(a)])


class BirthDeath(System):
    def execute(self):
        m = self.model
        env = m.environment
        if m.random.random() < 0.35:
            m.births += 1
            m.spawn(f"n{m.births}")
        if m.random.random() < 0.25 and len(env) > 2:
            v = env.get_random_agent()
            m.trace.append(["death", v.id])
            env.remove_agent(v.id)


class FilteredPick(System):
    def execute(self):
        m = self.model
        env = m.environment
        p1 = env.get_random_agent(Marker, Wealth)
        p2 = env.get_random_agent(tag=2)
        sh = env.shuffle(Marker, tag=1)
        sh2 = env.shuffle(Wealth, Marker)         # a template of two component types: candidates in joining order, then shuffled
        m.trace.append(["fpick", p1.id if p1 else None, p2.id if p2 else None, [a.id for a in sh], [a.id for a in sh2]])


class Ambient(System):
    """Perturbation point inside a timestep (the harness decides what happens here)."""

    def execute(self):
        if HOOK["fn"] is not None:
            HOOK["fn"](self.model, self.id, self.model.systems.timestep)


class BombError(Exception):
    pass


class Bomb(System):
    """A system that fails inside its timestep (the caller catches the error and carries on with OTHER models)."""

    def execute(self):
        raise BombError(f"{self.id} failed at t={self.model.systems.timestep}")


class Stopper(System):
    def execute(self):
        if self.model.systems.timestep >= self.model.cfg["horizon"] - 1:
            self.model.finish()


class DigestCollector(Collector):
    def collect(self):
        m = self.model
        self.records.append([m.seed_used, m.cfg_key, m.digest()])


SYSTEMS = {"transfer": (Transfer, 4), "shuffle": (ShuffleUpdate, 3), "move": (Move, 2), "birthdeath": (BirthDeath, 1),
           "fpick": (FilteredPick, 0), "nwalk": (NeighbourWalk, 2)}


class Grazer(Agent):
    """An agent class with a default tag: every model sets it when it is built (class defaults are shared by the process and
    affect agents created afterwards); founders created without an explicit tag receive it then and keep it."""


class ChaosModel(Model):
    SEEDING = "ctor"      # how the model's generator gets its seed (see the subclasses below): the stream is the same

    def __init__(self, seed, cfg):
        if self.SEEDING == "ctor":
            super().__init__(seed=seed)
        elif self.SEEDING == "late_seed":
            super().__init__()
            self.random.seed(seed)                  # the public generator seeded after the base constructor ran
        else:
            super().__init__()
            self.random = random.Random(seed)       # ... or replaced by a generator of the user's
        self.seed_used = seed
        self.cfg_key = cfg if isinstance(cfg, str) else json.dumps(cfg, sort_keys=True)
        self.cfg = json.loads(cfg) if isinstance(cfg, str) else cfg
        self.trace = []
        self.births = 0
        c = self.cfg
        w, h = c.get("w", 6), c.get("h", 5)
        kind = c["world"]
        if kind == "grid":
            self.environment = GridWorld(self, w, h)
        elif kind == "grid_wrap":
            self.environment = GridWorld(self, w, h, wrap_env=True)
        elif kind == "line":
            self.environment = LineWorld(self, w)
        elif kind == "space":
            self.environment = SpaceWorld(self, float(w), float(h))
        elif kind == "space_wrap":
            self.environment = SpaceWorld(self, float(w), float(h), wrap_env=True)
        if c.get("default_tag") is not None:
            Grazer.tag = c["default_tag"]
        for i in range(c["pop"]):
            self.spawn(f"a{i}", founding=True)
        for name in c["systems"]:
            cls, prio = SYSTEMS[name]
            self.systems.add_system(cls(name, self, priority=prio))
        for i, prio in enumerate(c.get("ambient", [])):
            self.systems.add_system(Ambient(f"amb{i}", self, priority=prio))
        if c.get("collector", True):
            self.systems.add_system(AgentCollector(self, lambda a: a[Wealth].w if Wealth in a else None,
                                                   includeTimstep=True))
        self.systems.add_system(DigestCollector("digest", self, priority=-10))
        self.systems.add_system(Stopper("stopper", self, priority=-20))

    def spawn(self, aid, founding=False):
        r = self.random
        t_ = r.choice([0, 0, 1, 1, 2])
        if founding and self.cfg.get("default_tag") is not None and t_ == 2:
            a = Grazer(aid, self)                  # a founder that takes the default tag its class has at this moment
        else:
            a = Agent(aid, self, tag=t_)
        if r.random() < 0.85:
            a.add_component(Wealth(a, self, r.randint(0, 9)))
        if r.random() < 0.5:
            a.add_component(Marker(a, self))
        env = self.environment
        if isinstance(env, SpaceWorld):
            if self.cfg["world"].startswith("space"):
                env.add_agent(a, r.uniform(0, env.width), r.uniform(0, env.height))
            else:
                env.add_agent(a, r.randrange(env.width), r.randrange(env.height) if env.height else 0)
        else:
            env.add_agent(a)
        self.trace.append(["birth", aid, a.tag, a[Wealth].w if Wealth in a else None, _pos(a) if PositionComponent in a else None])

    def between(self):
        """Driver-level draws: what a run loop (or a score function) does with the framework's random helpers between two
        timesteps of this model - outside any timestep."""
        if not self.cfg.get("driver_draws") or not self.is_running():
            return
        env = self.environment
        a = env.get_random_agent()
        order = env.shuffle(Wealth)
        self.trace.append(["driver", a.id if a else None, [x.id for x in order[:6]]])

    def finish(self):
        col = self.systems["AgentCollector"]
        if col is not None:
            self.trace.append(["records", col.records])
        self.trace.append(["final", [[a.id, a.tag, a[Wealth].w if Wealth in a else None] for a in self.environment]])
        dc = self.systems["digest"]
        if dc is not None:
            dc.records.append([self.seed_used, self.cfg_key, self.digest()])   # the final digest, as returned by batch_run
        self.complete()

    def digest(self):
        return hashlib.sha256(json.dumps(self.trace, sort_keys=True).encode()).hexdigest()[:20]

    def run_all(self):
        guard = 0
        while self.is_running() and guard < 500:
            self.execute()
            self.between()
            guard += 1
        return self.digest()


class KwChaosModel(ChaosModel):
    """The same model behind a constructor that takes its seed as a keyword-only argument (a common signature style)."""

    def __init__(self, cfg, *, seed=None):
        super().__init__(seed, cfg)


class LateSeedChaosModel(ChaosModel):
    SEEDING = "late_seed"


class OwnGeneratorChaosModel(ChaosModel):
    SEEDING = "replace"


def gen_cfg(rng, tier="quick"):
    world = rng.choice(["plain", "plain", "grid", "grid_wrap", "line", "space", "space_wrap"])
    names = [n for n in SYSTEMS if rng.random() < 0.7] or ["transfer", "shuffle"]
    if "transfer" not in names and "shuffle" not in names:
        names.append(rng.choice(["transfer", "shuffle"]))
    return {"world": world, "w": rng.randint(2, 7), "h": rng.randint(2, 6), "pop": rng.choice([rng.randint(3, 12), rng.randint(3, 12), rng.randint(13, 30)]),
            "systems": names, "horizon": rng.randint(5, 30 if tier == "thorough" else 14),
            "ambient": [rng.choice([5, 3, 2, 1, 0, -1, -5]) for _ in range(rng.randint(0, 3))],
            "collector": rng.random() < 0.8, "radius": rng.choice([1, 1, 2]), "nmode": rng.choice(["moore", "neumann"]),
            "driver_draws": rng.random() < 0.4, "default_tag": rng.choice([None, None, 0, 1, 2, 2])}
