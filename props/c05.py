"""C05 - systems changing the system set mid-timestep never cause skips or reruns.

Simulated dimension: a re-entrancy schedule. The scenario decides which system, at which queue
position and timestep, mutates the list the scheduler is walking; the recorded per-timestep
history is checked against conditions (a)-(f) of DESIGN.md section 5/C05."""
import copy

from ECAgent.Core import System

from .common import ambient_warnings, model_class, SID, Model, Rec, RefSched, SystemNotFoundError, gen_flavour, gen_prio, gen_window, rec_class, spec_defaults

PROPERTY = "C05"
QUICK_RUNS = 24000
CHUNK = 500
RULE = ("seeded re-entrancy schedules: 2-8 recording systems, 1-4 actor scripts (actor, timestep, actions in "
        "{remove self via clean_up, remove earlier/later system, register higher/equal/lower priority system, "
        "rejected duplicate add, rejected unknown removal}) over 3-8 timesteps; non-trivial = at least one "
        "effective mutation executed from inside a timestep while >=1 eligible system of the step's initial "
        "queue was still behind the actor; distinct = distinct abstract schedule shape (queue length, actor "
        "position, action kind, relative target position / priority relation per effective mutation)"
        "; also: falsy systems (__len__ == 0 / __bool__ false), removal through the target's own clean_up(), requests for several timesteps at once (each judged on its own), str-subclass ids, systems that are bundled Collector / FileCollector objects, a system switched off-on-off within one turn, a registered system re-prioritised in mid-step (attribute assigned, removed, the same object re-added), instance identity (id#generation), hot swap of an id, nested stepping of another model from inside a system, systems with value-based __eq__")
COMPONENTS = {"real": ["ECAgent.Core.SystemManager (add_system, remove_system, execute_systems)", "ECAgent.Core.Model",
                       "ECAgent.Core.System.clean_up"],
              "stub": ["System.execute bodies are harness recording systems driven by the scenario script"]}
PROBES = ["actor_first", "actor_middle", "actor_last", "target_before", "target_self", "target_after",
          "new_higher", "new_equal", "new_lower", "two_mutations_one_step", "hot_swap_same_id", "other_model_stepped_mid_timestep", "systems_with_value_equality", "falsy_systems", "removed_via_targets_clean_up", "reprioritised_same_object", "systems_returning_values_from_execute", "switched_off_on_off_in_one_turn", "str_subclass_ids", "multi_step_request", "new_system_cloned_from_a_registered_one",
          "systems_that_are_bundled_collectors"]
SHRINK_LISTS = ["scripts", "systems"]
SHRINK_SKIP = ("end",)


def generate(rng, tier):
    big = tier == "thorough"
    steps = rng.randint(3, 10 if big else 8)
    n = rng.randint(2, 10 if big else 8)
    systems = []
    for i in range(n):
        s = {"id": f"s{i}", "prio": gen_prio(rng) if rng.random() < 0.85 else 0}
        s.update(gen_window(rng, steps, always=0.8))
        systems.append(s)
    known = [s["id"] for s in systems]
    prio_of = {s["id"]: s["prio"] for s in systems}
    scripts = []
    fresh = 0
    for _ in range(rng.randint(1, 6 if big else 4)):
        actor = rng.choice(known)
        t = rng.randint(0, steps - 1)
        actions = []
        for _ in range(rng.choice([1, 1, 1, 2, 2, 3])):
            r = rng.random()
            if r < 0.2:
                actions.append({"op": "remove_self"})
            elif r < 0.5:
                actions.append({"op": "remove", "target": rng.choice(known), "via": rng.choice(["id", "id", "clean_up"])})
            elif r < 0.9:
                rel = rng.choice([1, 0, -1, rng.randint(-3, 3)])
                p = prio_of[actor] + rel
                spec = {"id": f"n{fresh}", "prio": p}
                spec.update(gen_window(rng, steps, always=0.85))
                fresh += 1
                actions.append({"op": "add", "sys": spec, "clone_of": rng.choice(known) if rng.random() < 0.2 else None})
                known.append(spec["id"])
                prio_of[spec["id"]] = p
            elif r < 0.93:
                actions.append({"op": "add_dup", "target": rng.choice(known)})
            elif r < 0.945:
                actions.append({"op": "step_other", "n": rng.choice([1, 1, 2])})
            elif r < 0.97:
                # hot swap: remove a system and register a NEW instance under the same id
                tgt = rng.choice(known)
                spec = {"id": tgt, "prio": prio_of[tgt] + rng.choice([0, 0, 1, -1])}
                spec.update(gen_window(rng, steps, always=0.85))
                actions.append({"op": "replace", "sys": spec})
                prio_of[tgt] = spec["prio"]
            else:
                actions.append({"op": "remove", "target": f"ghost{rng.randint(0, 3)}"})
        if rng.random() < 0.08:
            # switch a system off, on and off again within one turn: clean_up(), register the same object, clean_up()
            actions.append({"op": "off_on_off", "target": rng.choice(known)})
        if rng.random() < 0.08:
            # re-prioritise a registered system the natural way: assign the attribute, take it out, put the SAME object back
            tgt = rng.choice(known)
            actions.append({"op": "reprio", "target": tgt, "prio": prio_of[tgt] + rng.choice([-7, -3, -1, 1, 2, 6]),
                            "via": rng.choice(["id", "clean_up"])})
            prio_of[tgt] = actions[-1]["prio"]
        scripts.append({"actor": actor, "t": t, "actions": actions})
    multi = [rng.choice([1, 1, 2, 3, 5]) for _ in range(steps)] if rng.random() < 0.3 else []      # requests for several timesteps
    out = dict({"systems": systems, "scripts": scripts, "steps": steps, "strsub_ids": rng.random() < 0.12, "multi": multi},
               **gen_flavour(rng))
    if rng.random() < 0.15:
        # coupling systems: an instance registered here is ALSO registered with (or taken out of) a second live model, from
        # inside a timestep of this one - the other model's system set is not this model's
        for sc_ in scripts:
            for _ in range(rng.choice([1, 1, 2])):
                sc_["actions"].insert(rng.randint(0, len(sc_["actions"])), {"op": "elsewhere", "target": rng.choice([s["id"] for s in systems])})
    return out


class StepEnd(System):
    """Harness sentinel: registered below every possible priority, it is the last system of every timestep and lets the
    world judge that timestep (and prepare the next one when the request covers several)."""

    def __init__(self, model, world):
        super().__init__("verif-step-end", model, priority=-(2 ** 90))
        self.world = world

    def execute(self):
        self.world.end_step()
        if self.world.remaining > 0:
            self.world.begin_step()


class World:
    def __init__(self, sc, ctx):
        self.ctx = ctx
        self.model = model_class(sc, ctx)(seed=20260927)
        self.ref = RefSched()
        self.log = []          # events of the current timestep
        self.objs = {}
        self.scripts = {}
        for s in sc["scripts"]:
            self.scripts.setdefault((s["actor"], s["t"]), []).extend(s["actions"])
        self.shape = []
        self.mut_this_step = 0
        self.gen = 0
        self.spec_of = {}
        self.other = None
        self.side = None
        self.rec_cls = rec_class(sc, ctx)
        self.strsub = bool(sc.get("strsub_ids"))
        if self.strsub:
            ctx.probe("str_subclass_ids")
        self.uid_of = {}      # id -> uid of the currently registered instance

    def mk(self, spec):
        o = self.rec_cls(dict(spec, id=SID(spec["id"])) if self.strsub else spec, self.model, self)
        self.gen += 1
        o.uid = f"{spec['id']}#{self.gen}"       # instance identity: a re-registered id is a different system
        self.spec_of[o.uid] = spec
        self.objs[spec["id"]] = o
        return o

    def on_execute(self, rec):
        ctx = self.ctx
        t = self.model.systems.timestep
        self.log.append(("x", rec.id, rec.uid))
        ctx.event("exec", rec.uid, t)
        for act in self.scripts.get((rec.id, t), []):
            self.perform(rec, act, t)

    def _pos(self, sid):
        return self.q0.index(sid) if sid in self.q0 else None

    def perform(self, rec, act, t):
        ctx, ref, sm = self.ctx, self.ref, self.model.systems
        op = act["op"]
        apos = self._pos(rec.id)
        behind = [s for s in self.q0[apos + 1:] if s in self.elig0 and ref.has(s)] if apos is not None else []
        if op == "remove_self":
            if not ref.has(rec.id):
                return
            st, v = ctx.call(rec.clean_up)
            ctx.event("remove_self", rec.id, st)
            if st != "ok":
                ctx.fail("midstep-remove:unexpected-exception", f"{type(v).__name__}: {v}")
            ref.remove(rec.id)
            self.log.append(("r", rec.id, self.uid_of.pop(rec.id)))
            self._effective(apos, behind, "remove", "self")
            ctx.probe("target_self")
        elif op == "remove":
            tgt = act["target"]
            if not ref.has(tgt):
                ctx.fault("reject.unknown_system")
                ctx.expect_raises("midstep-remove-unknown", SystemNotFoundError, sm.remove_system, tgt)
                ctx.event("remove_rejected", tgt)
                return
            if act.get("via") == "clean_up":      # an earlier/later system is asked to clean itself up
                ctx.probe("removed_via_targets_clean_up")
                got = sm[tgt]
                ctx.check(got is self.objs[tgt], "registry", f"lookup of registered system {tgt} returned {got!r}")
                st, v = ctx.call(got.clean_up)
            else:
                st, v = ctx.call(sm.remove_system, tgt)
            ctx.event("remove", tgt, st)
            if st != "ok":
                ctx.fail("midstep-remove:unexpected-exception", f"{type(v).__name__}: {v}")
            ref.remove(tgt)
            self.log.append(("r", tgt, self.uid_of.pop(tgt)))
            tpos = self._pos(tgt)
            rel = "self" if tgt == rec.id else ("new" if tpos is None else ("before" if tpos < apos else "after"))
            self._effective(apos, behind, "remove", rel)
            ctx.probe({"self": "target_self", "before": "target_before", "after": "target_after",
                       "new": "target_after"}[rel])
        elif op == "add":
            spec = spec_defaults(act["sys"])
            if ref.has(spec["id"]) or spec["id"] in self.objs:
                return  # ids of new systems are fresh by construction; a shrunk scenario may repeat one
            donor = self.objs.get(act.get("clone_of")) if ref.has(act.get("clone_of") or "") else None
            if donor is not None and not self.strsub:
                # the new system is a shallow copy of a REGISTERED one, given its own id, priority and window
                o = copy.copy(donor)
                o.id, o.priority = spec["id"], spec["prio"]
                o.start, o.end, o.frequency = spec["start"], spec["end"], spec["freq"]
                self.gen += 1
                o.uid = f"{spec['id']}#{self.gen}"
                self.spec_of[o.uid] = spec
                self.objs[spec["id"]] = o
                if "execute" in getattr(o, "__dict__", {}):
                    o.execute = lambda o=o: o.world.on_execute(o)
                ctx.probe("new_system_cloned_from_a_registered_one")
            else:
                o = self.mk(spec)
            st, v = ctx.call(sm.add_system, o)
            ctx.event("add", spec["id"], spec["prio"], st)
            if st != "ok":
                ctx.fail("midstep-add:unexpected-exception", f"{type(v).__name__}: {v}")
            ref.add(spec)
            self.uid_of[spec["id"]] = o.uid
            self.added_now.append(spec["id"])
            rel = "higher" if spec["prio"] > rec.priority else ("equal" if spec["prio"] == rec.priority else "lower")
            self._effective(apos, behind, "add", rel)
            ctx.probe("new_" + rel)
        elif op == "replace":
            spec = spec_defaults(act["sys"])
            tgt = spec["id"]
            if not ref.has(tgt):
                return
            st, v = ctx.call(sm.remove_system, tgt)
            if st != "ok":
                ctx.fail("midstep-remove:unexpected-exception", f"{type(v).__name__}: {v}")
            ref.remove(tgt)
            self.log.append(("r", tgt, self.uid_of.pop(tgt)))
            o = self.mk(spec)
            st, v = ctx.call(sm.add_system, o)
            if st != "ok":
                ctx.fail("midstep-add:unexpected-exception", f"{type(v).__name__}: {v}")
            ref.add(spec)
            self.uid_of[tgt] = o.uid
            self.added_now.append(tgt)
            ctx.event("replace", tgt, o.uid)
            tpos = self._pos(tgt)
            rel = "self" if tgt == rec.id else ("new" if tpos is None else ("before" if tpos < apos else "after"))
            self._effective(apos, behind, "replace", rel)
            ctx.probe("hot_swap_same_id")
        elif op == "off_on_off":
            tgt = act["target"]
            if not ref.has(tgt):
                return
            o = self.objs[tgt]
            for phase in ("off", "on", "off"):
                st, v = ctx.call(sm.add_system, o) if phase == "on" else ctx.call(o.clean_up)
                if st != "ok":
                    ctx.fail(f"midstep-{phase}:unexpected-exception", f"{type(v).__name__}: {v}")
                if phase == "on":
                    ref.add(self.spec_of[o.uid])
                    self.uid_of[tgt] = o.uid
                    self.log.append(("a", tgt, o.uid))
                    self.readded.add(o.uid)
                else:
                    ref.remove(tgt)
                    self.uid_of.pop(tgt, None)
                    self.log.append(("r", tgt, o.uid))
            ctx.event("off_on_off", tgt)
            tpos = self._pos(tgt)
            rel = "self" if tgt == rec.id else ("new" if tpos is None else ("before" if tpos < apos else "after"))
            self._effective(apos, behind, "remove", rel)
            ctx.probe("switched_off_on_off_in_one_turn")
        elif op == "reprio":
            tgt = act["target"]
            if not ref.has(tgt):
                return
            o = self.objs[tgt]
            o.priority = act["prio"]
            st, v = ctx.call(o.clean_up) if act.get("via") == "clean_up" else ctx.call(sm.remove_system, tgt)
            if st != "ok":
                ctx.fail("midstep-remove:unexpected-exception", f"{type(v).__name__}: {v}")
            ref.remove(tgt)
            self.log.append(("r", tgt, o.uid))
            st, v = ctx.call(sm.add_system, o)
            if st != "ok":
                ctx.fail("midstep-add:unexpected-exception", f"{type(v).__name__}: {v}")
            spec = dict(self.spec_of[o.uid], prio=act["prio"])
            self.spec_of[o.uid] = spec
            ref.add(spec)
            self.uid_of[tgt] = o.uid
            self.log.append(("a", tgt, o.uid))       # the same object is registered again: from here on it is a newcomer
            self.readded.add(o.uid)
            self.added_now.append(tgt)
            ctx.event("reprio", tgt, act["prio"])
            tpos = self._pos(tgt)
            rel = "self" if tgt == rec.id else ("new" if tpos is None else ("before" if tpos < apos else "after"))
            self._effective(apos, behind, "reprio", rel)
            ctx.probe("reprioritised_same_object")
        elif op == "elsewhere":
            tgt = act["target"]
            if not ref.has(tgt):
                return
            o = self.objs[tgt]
            if self.side is None:
                self.side = Model(seed=11)
                for j in range(4):         # (the second model has handed out registrations of its own)
                    self.side.systems.add_system(Rec({"id": f"side{j}", "prio": 1}, self.side, self))
            there = self.side.systems[tgt] is o
            if not there and self.side.systems[tgt] is not None:
                return          # (an earlier instance under this id is still registered over there)
            st, v = ctx.call(self.side.systems.remove_system, tgt) if there else ctx.call(self.side.systems.add_system, o)
            if st != "ok":
                ctx.fail("elsewhere:unexpected-exception", f"{type(v).__name__}: {v}")
            ctx.event("elsewhere", tgt, "removed" if there else "added")
            ctx.probe("instance_taken_out_of_another_model_mid_timestep" if there else "instance_also_registered_with_another_model")
        elif op == "step_other":
            # nested stepping of a second, independent model (with its own systems and its own removals)
            if self.other is None:
                self.other = Model(seed=7)
                self.other_log = []
                outer = self

                class Sub(Rec):
                    def execute(sub_self):
                        outer.other_log.append(sub_self.id)
                        if sub_self.id == "o0" and outer.other.systems["o1"] is not None and outer.other.systems.timestep % 2 == 1:
                            outer.other.systems.remove_system("o1")
                for j in range(3):
                    self.other.systems.add_system(Sub({"id": f"o{j}", "prio": 2 - j}, self.other, self))
            for _ in range(int(act.get("n", 1))):
                st, v = ctx.call(self.other.execute)
                if st != "ok":
                    ctx.fail("nested-step:unexpected-exception", f"{type(v).__name__}: {v}")
            ctx.probe("other_model_stepped_mid_timestep")
            ctx.event("step_other", len(self.other_log))
        elif op == "add_dup":
            tgt = act["target"]
            if not ref.has(tgt):
                return
            ctx.fault("reject.dup_system")
            ctx.expect_raises("midstep-add-duplicate", KeyError, sm.add_system,
                              Rec({"id": tgt, "prio": rec.priority + 1}, self.model, self))
            ctx.event("add_rejected", tgt)

    def _effective(self, apos, behind, kind, rel):
        ctx = self.ctx
        ctx.fault("mutate.midstep")
        self.mut_this_step += 1
        if self.mut_this_step == 2:
            ctx.probe("two_mutations_one_step")
        if apos is not None:
            n = len(self.q0)
            ctx.probe("actor_first" if apos == 0 else ("actor_last" if apos == n - 1 else "actor_middle"))
            self.shape.append([n, apos, kind, rel, len(behind)])
            if behind:
                ctx.nontrivial = True
        else:
            self.shape.append([len(self.q0), -1, kind, rel, 0])

    def begin_step(self):
        ctx, ref, sm = self.ctx, self.ref, self.model.systems
        t = ref.t
        self.q0 = ref.ids()
        self.elig0 = set(ref.due(t))
        self.q0_uids = [self.uid_of[sid] for sid in self.q0]
        self.log = []
        self.added_now = []
        self.readded = set()      # uids of instances removed and registered again (same object) during this step
        self.mut_this_step = 0

    def step(self, n=1):
        """One request for n timesteps; every timestep is judged on its own (the sentinel system closes each one)."""
        ctx = self.ctx
        self.remaining = n
        self.begin_step()
        st, v = ctx.call(self.model.execute, n) if n > 1 else ctx.call(self.model.execute)
        if st != "ok":
            ctx.fail("step:unexpected-exception", f"{type(v).__name__}: {v}")
        ctx.check(self.remaining == 0, "clock", f"a request for {n} timestep(s) ended with {self.remaining} of them not run")
        ctx.check(self.model.systems.timestep == self.ref.t, "clock", f"timestep {self.model.systems.timestep} != {self.ref.t}")
        if n > 1:
            ctx.probe("multi_step_request")

    def end_step(self):
        """Called by the sentinel system as the last act of every timestep (the scheduler has not advanced the clock yet)."""
        ctx, ref, sm = self.ctx, self.ref, self.model.systems
        t = ref.t
        ctx.sim_time += 1
        ref.t += 1
        ctx.check(sm.timestep + 1 == ref.t, "clock", f"timestep {sm.timestep} during step {ref.t - 1}")
        self.remaining -= 1
        execs = [e[2] for e in self.log if e[0] == "x"]          # instance uids, in execution order
        exec_ids = [e[1] for e in self.log if e[0] == "x"]
        # (a) nobody runs twice
        seen = set()
        for u in execs:
            ctx.check(u not in seen, "rerun", f"t={t}: {u} executed twice; log={execs} q0={self.q0}")
            seen.add(u)
        # (d) removed before its turn => no later execution (by instance: a new system under the same id is another system)
        removed_at = {}
        for i, e in enumerate(self.log):
            if e[0] == "r":
                removed_at.setdefault(e[2], i)
            elif e[0] == "a":
                removed_at.pop(e[2], None)
            elif e[2] in removed_at:
                ctx.fail("ran-after-removal", f"t={t}: {e[2]} executed after it was removed; log={[x[:3] for x in self.log]}")
        # only eligible systems may run at all (members of Q0 and newcomers alike)
        for e in self.log:
            if e[0] == "x":
                sp = self.spec_of.get(e[2])
                ctx.check(sp is not None and ref.eligible(sp, t), "ran-outside-window",
                          f"t={t}: {e[2]} executed but is not due; log={execs}")
        # (b) eligible members of Q0 still registered (same instance) at the end ran exactly once; (c) in Q0 order
        stay = [u for sid, u in zip(self.q0, self.q0_uids) if sid in self.elig0 and self.uid_of.get(sid) == u and u not in self.readded]
        for u in stay:
            ctx.check(u in seen, "skipped", f"t={t}: {u} stayed registered and was due but did not run; "
                                            f"log={execs} q0={self.q0_uids}")
        order = [u for u in execs if u in stay]
        ctx.check(order == stay, "order", f"t={t}: {order} != {stay}")
        seen_ids = set(exec_ids)
        allspecs = {s_["id"]: s_ for s_ in ref.q}
        # (e) newcomers 0 or 1 times (covered by (a)); record which
        for sid in self.added_now:
            if ref.has(sid) and ref.eligible(allspecs[sid], t):
                ctx.probe("new_system_ran_same_step" if self.uid_of.get(sid) in seen else "new_system_deferred")
        # (f) registry agrees with the reference after the step
        for sid in set(self.objs) | set(self.q0):
            got = sm[sid]
            if ref.has(sid):
                ctx.check(got is self.objs[sid], "registry", f"{sid} should be registered")
            else:
                ctx.check(got is None, "registry", f"{sid} should not be registered")
        if self.mut_this_step == 0:
            ctx.check(exec_ids == [s for s in self.q0 if s in self.elig0], "quiet-step-order",
                      f"t={t}: {execs} != due {sorted(self.elig0)} in order {self.q0}")
        ctx.state([ref.ids(), t % 4])


def execute(sc, ctx):
    ambient_warnings(sc, ctx)
    w = World(sc, ctx)
    for spec in sc["systems"]:
        spec = spec_defaults(spec)
        if w.ref.has(spec["id"]):
            continue
        o = w.mk(spec)
        ctx.expect_ok("setup-add", w.model.systems.add_system, o)
        w.ref.add(spec)
        w.uid_of[spec["id"]] = o.uid
    ctx.expect_ok("setup-add", w.model.systems.add_system, StepEnd(w.model, w))
    left = min(int(sc["steps"]), 40)
    multi = list(sc.get("multi") or [])
    while left > 0:
        n = min(left, int(multi.pop(0)) if multi else 1)
        w.step(max(1, n))
        left -= max(1, n)
    ctx.sig = w.shape

TECHNIQUE = "deterministic simulation: seeded re-entrancy schedules through the real scheduler, per-timestep history oracle, ddmin + JSON replay"
LEVEL_TEXT = ("Seeded search over which system mutates the system set at which queue position and timestep; every "
              "timestep's execution history is checked against conditions (a)-(f) (no rerun, no skip, order, no run "
              "after removal). Sampling, not proof; bounds: <=10 systems, <=6 scripts, <=10 timesteps per run.")
LEVEL_NOTE = ("Trusted: the harness's reference scheduler (sorted list) and recording systems; newcomers registered "
              "mid-step may run 0 or 1 times (left open by the statement).")
