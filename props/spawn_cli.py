"""Fresh-interpreter side of the start-method arm (C15 / C16): sets the multiprocessing start method, runs the jobs read from
stdin ({"batch": [...], "search": [...]}) and prints what batch_run / grid_search returned. Run as a script (not -m).
Honours VERIF_REPO. argv[1] = 'spawn' | 'forkserver' | 'fork'."""
import json
import os
import sys

HERE = os.path.dirname(os.path.dirname(os.path.abspath(__file__)))
sys.dont_write_bytecode = True
sys.path.insert(0, HERE)
sys.path.insert(0, os.path.realpath(os.environ.get("VERIF_REPO", "/repo")))


def main():
    import multiprocessing as mp
    mp.set_start_method(sys.argv[1], force=True)
    jobs = json.load(sys.stdin)
    import ECAgent.Batching as B
    from props import plainwork as PW
    out = {"batch": [], "search": []}
    for j in jobs.get("batch", []):
        try:
            res = B.batch_run(PW.PlainModel, {"a": j["a"], "b": j["b"]}, collectors="rec", processes=j["processes"],
                              repetitions=j["reps"], max_timesteps=j["max_ts"])
            out["batch"].append({"ok": [[list(r) for r in recs] for recs in res]})
        except Exception as e:
            out["batch"].append({"exc": f"{type(e).__name__}: {e}"})
    for j in jobs.get("search", []):
        try:
            best, results = B.grid_search(PW.PlainModel, {"a": j["a"], "b": j["b"]}, PW.plain_score, processes=j["processes"],
                                          repetitions=j["reps"], max_timesteps=j["max_ts"], mode=B.ScoreMode(j["mode"]))
            out["search"].append({"ok": [best, results]})
        except Exception as e:
            out["search"].append({"exc": f"{type(e).__name__}: {e}"})
    print("OUTCOME " + json.dumps(out))


if __name__ == "__main__":
    main()
