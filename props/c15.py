"""C15 - a batch runs every combination x repetition exactly once; no result lost, duplicated or mixed.

Simulated dimension: the worker pool. ECAgent.Batching.Pool is rebound to SimPool for the duration
of a run; the scenario fixes worker count (the code's own `processes`), every execution's simulated
duration and every tie-break, hence the completion order. Executions fail at chosen positions (in
the constructor or in a system at a chosen timestep). A real-pool arm (schedule not controlled) runs
the same oracles minus the ledger."""
import itertools

import ECAgent.Batching as B

from simkit.simpool import SimPoolHang, make_pool
from . import workloads as W

PROPERTY = "C15"
QUICK_RUNS = 6000
CHUNK = 100
ISOLATE = True     # fork per run: a change that adds process-global state to the package cannot leak between runs
RULE = ("grids of 1-4 parameters x 1-4 values (scalars, strings, lists, tuples, ranges), repetitions 1-4, max_timesteps "
        "below/at/above each model's own completion time or default, collectors in {None, name, list/tuple of 1-3 names, "
        "[]}, or an invalid value, processes 1..16 on a simulated pool with seeded durations and tie-breaks; for ~12% of "
        "scenarios a failing execution is injected at EVERY batch position in turn (constructor or system); non-trivial "
        "= >=2 simulated workers with a completion order different from submission order, or an injected failure; "
        "distinct = (grid shape, repetitions, processes, collector form, completion permutation, failure plan)"
        "; also: a second batch in the same process, reused / pre-built / sibling-edited ParameterLists, one-shot collector iterables, models with their own `timestep` attribute, failure classes incl. StopIteration, KeyError ... and the package's own exceptions (exceptions cross the pickle boundary too); collectors that are falsy while empty (__len__) or rebind their records list on every collection, executions that run a serial batch of another model class themselves (re-entrancy), parameters named like the batching code's own arguments (max_timesteps, model_cls, ...); rare switch for known finding F11; fault pool.kill_at_terminate: workers killed by Pool.terminate() - fatal (hang) when one is still running or sending")
COMPONENTS = {"real": ["ECAgent.Batching.batch_run", "_run_model_for_batch", "_build_model_from_kwargs", "ParameterList",
                       "ECAgent.Core.Model / SystemManager", "ECAgent.Collectors.Collector",
                       "multiprocessing.Pool (real-pool arm only, schedule not controlled)"],
              "stub": ["multiprocessing.Pool -> simkit.simpool.SimPool (discrete-event pool, pickle boundary kept)",
                       "models/systems/collectors are harness workloads (props/workloads.py)"]}
PROBES = ["requested_collectors_are_buffering_file_collectors", "requested_collector_missing_in_some_executions", "single_value_declared_after_a_collection", "failure_right_after_complete", "executions_running_batches_of_their_own", "collectors_rebinding_their_records", "collectors_falsy_while_empty", "parameter_named_like_a_batching_argument", "error_surfaced_while_other_workers_busy", "completion_reordered", "all_results_from_one_worker", "tie_in_finish_times", "fail_first", "fail_last",
          "max_ts_at_completion", "max_ts_below_completion", "max_ts_zero", "reps_single_combination",
          "collectors_none", "collectors_empty_list", "collectors_invalid", "parameterlist_input", "serial_order_checked",
          "second_batch_same_process", "parameterlist_reused_edit_returned", "parameterlist_reused_grid_search_first", "sibling_parameterlist_edited",
          "model_with_own_timestep_attribute", "collectors_one_shot_iterator"]
TECHNIQUE = "deterministic simulation: simulated worker pool (seeded durations, tie-breaks, pickle boundary, failing executions at every position) with an exactly-once ledger and self-identifying records"
LEVEL_TEXT = ("Seeded search over grid shapes, repetitions, step limits, collector selections and simulated pool schedules; an "
              "in-process execution ledger and self-identifying records decide exactly-once, no loss/duplication/mixing, "
              "limits and error propagation. Sampling, not proof; |E| <= 48 executions, horizon <= 12, <= 16 workers. "
              "A real multiprocessing.Pool arm re-checks the record oracles with uncontrolled interleaving.")
LEVEL_NOTE = ("Trusted: SimPool's model of multiprocessing.Pool (FIFO dispatch, completion-order delivery, exception re-raised "
              "at consumption); with one process both product-major and combination-major result order are accepted.")
SHRINK_LISTS = ["grid"]
ASSUMPTIONS = ["hard worker death (os._exit / SIGKILL) is not injected: multiprocessing.Pool itself hangs there and the "
               "property speaks of an error raised by an execution"]

COLLECTORS = [["col0", 1], ["col1", 2], ["col2", 1]]


def gen_values(rng):
    r = rng.random()
    n = rng.randint(1, 4)
    if r < 0.04:
        if rng.random() < 0.5:
            return {"kind": "taglib", "v": rng.choice([["PREY", "PREDATOR"], ["A"], [], ["X", "Y", "Z"]])}
        return {"kind": "lookupgen", "v": [[rng.randint(0, 3), 1], [2, 3]]}
    if r < 0.15:
        return {"kind": "scalar", "v": rng.randint(-3, 9)}
    if r < 0.25:
        return {"kind": "str", "v": rng.choice(["ab", "x", "hello"])}
    if r < 0.7:
        return {"kind": "list", "v": [rng.randint(0, 9) for _ in range(n)]}
    if r < 0.85:
        return {"kind": "ntuple" if rng.random() < 0.2 else "tuple", "v": [rng.choice(["a", "b", "c", "d"]) for _ in range(n)]}
    return {"kind": "range", "v": n}


def decode_values(spec, oneshot=True):
    k, v = spec["kind"], spec["v"]
    if k in ("iter", "gen"):
        # a one-shot iterable (iterator / generator expression): legal as long as the grid is used once
        if not oneshot:
            return list(v)
        return iter(list(v)) if k == "iter" else (x for x in list(v))
    if k in ("scalar", "str"):
        return v
    if k == "taglib":
        return W.stable_tags(v)           # a single value that happens to be a bundled tag library object
    if k == "lookupgen":
        return W.StableLookup([list(r_) for r_ in v])       # a single value that happens to be a bundled generator object
    if k == "list":
        return list(v)
    if k == "tuple":
        return tuple(v)
    if k == "ntuple":
        from .c14 import _ntuple
        return _ntuple(list(v))        # a tuple with named fields is a tuple: a collection of its elements
    if k == "range":
        return range(int(v))
    raise ValueError(k)


def as_list(spec):
    val = decode_values(spec)
    if isinstance(val, (str, int, W.StableLookup, W.StableTags)):
        return [val]
    return list(val)


def gen_pool(rng, n_tasks):
    style = rng.random()
    if style < 0.2:
        durations = [1]
    elif style < 0.5:
        durations = [rng.randint(1, 4) for _ in range(max(1, n_tasks))]
    else:
        durations = [rng.choice([1, 2, 3, 5, 8, 13, 40]) for _ in range(max(1, n_tasks))]
    ties = [rng.randint(0, 3) for _ in range(max(1, n_tasks))]
    stall = {}
    if rng.random() < 0.3:   # slow / stalled workers: they join the pool late (or, in effect, never)
        for wk in range(1, 16):
            if rng.random() < 0.5:
                stall[str(wk)] = rng.choice([1, 3, 10, 10 ** 6])
    return {"durations": durations, "ties": ties, "cpu": rng.randint(1, 16), "stall": stall}


def generate(rng, tier):
    while True:
        grid = [[f"p{i}", gen_values(rng)] for i in range(rng.randint(1, 4))]
        size = 1
        for _, s in grid:
            size *= len(as_list(s))
        reps = rng.randint(1, 4)
        if 1 <= size * reps <= (48 if tier == "thorough" else 36):
            break
    base_stop = rng.randint(0, 6)
    spread = rng.randint(1, 4)
    r = rng.random()
    if r < 0.3:
        max_ts = None
    elif r < 0.4:
        max_ts = 0
    else:
        max_ts = rng.randint(0, base_stop + spread + 2)
    r = rng.random()
    names = [c[0] for c in COLLECTORS]
    if r < 0.1:
        coll = {"form": "none"}
    elif r < 0.45:
        coll = {"form": "str", "names": [rng.choice(names)]}
    elif r < 0.8:
        coll = {"form": rng.choice(["list", "tuple", "iter"]), "names": rng.sample(names, rng.randint(1, 3))}
    elif r < 0.9:
        coll = {"form": "list", "names": []}
    else:
        coll = {"form": "invalid", "v": rng.choice([5, 2.5, True])}
    procs = rng.choice([1, 1, 2, 2, 3, 4, 5, 8, 16, rng.randint(2, 16)])
    fail = None
    r = rng.random()
    exc = rng.choice(["BatchFailure"] * 4 + sorted(W.FAIL_EXC) + W.OWN_EXC)
    if rng.random() < 0.03:
        exc = "TwoArgError"          # trigger of known finding F11 (rare on purpose)
    if r < 0.12:
        fail = {"k": "all", "where": rng.choice(["ctor", "system", "after_complete"]), "t": rng.randint(0, 3), "exc": exc}
    elif r < 0.25:
        fail = {"k": rng.randrange(size * reps), "where": rng.choice(["ctor", "system", "after_complete"]), "t": rng.randint(0, 3), "exc": exc}
    second = None
    if fail is None and coll["form"] != "invalid" and rng.random() < 0.3:
        # a second, different batch in the same process: nothing of the first may carry over
        second = {"reps": rng.randint(1, 3), "reverse": rng.random() < 0.7, "processes": rng.choice([1, 2, 3, 5]),
                  "max_ts": rng.choice([None, rng.randint(0, base_stop + spread + 2)]),
                  "collectors": {"form": "str", "names": [rng.choice(names)]} if rng.random() < 0.5 else
                  {"form": "list", "names": rng.sample(names, rng.randint(1, 3))}}
    prebuild = None
    if rng.random() < 0.25:
        prebuild = rng.choice(["edit_returned", "grid_search_first", "build_only"])
    if rng.random() < 0.12:
        grid[rng.randrange(len(grid))][0] = rng.choice(W.SPECIAL_NAMES)
    pool = gen_pool(rng, size * reps)
    if fail is not None:
        # fault: a worker is killed by Pool.terminate() while it is still sending its result (only matters when the code
        # under test terminates a pool whose workers are busy - e.g. by leaving `with Pool(...)` on an exception)
        pool["kill_mid_send"] = rng.random() < 0.6
    return {"nested_batches": rng.random() < 0.1, "falsy_collectors": rng.random() < 0.15, "rebinding_collectors": rng.random() < 0.12, "sibling": rng.random() < 0.15, "shadow_timestep": rng.choice([None, None, None, None, 0.25, 2.0, 7]),
            "prebuild": prebuild, "second": second, "grid": grid, "via": rng.choice(["dict", "plist"]), "reps": reps, "max_ts": max_ts, "collectors": coll,
            "processes": procs, "base_stop": base_stop, "spread": spread, "pool": pool,
            "fail": fail, "file_collectors": rng.random() < 0.1,
            # some models of the grid do not have one of the collectors (a parameter decides what a model registers): asking a
            # batch for records that an execution cannot supply is an error of that execution
            "lacking": {"name": rng.choice(["col0", "col1", "col2"]), "mod": rng.choice([1, 2, 2, 3]), "rem": rng.randrange(3)}
            if rng.random() < 0.08 else None}


def _zero_score(model):
    return 0


def as_list_total(sc):
    return list(itertools.product(*[as_list(s) for _, s in sc["grid"]]))


def build_args(sc):
    names = [g[0] for g in sc["grid"]]
    if len(set(names)) != len(names):
        raise ValueError("duplicate parameter name")
    raw = {n: decode_values(s) for n, s in sc["grid"]}
    if sc.get("sibling"):
        # another ParameterList is built from the very same dict and then edited: the dict given to batch_run stays as it was
        sib = B.ParameterList(raw)
        sib.add_parameter("zz_extra", [1, 2, 3])
        if names:
            sib.remove_parameter(names[0])
    params = B.ParameterList(raw) if sc["via"] == "plist" else raw
    if sc.get("prebuild") and isinstance(params, B.ParameterList):
        # the same ParameterList object has been used before this batch
        built = params.build()
        if sc["prebuild"] == "edit_returned":
            for d in built:                     # the caller edits the dictionaries build() gave it
                d["records"] = [0]
                for k in list(d):
                    if k != "records":
                        d[k] = "edited"
        elif sc["prebuild"] == "grid_search_first" and built and len(built) <= 16:
            W.reset({"base_stop": 1, "spread": 1, "scores": {}, "collectors_defined": []})
            try:
                B.grid_search(W.SearchModel, params, _zero_score, max_timesteps=1)   # serial search annotates its own dicts
            except Exception:
                pass
    combos = [dict(zip(names, vals)) for vals in itertools.product(*[as_list(s) for _, s in sc["grid"]])]
    c = sc["collectors"]
    form = c["form"]
    if form == "none":
        coll = None
    elif form == "str":
        coll = c["names"][0]
    elif form == "list":
        coll = list(c["names"])
    elif form == "tuple":
        coll = tuple(c["names"])
    elif form == "iter":
        coll = iter(list(c["names"]))      # several names handed over as a one-shot iterable
    else:
        coll = c["v"]
    return params, combos, coll


def expected_result(sig, sc):
    c = sc["collectors"]
    freq = dict((n, f) for n, f in COLLECTORS)
    if c["form"] == "str":
        return W.expected_records(sig, c["names"][0], freq[c["names"][0]], sc["max_ts"])
    return {n: W.expected_records(sig, n, freq[n], sc["max_ts"]) for n in c["names"]}


def norm(x):
    """Canonical, hashable form of one returned result (records may come back as tuples or lists)."""
    if isinstance(x, dict):
        return ("d",) + tuple((k, norm(x[k])) for k in sorted(x))
    if isinstance(x, (list, tuple)):
        return ("l",) + tuple(norm(e) for e in x)
    return x


def check_ledger(ctx, sc, E_sigs, expect_complete=True):
    led = W.LEDGER
    ctx.check(sorted(e["sig"] for e in led) == sorted(E_sigs), "exactly-once",
              lambda: f"executions {sorted(e['sig'] for e in led)} != product x repetitions {sorted(E_sigs)}")
    max_ts = sc["max_ts"]
    declared = [g[0] for g in sc["grid"]]
    kinds_ = [s_["kind"] in ("scalar", "str", "lookupgen", "taglib") for _, s_ in sc["grid"]]
    if any(single and not all(kinds_[:i]) for i, single in enumerate(kinds_)):
        ctx.probe("single_value_declared_after_a_collection")
    for e in led:
        # the execution IS model_cls(**combination): a model taking **kwargs receives the names as they were declared (PEP 468)
        ctx.check(e.get("kworder", declared) == declared, "built-from-another-combination",
                  lambda: f"{e['sig']}: the model was constructed with keywords {e.get('kworder')}, declared order {declared}")
        done = False
        for name, t, running in e["ticks"]:
            ctx.check(not done and running, "ran-after-completion", f"{e['sig']}: {name} ran at t={t} after completion")
            if max_ts is not None:
                ctx.check(t < max_ts, "past-step-limit", f"{e['sig']}: {name} ran at t={t}, max_timesteps={max_ts}")
            if name == "stopper" and e["completed_at"] == t:
                done = True
        if e["ticks"]:
            ctx.check(e["ticks"][0][1] == 0, "not-fresh", f"{e['sig']}: first observed timestep {e['ticks'][0][1]}")
        lim = W.stop_at_of(e["sig"])
        reach = lim if max_ts is None else min(lim, max_ts - 1)
        if max_ts is None or max_ts > 0:
            seen = [t for n, t, _ in e["ticks"] if n == "stopper"]
            ctx.check(seen == list(range(0, reach + 1)), "stepping",
                      f"{e['sig']}: stopper saw timesteps {seen}, expected 0..{reach}")
        else:
            ctx.check(not e["ticks"], "past-step-limit", f"{e['sig']} ran with max_timesteps=0")


def one_batch(ctx, sc, fail, label):
    """One batch_run call under the simulated pool; returns the shape facts for the signature."""
    params, combos, coll = build_args(sc)
    reps = int(sc["reps"])
    E = [W.sig_of(c) for c in combos] * reps
    W.reset({"base_stop": sc["base_stop"], "spread": sc["spread"], "fail": fail, "collectors_defined": COLLECTORS,
             "shadow_timestep": sc.get("shadow_timestep"), "falsy_collectors": sc.get("falsy_collectors"),
             "rebinding_collectors": sc.get("rebinding_collectors"), "nested_batches": sc.get("nested_batches"),
             "lacking": sc.get("lacking") if fail is None else None, "file_collectors": sc.get("file_collectors")})
    if sc.get("file_collectors"):
        ctx.probe("requested_collectors_are_buffering_file_collectors")
    if sc.get("nested_batches"):
        ctx.probe("executions_running_batches_of_their_own")
    if sc.get("rebinding_collectors"):
        ctx.probe("collectors_rebinding_their_records")
    if sc.get("falsy_collectors"):
        ctx.probe("collectors_falsy_while_empty")
    if any(n_ in W.SPECIAL_NAMES for n_, _ in sc["grid"]):
        ctx.probe("parameter_named_like_a_batching_argument")
    stats = {}
    kwargs = {"collectors": coll, "processes": sc["processes"], "repetitions": reps}
    if sc["max_ts"] is not None:
        kwargs["max_timesteps"] = sc["max_ts"]
    old = B.Pool
    B.Pool = make_pool(sc["pool"], stats)
    before = [(k, repr(v)) for k, v in (params._parameters if isinstance(params, B.ParameterList) else params).items()]
    try:
        st, val = ctx.call(B.batch_run, W.BatchModel, params, **kwargs)
    except SimPoolHang as h:
        ctx.fail("hang", f"batch_run would never return (processes={sc['processes']}, failing execution raised "
                         f"{(fail or {}).get('exc')}): {h}", finding="F11" if (fail or {}).get("exc") == "TwoArgError" else None)
    finally:
        B.Pool = old
    if stats.get("failure_while_busy"):
        ctx.probe("error_surfaced_while_other_workers_busy")
    if stats.get("terminated") and fail is not None and sc["pool"].get("kill_mid_send"):
        ctx.fault("pool.kill_at_terminate")     # the workers were killed at terminate(); fatal only if one was mid-send
    after = [(k, repr(v)) for k, v in (params._parameters if isinstance(params, B.ParameterList) else params).items()]
    ctx.check(after == before, "caller-parameters-modified", f"batch_run changed the caller's parameters: {after} was {before}")
    form = sc["collectors"]["form"]
    batches = stats.get("batches", [])
    comp = batches[0]["completion"] if batches else None
    ctx.event(label, sc["processes"], comp, st if st == "ok" else type(val).__name__)
    if form == "invalid":
        ctx.probe("collectors_invalid")
        ctx.check(st == "exc" and isinstance(val, AttributeError), "invalid-collectors",
                  f"collectors={coll!r}: {'returned' if st == 'ok' else type(val).__name__}")
        ctx.check(not W.LEDGER, "invalid-collectors-ran", "models were executed before the argument was rejected")
        return {"comp": None}
    if fail is not None:
        # does the injected failure actually fire?
        k = fail["k"]
        sig = E[k]
        fires = True
        if fail["where"] == "system":
            lim = W.stop_at_of(sig)
            if sc["max_ts"] is not None:
                lim = min(lim, sc["max_ts"])
            fire_t = min(fail.get("t", 0), max(0, W.stop_at_of(sig) - 1))
            fires = fire_t < lim
        elif fail["where"] == "after_complete":
            fires = sc["max_ts"] is None or sc["max_ts"] > W.stop_at_of(sig)       # the model reaches its own completion
            if fires:
                ctx.probe("failure_right_after_complete")
        if fires:
            ctx.fault("pool.fail")
            ctx.probe("fail_first" if k == 0 else ("fail_last" if k == len(E) - 1 else "fail_middle"))
            ctx.check(st == "exc", "error-dropped",
                      f"execution #{k} ({sig}) raised {fail.get('exc', 'BatchFailure')} in {fail['where']} with "
                      f"processes={sc['processes']} but batch_run returned normally")
            import ECAgent.Core as _core
            want_exc = W.FAIL_EXC.get(fail.get("exc", "BatchFailure")) or getattr(_core, fail.get("exc", ""), None) or \
                getattr(W, fail.get("exc", ""), W.BatchFailure)
            if want_exc is StopIteration:
                # a StopIteration cannot travel through an iterator protocol as an error; the documented way out is the
                # PEP 479 conversion, so a RuntimeError reaching the caller counts as "the error reached the caller"
                want_exc = (StopIteration, RuntimeError)
            ctx.check(isinstance(val, want_exc), "error-replaced",
                      f"execution raised {fail.get('exc', 'BatchFailure')}, caller saw {type(val).__name__}: {val}")
            ctx.probe("fail_exc_" + fail.get("exc", "BatchFailure"))
            # ... and a failed execution is not quietly tried again: nothing is executed more often than product x repetitions says
            from collections import Counter as _C
            built, planned = _C(e_["sig"] for e_ in W.LEDGER), _C(E)
            over = {s_: n_ for s_, n_ in built.items() if n_ > planned.get(s_, 0)}
            ctx.check(not over, "executed-more-than-once",
                      lambda: f"models built {dict(over)} times, planned {[planned.get(s_, 0) for s_ in over]} (failing execution #{k}: {sig})")
            return {"comp": comp, "failed": True}
    lack = sc.get("lacking") if fail is None else None
    if lack and form not in ("none",) and lack["name"] in sc["collectors"]["names"] and any(W.lacks(s_, lack) for s_ in E) and \
            (sc["max_ts"] is None or True):
        ctx.probe("requested_collector_missing_in_some_executions")
        ctx.fault("pool.fail")
        ctx.check(st == "exc", "error-dropped",
                  lambda: f"the executions {[s_ for s_ in E if W.lacks(s_, lack)][:3]} have no collector {lack['name']!r}, which was "
                          f"requested ({sc['collectors']['names']}); batch_run returned normally: {repr(val)[:300]}")
        return {"comp": comp, "failed": True}
    if st != "ok":
        ctx.fail("batch:unexpected-exception", f"{type(val).__name__}: {val}")
    check_ledger(ctx, sc, E)
    if batches:
        ctx.fault("pool.pickle", batches[0]["tasks"])
        b = batches[0]
        if b["workers"] >= 2 and b["completion"] != sorted(b["completion"]):
            ctx.fault("pool.reorder")
            ctx.probe("completion_reordered")
        if b["workers_used"] == 1 and b["tasks"] > 1:
            ctx.probe("all_results_from_one_worker")
    if form == "none":
        ctx.probe("collectors_none")
        ctx.check(val == [], "collectors-none-result", f"expected [], got {val!r}")
        return {"comp": comp}
    ctx.check(isinstance(val, list), "result-type", f"{type(val).__name__}")
    if form != "str" and not sc["collectors"]["names"]:
        ctx.probe("collectors_empty_list")
    if form == "iter":
        ctx.probe("collectors_one_shot_iterator")
    want = [expected_result(s, sc) for s in E]
    got_n = sorted((norm(x) for x in val), key=repr)
    want_n = sorted((norm(x) for x in want), key=repr)
    ctx.check(len(val) == len(E), "result-count", f"{len(val)} results for {len(E)} executions")
    # every returned entry is one execution's own records, unmixed
    wset = set(want_n)
    for x in got_n:
        ctx.check(x in wset, "mixed-or-invented-result", lambda: f"returned entry matches no execution: {x!r:.300}")
    ctx.check(got_n == want_n, "lost-or-duplicated-result", lambda: "multiset of results differs from the reference")
    if sc["processes"] == 1:
        ctx.probe("serial_order_checked")
        product_major = [norm(x) for x in want]
        combo_major = [norm(expected_result(W.sig_of(c), sc)) for c in combos for _ in range(reps)]
        got = [norm(x) for x in val]
        ctx.check(got == product_major or got == combo_major, "serial-order",
                  "with one process the results do not follow product order")
    return {"comp": comp}


def execute(sc, ctx):
    params, combos, coll = build_args(sc)
    reps = int(sc["reps"])
    n = len(combos) * reps
    if n == 0 or n > 64:
        return
    if sc["max_ts"] == 0:
        ctx.probe("max_ts_zero")
    if sc.get("sibling"):
        ctx.probe("sibling_parameterlist_edited")
    if sc.get("shadow_timestep") is not None:
        ctx.probe("model_with_own_timestep_attribute")
    if sc["via"] == "plist":
        ctx.probe("parameterlist_input")
        if sc.get("prebuild"):
            ctx.probe("parameterlist_reused_" + sc["prebuild"])
    if len(combos) == 1 and reps > 1:
        ctx.probe("reps_single_combination")
    if sc["max_ts"] is not None:
        stops = {W.sig_of(c): None for c in combos}
        W.reset({"base_stop": sc["base_stop"], "spread": sc["spread"]})
        st = [W.stop_at_of(s) for s in stops]
        if any(sc["max_ts"] == s for s in st):
            ctx.probe("max_ts_at_completion")
        if any(sc["max_ts"] < s for s in st):
            ctx.probe("max_ts_below_completion")
    fail = sc.get("fail")
    shape = {"grid": [len(as_list(s)) for _, s in sc["grid"]], "reps": reps, "p": sc["processes"],
             "coll": sc["collectors"]["form"], "fail": None}
    if fail is None:
        info = one_batch(ctx, sc, None, "batch")
        sec = sc.get("second")
        if sec and sc["collectors"]["form"] != "invalid":
            sc2 = dict(sc)
            sc2.update({"reps": sec["reps"], "processes": sec["processes"], "max_ts": sec["max_ts"],
                        "collectors": sec["collectors"]})
            if sec.get("reverse"):
                sc2["grid"] = [[n_, ({"kind": s_["kind"], "v": list(reversed(s_["v"]))} if s_["kind"] in ("list", "tuple") else s_)]
                               for n_, s_ in sc["grid"]][::-1]
            if len(as_list_total(sc2)) * sec["reps"] <= 64:
                one_batch(ctx, sc2, None, "second-batch")
                ctx.probe("second_batch_same_process")
    elif fail["k"] == "all":
        info = {}
        for k in range(n):
            info = one_batch(ctx, sc, {"k": k, "where": fail["where"], "t": fail.get("t", 0), "exc": fail.get("exc", "BatchFailure")},
                             f"batch-fail-{k}")
        shape["fail"] = ["all", fail["where"]]
    else:
        info = one_batch(ctx, sc, {"k": int(fail["k"]) % n, "where": fail["where"], "t": fail.get("t", 0),
                                   "exc": fail.get("exc", "BatchFailure")}, "batch-fail")
        shape["fail"] = [int(fail["k"]) % n, fail["where"]]
    ctx.sim_time += sum(len(e["ticks"]) for e in W.LEDGER)
    comp = info.get("comp")
    shape["comp"] = comp
    reordered = comp is not None and sc["processes"] >= 2 and comp != sorted(comp)
    if comp is not None and sc["processes"] >= 2:
        durs = sc["pool"]["durations"]
        if len(set(durs)) < len(durs):
            ctx.probe("tie_in_finish_times")
    ctx.nontrivial = bool(reordered or (fail is not None and sc["collectors"]["form"] != "invalid"))
    ctx.sig = shape
    ctx.state([shape["grid"], reps, sc["processes"], shape["coll"]])


# ------------------------------------------------------------------------------------------------
# Real-pool arm: the same scenarios through the genuine multiprocessing.Pool, durations perturbed by
# seed-derived micro-sleeps. Interleaving is NOT controlled; oracles are schedule-independent.

def _real_one(sc):
    from simkit.core import Ctx, Violation
    ctx = Ctx(keep_trace=False)
    params, combos, coll = build_args(sc)
    reps = int(sc["reps"])
    E = [W.sig_of(c) for c in combos] * reps
    W.reset({"base_stop": sc["base_stop"], "spread": sc["spread"], "fail": None, "collectors_defined": COLLECTORS,
             "sleep_us": 900})
    kwargs = {"collectors": coll, "processes": max(2, sc["processes"]), "repetitions": reps}
    if sc["max_ts"] is not None:
        kwargs["max_timesteps"] = sc["max_ts"]
    val = B.batch_run(W.BatchModel, params, **kwargs)
    try:
        if sc["collectors"]["form"] == "none":
            ctx.check(val == [], "collectors-none-result", f"{val!r}")
        else:
            want = sorted((norm(expected_result(s, sc)) for s in E), key=repr)
            got = sorted((norm(x) for x in val), key=repr)
            ctx.check(got == want, "real-pool:lost-duplicated-or-mixed", f"{len(val)} results for {len(E)} executions")
            # the program's state changes (other completion times) and the batch is repeated with the SAME process count: the
            # executions must be built from the state of THIS call, not from whatever an earlier call's workers remember
            sc2 = dict(sc, base_stop=sc["base_stop"] + 2)
            params2, _, coll2 = build_args(sc)          # (fresh argument objects: a one-shot collectors iterable is used up;
            W.reset({"base_stop": sc2["base_stop"], "spread": sc["spread"], "fail": None, "collectors_defined": COLLECTORS,
                     "sleep_us": 300})                  # built first: a scenario's "used before" prelude sets the state itself)
            val2 = B.batch_run(W.BatchModel, params2, **dict(kwargs, collectors=coll2))
            want2 = sorted((norm(expected_result(s, sc2)) for s in E), key=repr)
            got2 = sorted((norm(x) for x in val2), key=repr)
            ctx.check(got2 == want2, "real-pool:stale-worker-state",
                      "a second parallel batch in the same process (same process count, changed program state) returned records "
                      "of the earlier state")
    except Violation as v:
        return {"kind": v.kind, "detail": v.detail, "scenario": sc}
    return None


def _real_failing_batch(i, procs=16, execs=40, pad=2_000_000, limit_s=180):
    """One failing execution among `execs` whose results are several MB each, through the genuine pool, in a child
    process under a watchdog: the error must come out of batch_run. (Interleaving not controlled: this arm only confirms
    that the simulator's terminate-while-busy fault is something the real pool does.)"""
    import os
    import select
    import signal
    import time
    r, w = os.pipe()
    pid = os.fork()
    if pid == 0:
        try:
            os.setsid()
            os.close(r)
            combos = list(range(execs))
            bad = W.sig_of({"p0": combos[(7 * i + 5) % execs]})
            W.reset({"base_stop": 2, "spread": 1, "collectors_defined": COLLECTORS, "pad": pad,
                     "fail": {"sig": bad, "where": "system", "t": 1, "exc": "BatchFailure"}})
            try:
                B.batch_run(W.BatchModel, {"p0": combos}, "col0", processes=procs)
                out = "returned"
            except W.BatchFailure:
                out = "raised"
            except BaseException as e:   # noqa
                out = "other:" + type(e).__name__
            os.write(w, out.encode())
        finally:
            os._exit(0)
    os.close(w)
    t0 = time.time()
    ready, _, _ = select.select([r], [], [], limit_s)
    out = os.read(r, 200).decode() if ready else ""
    os.close(r)
    try:
        os.killpg(pid, signal.SIGKILL)      # the child and whatever workers it left behind
    except OSError:
        pass
    os.waitpid(pid, 0)
    return out, round(time.time() - t0, 2)


def post_batch(tier, seed):
    import random
    import time
    from simkit.core import run_seed
    n = 2 if tier == "quick" else 150
    t0 = time.time()
    done = 0
    fb = []
    for i in range(2 if tier == "quick" else 6):
        out, wall = _real_failing_batch(i)
        fb.append([out or "no answer", wall])
        if out != "raised":
            what = ("batch_run did not return within 180 s (hang)" if not out else
                    "batch_run returned normally" if out == "returned" else f"the caller saw {out[6:]}")
            return {"violation": {"arm": "real multiprocessing.Pool (schedule not controlled; replay = re-run, best effort)",
                                  "kind": "real-pool:error-never-reached-the-caller",
                                  "detail": f"40 executions with 4-6 MB of records each, processes=16, one execution raises "
                                            f"BatchFailure at t=1: {what}",
                                  "scenario": {"real_failing_batch": i}}}
    for i in range(n):
        rng = random.Random(run_seed(seed, "C15-real", i))
        sc = generate(rng, tier)
        sc["fail"] = None
        if sc["collectors"]["form"] == "invalid":
            continue
        v = _real_one(sc)
        done += 1
        if v is not None:
            return {"violation": {"arm": "real multiprocessing.Pool (schedule not controlled; replay = re-run, best effort)",
                                  **v}}
    from . import startmethod
    sm = startmethod.run(tier, seed, "batch")
    if "violation" in sm:
        return sm
    return {"evidence": {"real_pool_arm": {"batches": done, "failing_batches_large_results": fb, "wall_s": round(time.time() - t0, 2),
                                           "note": "real multiprocessing.Pool, fork workers, micro-sleeps; schedule not "
                                                   "controlled; record oracles only (no ledger across processes)"},
                         **sm["evidence"]}}
