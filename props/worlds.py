"""Shared world construction and the arithmetic reference for the spatial properties (C03, C04, C08, C12).

Continuous coordinates are dyadic rationals k/8 (stored in scenarios as the integer numerator with
"den": 8), for which +, min/max, abs and Python's float % are exact: "exactly" in the statements can
be checked with == and rounding cannot raise a false alarm. Grid worlds get integers (den 1)."""
from ECAgent.Core import Agent, Component, Environment
from ECAgent.Environments import DiscreteWorld, GridWorld, LineWorld, PositionComponent, SpaceWorld  # noqa: F401

KINDS = ["plain", "space", "discrete", "line", "grid"]


class Note(Component):
    pass


class HomePosition(PositionComponent):
    """Another location kept by the agent (components are keyed by their exact class: this is not the agent's position)."""


class SlotAgent(Agent):
    """An agent class that declares __slots__ (the idiom of the package's own classes): its instances have no __dict__."""
    __slots__ = ()


class OwnAttrAgent(Agent):
    """An agent class keeping state of its own under everyday attribute names, on the class and on the instance."""
    alive = False
    active = False
    index = 0

    def __init__(self, *a, **k):
        super().__init__(*a, **k)
        self.x, self.y, self.z, self.pos, self.position = -1, -1, -1, None, None
        self.env, self.world, self.owner, self.cell, self.removed, self.registered, self.pooled = None, None, None, None, True, False, False


def agent_class(what):
    parts = what.split("+") if isinstance(what, str) else ()
    return SlotAgent if "slotted" in parts else OwnAttrAgent if "ownattrs" in parts else Agent


def gen_extras(rng, n, coord):
    """What some agents bring along before they are placed: components of their own - among them a SUBCLASS of
    PositionComponent holding some other location - or being an environment themselves. coord(ax) draws a numerator."""
    extras = []
    if rng.random() < 0.3:
        for k in range(n):
            if rng.random() < 0.5:
                extras.append({"k": k, "what": rng.choice(["home", "home", "note", "note+home", "home+note", "env", "env+home", "slotted",
                                                           "slotted+home", "ownattrs", "ownattrs+note"]),
                               "h": [coord(ax) for ax in range(3)]})
    return extras


def make_agents(model, n, extras, ref, ctx):
    is_env = {ex["k"] % max(n, 1) for ex in extras if "env" in ex["what"].split("+")}
    kinds = {}
    for ex in extras:
        kinds.setdefault(ex["k"] % max(n, 1), ex["what"])
    agents = [Environment(model, id=f"a{i}") if i in is_env else agent_class(kinds.get(i))(f"a{i}", model) for i in range(max(n, 1))]
    if any(type(a_) in (SlotAgent, OwnAttrAgent) for a_ in agents):
        ctx.probe("agent_class_slotted_or_with_own_attributes")
    if is_env:
        ctx.probe("agent_is_an_environment")
    for ex in extras:
        a_ = agents[ex["k"] % len(agents)]
        for what in ex["what"].split("+"):
            if what == "note" and Note not in a_.components:
                a_.add_component(Note(a_, model))
            elif what == "home" and HomePosition not in a_.components:
                h = ref.real([int(c) for c in ex["h"]])
                a_.add_component(HomePosition(a_, model, h[0], h[1], h[2]))
                ctx.probe("agent_with_position_subclass_component")
    return agents


def gen_world(rng, kinds=("space", "discrete", "line", "grid"), max_cells=48, subunit=0.0):
    w_ = _gen_world(rng, kinds, max_cells, subunit)
    if w_["kind"] != "plain":
        w_["wrap_as"] = rng.choice(["bool"] * 5 + ["loose"])
    return w_


def _gen_world(rng, kinds, max_cells, subunit):
    kind = rng.choice(kinds)
    wrap = rng.random() < 0.45
    if kind == "plain":
        return {"kind": "plain"}
    if kind == "space":
        den = 8

        def ext():
            if rng.random() < subunit:
                return rng.choice([2, 4, 6, 7])      # an extent strictly between 0 and 1 (only where the statement allows it)
            return 0 if rng.random() < 0.25 else rng.choice([8, 8 * rng.randint(1, 9), rng.randint(8, 80)])
        w, h, d = ext(), ext(), ext()
        if rng.random() < 0.8 and w == h:
            w = w + 8 if w else 16     # non-cubic by construction in most runs
        return {"kind": kind, "w": w, "h": h, "d": d, "den": den, "wrap": wrap}
    if kind == "line":
        return {"kind": kind, "w": rng.randint(1, 9), "h": 0, "d": 0, "den": 1, "wrap": wrap}
    if kind == "grid":
        w, h = rng.randint(1, 7), rng.randint(1, 6)
        if w == h and rng.random() < 0.8:
            w += 1
        return {"kind": kind, "w": w, "h": h, "d": 0, "den": 1, "wrap": wrap}
    while True:
        w, h, d = (rng.choice([0, 1, 2, 3, 4, 5]) for _ in range(3))
        if max(w, 1) * max(h, 1) * max(d, 1) <= max_cells:
            return {"kind": kind, "w": w, "h": h, "d": d, "den": 1, "wrap": wrap}


def val(k, den):
    return k / den if den != 1 else k


def make_world(model, spec, set_env=True):
    kind = spec["kind"]
    if kind == "plain":
        env = Environment(model)
    else:
        den = spec["den"]
        w, h, d = val(spec["w"], den), val(spec["h"], den), val(spec["d"], den)
        if kind != "space":
            w, h, d = int(spec["w"] // den), int(spec["h"] // den), int(spec["d"] // den)      # cell counts are whole numbers
        wrap = bool(spec["wrap"])
        if spec.get("wrap_as") == "loose":
            wrap = 1 if wrap else None          # the flag is annotated Optional[bool]: None means "not toroidal", 1 is as true as True
        if kind == "space":
            env = SpaceWorld(model, w, h, d, wrap_env=wrap)
        elif kind == "discrete":
            env = DiscreteWorld(model, w, h, d, wrap_env=wrap)
        elif kind == "line":
            env = LineWorld(model, w, wrap_env=wrap)
        else:
            env = GridWorld(model, w, h, wrap_env=wrap)
    if set_env and spec.get("attached", True):
        model.environment = env     # otherwise the model keeps its default void Environment and the world is a second layer
    return env


class RefWorld:
    """Arithmetic reference in numerator space (all coordinates are integers over a common denominator)."""

    def __init__(self, spec):
        self.spec = spec
        self.spatial = spec["kind"] != "plain"
        if self.spatial:
            self.ext = [spec["w"], spec["h"], spec["d"]]
            self.den = spec["den"]
            self.off = 0 if spec["kind"] == "space" else self.den     # inclusive-edge offset: extent (cont.) / extent-1 (grid)
            self.wrap = bool(spec["wrap"])

    def hi(self, ax):
        return self.ext[ax] - self.off

    def positive(self, ax):
        return self.ext[ax] > 0

    def inside(self, p):
        return all((not self.positive(ax)) or 0 <= p[ax] <= self.hi(ax) for ax in range(3))

    def move(self, p, d):
        out = list(p)
        for ax in range(3):
            if not self.positive(ax):
                out[ax] = None      # zero-extent axis: outside the statement, not compared
                continue
            if self.wrap:
                out[ax] = (p[ax] + d[ax]) % self.ext[ax]
            else:
                out[ax] = min(max(p[ax] + d[ax], 0), self.hi(ax))
        return out

    def dist(self, a, p, ax):
        d = abs(a - p)
        if self.wrap and self.positive(ax):
            d %= self.ext[ax]
            d = min(d, self.ext[ax] - d)
        return d

    def real(self, p):
        return tuple(val(c, self.den) for c in p)


def gen_coord(rng, ref, ax, far=10 ** 6):
    """A coordinate numerator: in range, on a boundary, one unit beyond, or far out."""
    e, den = ref.ext[ax], ref.den
    hi = max(ref.hi(ax), 0)
    r = rng.random()
    if r < 0.5:
        return rng.randint(0, hi) if hi else 0
    if r < 0.62:
        return hi
    if r < 0.7:
        return 0
    if r < 0.78:
        return hi + rng.choice([1, den])
    if r < 0.86:
        return -rng.choice([1, den])
    if r < 0.93:
        return e     # exactly the extent (inside for continuous, one beyond for grids)
    return rng.choice([-1, 1]) * rng.randint(2, far) * (den if rng.random() < 0.5 else 1)


def gen_delta(rng, ref, ax, far=10 ** 6):
    e, den = ref.ext[ax], ref.den
    r = rng.random()
    if r < 0.45:
        return rng.randint(-3, 3) * den if den == 1 or rng.random() < 0.5 else rng.randint(-24, 24)
    if r < 0.6:
        return rng.choice([-1, 1]) * e
    if r < 0.75:
        return rng.choice([-1, 1]) * (e * rng.randint(2, 5) + rng.randint(0, max(e, 1)))   # multi-lap
    if r < 0.85:
        return 0
    return rng.choice([-1, 1]) * rng.randint(1, far) * (den if rng.random() < 0.7 else 1)


def get_pos(agent):
    pc = agent[PositionComponent]
    if pc is None:
        return None
    nan = float("nan")      # a position component that has lost a coordinate attribute reads as "nowhere" (never equal, never inside)
    return (getattr(pc, "x", nan), getattr(pc, "y", nan), getattr(pc, "z", nan))
