"""C17 - collectors record faithfully: nothing invented, altered, lost or duplicated.

Agent arm: the population changes on a seeded schedule during timesteps (mutator systems above and
below the collector add / remove agents and change values) and between them; the reference replays
the schedule in priority order. File arm: the disk is simulated (simkit.simdisk): every
open/write/close is an event, the run is stopped after every timestep and - crash.midflush - inside
flushes, and only durable content survives."""
import types

import numpy          # (loaded once in the worker: forked runs must not import it each)
import copy
import os
import tempfile

import ECAgent.Collectors as COL
from ECAgent.Core import Agent, Component, Model, System

from simkit.simdisk import SimCrash, SimDisk
from .common import RefSched

PROPERTY = "C17"
QUICK_RUNS = 20000
CHUNK = 250
RULE = ("agent arm: 0-6 initial agents, 1-3 mutator systems at priorities above/below/equal to the collector that add / "
        "remove agents or change values at scripted timesteps (plus changes between steps), 1-2 AgentCollectors with "
        "windows, default or explicit priority, per-agent function returning values or None by rule, optional composite "
        "function, timestep on/off; file arm: 1-2 FileCollectors (append mode) with write_count 0..6, windows, 0-3 unique "
        "records per collection, simulated disk with random buffer size and pre-existing content, a crash inside a flush "
        "in ~25% of runs, real temporary files in ~10%; non-trivial = population changed inside >=1 timestep before the "
        "collector's turn (agent arm) / >=2 complete flush cycles with write_count>=1 and >=1 empty collection (file "
        "arm); distinct = abstract schedule shape"
        "; also: composite function that keeps and updates ONE dict, empty-string records, environment object replaced between timesteps, systems removed next to the collector, stress runs with large write_count; rare switch for known finding F7, per-agent / composite functions given as falsy callable objects, a model class with its own `timestep` attribute, file collectors whose collect() returns a value or that override write_records(), append mode spelled 'at' / 'a+' / 'ta'")
COMPONENTS = {"real": ["ECAgent.Collectors.AgentCollector.collect", "FileCollector.execute/write_records", "Collector",
                       "ECAgent.Core scheduler and Environment", "builtins.open + OS (real-file runs only)"],
              "stub": ["open() as seen by ECAgent.Collectors -> simkit.simdisk.SimDisk (durable at flush/close/buffer "
                       "overflow/finalisation; crash drops buffers)", "mutator systems and collect() bodies are harness code"]}
PROBES = ["empty_record_suppressed", "collector_off_window", "removed_by_higher_priority_same_step",
          "added_by_higher_priority_same_step", "changed_after_collector_turn", "composite_used", "value_zero_recorded",
          "crash_at_flush_boundary", "crash_mid_flush", "real_file", "composite_shared_dict", "empty_string_record", "environment_replaced", "system_removed_next_to_collector", "empty_collection", "empty_flush",
          "preexisting_content", "two_file_collectors", "buffer_overflow_mid_flush", "falsy_callable_objects_as_functions", "model_with_own_timestep_attribute", "collect_returns_a_value", "write_records_overridden_by_the_user", "composite_result_not_a_dict", "stateful_per_agent_function", "composite_summarises_the_per_agent_pass", "copy_of_the_running_model_discarded", "stopped_model_discarded_and_collected"]
TECHNIQUE = "deterministic simulation: population changing on a seeded schedule inside timesteps vs a replaying reference; simulated disk with crash points and the conservation invariant file + held = collected"
LEVEL_TEXT = ("Seeded search over population-change schedules, collector windows and disk behaviour; after every timestep the "
              "records equal the reference's and earlier records are untouched; for the file collector, after every disk event "
              "the durable text is a prefix of the collected text, after every timestep it is the whole-flush prefix and "
              "durable + held = collected. Sampling, not proof; horizon <=40.")
LEVEL_NOTE = ("Trusted: SimDisk's process-crash model (cross-checked by the real-file runs); only append mode with "
              "clear_records_on_write=True is covered, as in the statement; I/O errors are not injected (the statement does "
              "not say what must hold after a failed write).")
SHRINK_LISTS = ["mutators", "collectors", "between", "agents0"]
SHRINK_SKIP = ("end",)
MAXSIZE = 2 ** 63 - 1


class Val(Component):
    def __init__(self, agent, model, v):
        super().__init__(agent, model)
        self.v = v


# ----------------------------------------------------------------------------------------------------- generation

def gen_window(rng, horizon):
    if rng.random() < 0.55:
        return {"start": 0, "end": MAXSIZE, "freq": 1}
    start = rng.choice([0, 1, 2, rng.randint(0, max(1, horizon // 2))])
    end = rng.choice([MAXSIZE, MAXSIZE, start + rng.randint(0, horizon)])
    return {"start": start, "end": end, "freq": rng.choice([1, 2, 2, 3, 4])}


def gen_agent_arm(rng, tier):
    steps = rng.randint(2, 40 if tier == "thorough" else 16)
    agents0 = [{"id": f"a{i}", "v": rng.randint(-3, 5)} for i in range(rng.randint(0, 6))]
    if rng.random() < 0.02:
        agents0.append({"id": "timestep", "v": rng.randint(1, 5)})      # trigger of known finding F7 (rare on purpose)
    fresh = [0]

    def script(n):
        out = []
        for _ in range(n):
            r = rng.random()
            t = rng.randint(0, steps - 1)
            if r < 0.4:
                out.append({"t": t, "op": "add", "id": f"b{fresh[0]}", "v": rng.randint(-3, 5)})
                fresh[0] += 1
            elif r < 0.7:
                out.append({"t": t, "op": "remove", "k": rng.randrange(8)})
            elif r < 0.93:
                out.append({"t": t, "op": "set", "k": rng.randrange(8), "v": rng.randint(-3, 5)})
            else:
                out.append({"t": t, "op": "drop_system", "k": rng.randrange(3)})   # a mutator system is removed
        return out
    mutators = [{"id": f"m{i}", "prio": rng.choice([3, 1, 0, 0, -1, -1, -2, -5]), "script": script(rng.randint(1, 6))}
                for i in range(rng.randint(1, 3))]
    collectors = []
    for i in range(rng.choice([1, 1, 2])):
        c = {"id": "AgentCollector" if i == 0 and rng.random() < 0.5 else f"col{i}",
             "prio": rng.choice([None, None, None, 2, 0, -1, -3]),
             "func": rng.choice(["value", "value", "none_for_neg", "always_none", "listed", "even_only", "count_calls", "vector"]),
             "composite": rng.choice([None, None, "dict", "empty", "none", "shared", "shared", "proxy", "pairs", "tally"]), "ts": rng.random() < 0.4}
        c.update(gen_window(rng, steps))
        collectors.append(c)
    between = script(rng.randint(0, 3))
    if rng.random() < 0.25:
        between.append({"t": rng.randint(0, steps - 1), "op": "swap_env"})
    return {"arm": "agent", "agents0": agents0, "mutators": mutators, "collectors": collectors,
            "between": between, "steps": steps, "order": rng.choice(["mc", "cm", "mix"])}


def gen_file_arm(rng, tier):
    steps = rng.randint(3, 40 if tier == "thorough" else 24)
    cols = []
    for i in range(rng.choice([1, 1, 1, 2])):
        c = {"id": f"fc{i}", "file": f"out{i}.txt", "write_count": rng.choice([0, 0, 1, 1, 2, 3, 4, 6]),
             "prio": rng.choice([None, None, 0, -2]), "counts": [rng.choice([0, 1, 1, 2, 3]) for _ in range(rng.randint(1, 6))],
             "empties": rng.choice([0, 0, 0, 2, 3]),
             "pre": rng.choice(["", "", "", "OLD;"])}
        c.update(gen_window(rng, steps))
        cols.append(c)
    if rng.random() < 0.05:   # stress: long runs, large flush thresholds, many held records
        steps = rng.randint(60, 140)
        for c in cols:
            c["write_count"] = rng.randint(10, 40)
            c["counts"] = [rng.choice([1, 2, 3, 4]) for _ in range(rng.randint(1, 4))]
            c.update({"start": 0, "end": MAXSIZE, "freq": 1})
    crash = None
    if rng.random() < 0.25:
        crash = rng.randint(1, 60 if steps < 60 else 600)
    return {"arm": "file", "collectors": cols, "steps": steps, "bufsize": rng.choice([0, 0, 3, 7, 8192, 8192]),
            "crash_event": crash, "real_file": crash is None and rng.random() < 0.12}


def generate(rng, tier):
    sc = gen_agent_arm(rng, tier) if rng.random() < 0.5 else gen_file_arm(rng, tier)
    if sc["arm"] == "agent":
        sc["falsy_callables"] = rng.random() < 0.15     # the per-agent / composite functions are falsy callable objects
    sc["shadow_timestep"] = rng.choice([None, None, None, None, 0.25, 2.0, 7])     # the model's own `timestep` attribute
    if sc["arm"] == "file":
        for c_ in sc["collectors"]:
            c_["returns"] = rng.random() < 0.15
            c_["own_writer"] = rng.random() < 0.2
            c_["filemode"] = rng.choice(["a", "a", "a", "a", "at", "a+", "ta"])      # every spelling open() takes as "append"
        # object lifetime: a checkpoint copy of the running model is made and thrown away at some timestep; and when the
        # run is over the model itself is dropped and the garbage collector runs - neither touches the file
        sc["discard_copy_at"] = rng.randint(0, max(0, sc["steps"] - 1)) if rng.random() < 0.3 else None
        sc["discard_at_end"] = rng.random() < 0.5
    return sc


# ----------------------------------------------------------------------------------------------------- agent arm

FUNCS = {
    "value": lambda v: v,
    "none_for_neg": lambda v: None if v < 0 else v,
    "always_none": lambda v: None,
    "listed": lambda v: [v, v * 2],
    # a vector per agent (numpy array; None for an agent at rest): arrays have no truth value and compare element-wise
    "vector": lambda v: None if v % 3 == 0 else __import__("numpy").array([v, v + 1, -v]),
    "even_only": lambda v: v if v % 2 == 0 else None,
    # "count_calls" is stateful (see run_agent_arm): the value and how often THIS collector has asked about the agent so far
    "count_calls": lambda v: [v, "n"],
}


def _plain(x):
    """Records with arrays inside, made comparable with == (an array compares element-wise and has no truth value)."""
    import numpy
    if isinstance(x, numpy.ndarray):
        return ("ndarray", x.dtype.str, x.tolist())
    if isinstance(x, (dict, types.MappingProxyType)):
        return {k: _plain(v) for k, v in x.items()}
    if isinstance(x, (list, tuple)):
        return type(x)(_plain(v) for v in x)
    return x


class FalsyCall:
    """A callable object that is falsy (a functor with a container protocol of its own - e.g. a history that is still empty)."""

    def __init__(self, fn, how):
        self.fn, self.how = fn, how

    def __call__(self, *args):
        return self.fn(*args)

    def __len__(self):
        return 0

    def __bool__(self):
        return False


def make_tally(inner):
    """One pass over the agents: the per-agent function keeps a running tally while it is asked about each agent, the
    composite function then reports (and clears) the tally of this collection."""
    tally = [0, 0]

    def afn(a):
        tally[0] += a[Val].v
        tally[1] += 1
        return inner(a)

    def comp(agents):
        d_ = {"#total": tally[0], "#n": tally[1]}
        tally[0] = tally[1] = 0
        return d_
    return afn, comp


def composite_ref(kind, pop):
    if kind in ("dict", "shared", "proxy", "pairs", "tally"):
        return {"#total": sum(pop.values()), "#n": len(pop)}
    if kind == "empty":
        return {}
    return None


class Mutator(System):
    def __init__(self, spec, model, world):
        super().__init__(spec["id"], model, priority=spec["prio"])
        self.spec, self.world = spec, world

    def execute(self):
        t = self.model.systems.timestep
        for act in self.spec["script"]:
            if act["t"] == t:
                self.world.apply_real(act)


class AgentWorld:
    def __init__(self, model, ctx):
        self.model, self.ctx = model, ctx
        self.mutator_ids = []

    def apply_real(self, act):
        env = self.model.environment
        ids = list(env.agents)
        if act["op"] == "drop_system":
            ids = [sid for sid in self.mutator_ids if self.model.systems[sid] is not None]
            if ids:
                self.model.systems.remove_system(ids[act["k"] % len(ids)])
                self.ctx.probe("system_removed_next_to_collector")
            return
        if act["op"] == "swap_env":
            # the model gets a NEW environment object holding the same agents (Model.set_environment)
            from ECAgent.Core import Environment
            new = Environment(self.model)
            for aid in ids:
                a = env.agents[aid]
                env.remove_agent(aid)
                new.add_agent(a)
            self.model.set_environment(new)
            self.ctx.probe("environment_replaced")
            return
        if act["op"] == "add":
            if act["id"] in env.agents:
                return
            a = Agent(act["id"], self.model)
            a.add_component(Val(a, self.model, act["v"]))
            env.add_agent(a)
        elif act["op"] == "remove":
            if ids:
                env.remove_agent(ids[act["k"] % len(ids)])
        elif act["op"] == "set":
            if ids:
                env.agents[ids[act["k"] % len(ids)]][Val].v = act["v"]


def apply_ref(pop, act):
    ids = list(pop)
    if act["op"] in ("drop_system", "swap_env"):
        return None
    if act["op"] == "add":
        if act["id"] not in pop:
            pop[act["id"]] = act["v"]
            return "add"
    elif act["op"] == "remove":
        if ids:
            del pop[ids[act["k"] % len(ids)]]
            return "remove"
    elif act["op"] == "set":
        if ids:
            pop[ids[act["k"] % len(ids)]] = act["v"]
            return "set"
    return None


class UserModel(Model):
    """A model class of the user's own; it may keep an attribute called `timestep` (a step length, say)."""


def make_model(sc, ctx):
    m = UserModel(seed=20260927)
    if sc.get("shadow_timestep") is not None:
        m.timestep = sc["shadow_timestep"]
        ctx.probe("model_with_own_timestep_attribute")
    return m


def run_agent_arm(sc, ctx):
    m = make_model(sc, ctx)
    w = AgentWorld(m, ctx)
    pop = {}
    for a in sc["agents0"]:
        if a["id"] in pop:
            continue
        w.apply_real({"op": "add", "id": a["id"], "v": a["v"]})
        pop[a["id"]] = a["v"]
    ref = RefSched()
    cols = {}
    specs = {}
    items = [("m", s) for s in sc["mutators"]] + [("c", s) for s in sc["collectors"]]
    if sc.get("order") == "cm":
        items = items[::-1]
    elif sc.get("order") == "mix":
        items = items[::2] + items[1::2]
    for kind, s in items:
        if s["id"] in specs:
            continue
        if kind == "m":
            obj = Mutator(s, m, w)
            w.mutator_ids.append(s["id"])
            rs = {"id": s["id"], "prio": s["prio"], "start": 0, "end": MAXSIZE, "freq": 1, "kind": "m"}
        else:
            if s["freq"] < 1:
                continue
            fn = FUNCS[s["func"]]
            kw = {"id": s["id"], "frequency": s["freq"], "start": s["start"], "end": s["end"]}
            if s["prio"] is not None:
                kw["priority"] = s["prio"]
            comp = None
            if s["composite"] is not None:
                kind_c = s["composite"]
                if kind_c == "shared":
                    # the user's function keeps ONE dict and updates it in place (running aggregates / reused buffer)
                    def comp(agents, buf={}):
                        buf.clear() if False else None
                        buf.update(composite_ref("dict", {k: a[Val].v for k, a in agents.items()}))
                        return buf
                    ctx.probe("composite_shared_dict")
                elif kind_c in ("proxy", "pairs"):
                    # the composite data comes as a read-only mapping / as key-value pairs: anything dict.update() accepts
                    def comp(agents, kind_c=kind_c):
                        d_ = composite_ref("dict", {k: a[Val].v for k, a in agents.items()})
                        return types.MappingProxyType(d_) if kind_c == "proxy" else list(d_.items())
                    ctx.probe("composite_result_not_a_dict")
                else:
                    comp = (lambda agents, kind_c=kind_c: composite_ref(kind_c, {k: a[Val].v for k, a in agents.items()}))
            afn = (lambda a, fn=fn: fn(a[Val].v))
            if s["func"] == "count_calls":
                # a per-agent function with a memory (a drained counter, an event queue): one collection asks it once per agent
                def afn(a, cnt={}):
                    cnt[a.id] = cnt.get(a.id, 0) + 1
                    return [a[Val].v, cnt[a.id]]
                ctx.probe("stateful_per_agent_function")
            if s["composite"] == "tally":
                afn, comp = make_tally(afn)
                ctx.probe("composite_summarises_the_per_agent_pass")
            if sc.get("falsy_callables"):
                ctx.probe("falsy_callable_objects_as_functions")
                afn = FalsyCall(afn, "agent")
                comp = FalsyCall(comp, "composite") if comp is not None else None
            obj = COL.AgentCollector(m, afn, compositeFunc=comp, includeTimstep=s["ts"], **kw)
            cols[s["id"]] = obj
            rs = {"id": s["id"], "prio": -1 if s["prio"] is None else s["prio"], "start": s["start"], "end": s["end"],
                  "freq": s["freq"], "kind": "c"}
        ctx.expect_ok("setup-add", m.systems.add_system, obj)
        ref.add(rs)
        specs[s["id"]] = s
    want = {cid: [] for cid in cols}
    refcnt = {}
    shape = []
    nontrivial = False
    for t in range(min(int(sc["steps"]), 60)):
        for act in sc["between"]:
            if act["t"] == t:
                if act["op"] == "drop_system":
                    live_m = [x["id"] for x in ref.q if x["kind"] == "m"]
                    # same choice rule as the real side: ids of still-registered mutators in registration order
                    order = [sid for sid in w.mutator_ids if sid in live_m]
                    if order:
                        ref.remove(order[act["k"] % len(order)])
                w.apply_real(act)
                apply_ref(pop, act)
        before = {cid: _plain(c.records) for cid, c in cols.items()}       # (a plain-data snapshot: records may hold objects deepcopy refuses)
        changed_in_step = []
        collected_in_step = False
        dropped_now = set()
        f7_expected = []
        for rs in list(ref.q):
            if rs["id"] in dropped_now:
                continue          # removed earlier in this very timestep: it does not run any more
            if not ref.eligible(rs, t):
                if rs["kind"] == "c":
                    ctx.probe("collector_off_window")
                continue
            if rs["kind"] == "m":
                for act in specs[rs["id"]]["script"]:
                    if act["t"] == t:
                        if act["op"] == "drop_system":
                            live_m = [x["id"] for x in ref.q if x["kind"] == "m" and x["id"] not in dropped_now]
                            order = [sid for sid in w.mutator_ids if sid in live_m]
                            if order:
                                dropped_now.add(order[act["k"] % len(order)])
                            continue
                        eff = apply_ref(pop, act)
                        if eff:
                            changed_in_step.append(eff)
                            if collected_in_step:
                                ctx.probe("changed_after_collector_turn")
            else:
                s = specs[rs["id"]]
                rec = {}
                if s["ts"]:
                    rec["timestep"] = t
                    if "timestep" in pop and FUNCS[s["func"]](pop["timestep"]) is not None:
                        # one flat dict cannot hold both the timestep and the result of an agent called 'timestep'
                        f7_expected.append((rs["id"], t))
                for aid, v in pop.items():
                    r = FUNCS[s["func"]](v)
                    if s["func"] == "count_calls":
                        asked = refcnt.setdefault(rs["id"], {})
                        asked[aid] = asked.get(aid, 0) + 1
                        r = [v, asked[aid]]
                    if r is not None:
                        rec[aid] = r
                        if isinstance(r, int) and r == 0:
                            ctx.probe("value_zero_recorded")
                if s["composite"] is not None:
                    ctx.probe("composite_used")
                    cr = composite_ref(s["composite"], pop)
                    if cr is not None:
                        rec.update(cr)
                if rec:
                    want[rs["id"]].append(rec)
                else:
                    ctx.probe("empty_record_suppressed")
                collected_in_step = True
                if changed_in_step:
                    nontrivial = True
                    if "remove" in changed_in_step:
                        ctx.probe("removed_by_higher_priority_same_step")
                    if "add" in changed_in_step:
                        ctx.probe("added_by_higher_priority_same_step")
                shape.append([len(pop), len(changed_in_step), len(rec)])
        for sid in dropped_now:
            ref.remove(sid)
        ctx.expect_ok("step", m.execute)
        ctx.sim_time += 1
        for cid_, t_ in f7_expected:
            ctx.fail("timestep-entry-lost", f"t={t_} {cid_}: the record cannot hold both the timestep and the result of the agent "
                                            f"whose id is 'timestep': {cols[cid_].records[-1:]}", finding="F7")
        for cid, c in cols.items():
            got = _plain(c.records)
            ctx.event("records", cid, t, len(got))
            ctx.check(got[:len(before[cid])] == _plain(before[cid]), "earlier-records-altered",
                      lambda: f"t={t} {cid}: {got[:len(before[cid])]} was {before[cid]}")
            ctx.check(got == _plain(want[cid]), "records",
                      lambda: f"t={t} {cid}: records {got[-2:]} (n={len(got)}) expected {want[cid][-2:]} (n={len(want[cid])})")
            ctx.check(len({id(r) for r in c.records}) == len(got), "shared-record-object", f"t={t} {cid}")
        ctx.check(list(m.environment.agents) == list(pop), "population", f"t={t}")
        ctx.state([len(pop), t % 3, [len(x) for x in want.values()]])
    ctx.nontrivial = nontrivial
    ctx.sig = ["agent", shape[:40]]


# ----------------------------------------------------------------------------------------------------- file arm

class RecFile(COL.FileCollector):
    def __init__(self, spec, model, world, filename):
        kw = {"frequency": spec["freq"], "start": spec["start"], "end": spec["end"], "filemode": spec.get("filemode", "a"),
              "write_count": spec["write_count"], "clear_records_on_write": True}
        if spec["prio"] is not None:
            kw["priority"] = spec["prio"]
        super().__init__(spec["id"], model, filename, **kw)
        self.spec, self.world = spec, world
        self.n_coll = 0
        self.n_rec = 0
        self.collected = []

    def collect(self):
        t = self.model.systems.timestep
        counts = self.spec["counts"] or [1]
        k = counts[self.n_coll % len(counts)]
        self.n_coll += 1
        every = int(self.spec.get("empties", 0) or 0)
        for j in range(k):
            self.n_rec += 1
            # every `empties`-th record is the empty string: a legal record that adds nothing to the text
            rec = "" if every and self.n_rec % every == 0 else f"{self.id}:{t}.{j};"
            if rec == "":
                self.world.ctx.probe("empty_string_record")
            self.records.append(rec)
            self.collected.append(rec)
        if k == 0:
            self.world.ctx.probe("empty_collection")
        if self.spec.get("returns"):
            # a user's collect() may hand something back (the line it just stored, a count ...): nobody asked for it
            self.world.ctx.probe("collect_returns_a_value")
            return rec if k else "nothing-collected;"


class RecFileOwnWriter(RecFile):
    """A file collector that describes itself how its records get into the file - write_records() overridden, as the class
    documentation invites, without calling the base implementation. Counting and clearing stay the collector's business."""

    def write_records(self):
        f = getattr(COL, "open", open)(self.filename, self.filemode)
        for record in self.records:
            f.write(record)
        f.close()


class FileWorld:
    def __init__(self, ctx):
        self.ctx = ctx


def run_file_arm(sc, ctx):
    box = {"tmpdir": None, "real": bool(sc.get("real_file")), "post": [], "disk": None}
    try:
        _file_arm(sc, ctx, box)          # every reference to the model and its collectors dies with this frame
        if box["post"] and sc.get("discard_at_end"):
            import gc
            gc.collect()
            ctx.fault("lifetime.model_discarded")
            ctx.probe("stopped_model_discarded_and_collected")
            for fn, want in box["post"]:
                now = _read_back(box, fn)
                ctx.check(now == want, "file-changed-after-the-run",
                          lambda: f"{fn!r}: the run was stopped with the file holding {want[-80:]!r} (a whole-flush prefix); after the "
                                  f"model was discarded and garbage-collected it holds {now[-80:]!r}")
    finally:
        if not box["real"] and "open" in COL.__dict__:
            del COL.open
        if box["tmpdir"]:
            import shutil
            shutil.rmtree(box["tmpdir"], ignore_errors=True)


def _read_back(box, fn):
    if box["real"]:
        if not os.path.exists(fn):
            return ""
        with open(fn) as f:
            return f.read()
    return box["disk"].durable(fn)


def _file_arm(sc, ctx, box):
    m = make_model(sc, ctx)
    w = FileWorld(ctx)
    real = box["real"]
    cols = []
    tmpdir = None
    state = {"in_flush": False}

    def prefix_invariant(disk, n, kind, name):
        # after every single disk event the durable text is a prefix of what was collected (never garbage,
        # reordered or duplicated)
        for c in cols:
            d = disk.durable(c.filename)
            full = c.spec["pre"] + "".join(c.collected)
            ctx.check(full.startswith(d), "durable-not-a-prefix",
                      lambda: f"event {n} ({kind} {name}): file {c.filename!r} holds {d[-60:]!r}, collected {full[-60:]!r}")

    disk = None
    if real:
        tmpdir = box["tmpdir"] = tempfile.mkdtemp(prefix="c17-", dir="/dev/shm" if os.path.isdir("/dev/shm") else None)
        ctx.probe("real_file")
    else:
        initial = {c["file"]: c["pre"] for c in sc["collectors"] if c["pre"]}
        disk = box["disk"] = SimDisk(bufsize=int(sc["bufsize"]), crash_at=sc.get("crash_event"), on_event=prefix_invariant,
                                     initial=initial)
    if True:
        seen = set()
        for spec in sc["collectors"]:
            if spec["id"] in seen or spec["file"] in {c.spec["file"] for c in cols} or spec["freq"] < 1 \
                    or spec["write_count"] < 0:
                continue
            seen.add(spec["id"])
            fn = os.path.join(tmpdir, spec["file"]) if real else spec["file"]
            if real and spec["pre"]:
                with open(fn, "w") as f:
                    f.write(spec["pre"])
            if spec["pre"]:
                ctx.probe("preexisting_content")
            c = (RecFileOwnWriter if spec.get("own_writer") else RecFile)(spec, m, w, fn)
            if spec.get("own_writer"):
                ctx.probe("write_records_overridden_by_the_user")
            ctx.expect_ok("setup-add", m.systems.add_system, c)
            cols.append(c)
        if len(cols) == 2:
            ctx.probe("two_file_collectors")
        if not cols:
            return
        if not real:
            COL.open = disk.open
        shape = []
        nontrivial = False
        crashed = False
        for t in range(min(int(sc["steps"]), 150)):
            try:
                st, v = ctx.call(m.execute)
            except SimCrash:
                crashed = True
                ctx.fault("crash.midflush")
                ctx.probe("crash_mid_flush")
                ctx.event("crash", len(disk.events))
                break
            if st != "ok":
                ctx.fail("step:unexpected-exception", f"{type(v).__name__}: {v}")
            ctx.sim_time += 1
            for c in cols:
                wc = c.spec["write_count"]
                flushes = c.n_coll // (wc + 1)
                flushed_colls = flushes * (wc + 1)
                full = "".join(c.collected)
                # text of the first `flushed_colls` collections
                counts = c.spec["counts"] or [1]
                nrec = sum(counts[i % len(counts)] for i in range(flushed_colls))
                flushed_text = "".join(c.collected[:nrec])
                if real:
                    on_disk = ""
                    if os.path.exists(c.filename):
                        with open(c.filename) as f:
                            on_disk = f.read()
                else:
                    on_disk = disk.durable(c.filename)
                    ctx.check(not disk.open_handles, "file-left-open", f"t={t}")
                    ctx.check(disk.opens.get(c.filename, 0) == flushes, "flush-schedule",
                              f"t={t} {c.id}: {disk.opens.get(c.filename, 0)} flush groups after {c.n_coll} collections with "
                              f"write_count={wc} (expected {flushes})")
                ctx.fault("crash.stop_after")
                ctx.event("after-step", c.id, t, c.n_coll, len(on_disk))
                held = "".join(c.records)
                ctx.check(on_disk == c.spec["pre"] + flushed_text, "whole-flush-prefix",
                          lambda: f"t={t} {c.id}: stopping now leaves {on_disk[-80:]!r}; the first {flushes} whole flush "
                                  f"groups are {(c.spec['pre'] + flushed_text)[-80:]!r}")
                ctx.check(on_disk + held == c.spec["pre"] + full, "conservation",
                          lambda: f"t={t} {c.id}: file + held = {(on_disk + held)[-80:]!r}, collected {full[-80:]!r}")
                if c.n_coll and c.n_coll % (wc + 1) == 0:
                    ctx.probe("crash_at_flush_boundary")
                    if nrec == sum(counts[i % len(counts)] for i in range(flushed_colls - (wc + 1))) if flushes else False:
                        ctx.probe("empty_flush")
                if flushes >= 2 and wc >= 1 and 0 in [counts[i % len(counts)] for i in range(c.n_coll)]:
                    nontrivial = True
                shape.append([wc, c.n_coll, flushes])
            ctx.state([[c.n_coll % (c.spec["write_count"] + 1), len(c.records)] for c in cols])
            if sc.get("discard_copy_at") == t:
                import gc
                ctx.fault("lifetime.copy_discarded")
                ctx.probe("copy_of_the_running_model_discarded")
                snap = [(c.filename, _read_back(box, c.filename)) for c in cols]
                w.ctx = None
                try:
                    twin = copy.deepcopy(m)
                finally:
                    w.ctx = ctx
                del twin
                gc.collect()
                for fn_, was in snap:
                    now = _read_back(box, fn_)
                    ctx.check(now == was, "discarded-copy-wrote-to-the-file",
                              lambda: f"t={t} {fn_!r}: a deep copy of the running model was made and thrown away; the file went from "
                                      f"{was[-60:]!r} to {now[-60:]!r}")
        if not crashed:
            box["post"] = [(c.filename, _read_back(box, c.filename)) for c in cols]
        if disk is not None:
            disk.on_event = None           # (the invariant closure refers to the collectors)
        if crashed:
            # weaker invariant only: whatever survived is a prefix of the collected text
            prefix_invariant(disk, len(disk.events), "crash", "-")
            for c in cols:
                ctx.event("survived", c.id, len(disk.durable(c.filename)))
        if disk is not None and any(e[1] == "write" for e in disk.events) and int(sc["bufsize"]) < 8192:
            ctx.probe("buffer_overflow_mid_flush")
        ctx.nontrivial = nontrivial or crashed
        ctx.sig = ["file", shape[:40], crashed, int(sc["bufsize"])]


def execute(sc, ctx):
    if sc["arm"] == "agent":
        run_agent_arm(sc, ctx)
    else:
        run_file_arm(sc, ctx)
