"""CoreModel - a stochastic workload that uses nothing but ECAgent.Core (no numpy, no pandas, no Environments module), for
the C07 arm "the same seed gives the same trajectory whatever else the process has imported". Run as a script:

    chaos_core.py <mode>      mode = bare | numpy-first | environments-first | grid-model-first

reads [[seed, pop, horizon], ...] on stdin and prints the digests. In `bare` mode the script asserts that numpy is in fact
NOT loaded when it finishes - otherwise the arm would compare like with like. Honours VERIF_REPO."""
import hashlib
import json
import os
import sys

sys.dont_write_bytecode = True
sys.path.insert(0, os.path.realpath(os.environ.get("VERIF_REPO", "/repo")))


def build():
    from ECAgent.Core import Agent, Component, Model, System

    class Wealth(Component):
        def __init__(self, agent, model, w):
            super().__init__(agent, model)
            self.w = w

    class Mix(System):
        def execute(self):
            m = self.model
            env = m.environment
            order = env.shuffle(Wealth)
            m.trace.append(["shuffle", m.systems.timestep, [a.id for a in order]])
            for i, a in enumerate(order):
                a[Wealth].w = (a[Wealth].w * 3 + i) % 17
            whole = env.shuffle()
            a, b = env.get_random_agent(Wealth), env.get_random_agent(tag=1)
            m.trace.append(["pick", [x.id for x in whole[:5]], a.id if a else None, b.id if b else None])
            if m.random.random() < 0.3 and len(env) > 3:
                v = env.get_random_agent()
                env.remove_agent(v.id)
                m.trace.append(["death", v.id])
            if m.random.random() < 0.4:
                m.births += 1
                m.spawn(f"n{m.births}")

    class CoreModel(Model):
        def __init__(self, seed, pop):
            super().__init__(seed=seed)
            self.trace, self.births = [], 0
            for i in range(pop):
                self.spawn(f"a{i}")
            self.systems.add_system(Mix("mix", self))

        def spawn(self, aid):
            a = Agent(aid, self, tag=self.random.choice([0, 1, 1, 2]))
            if self.random.random() < 0.9:
                a.add_component(Wealth(a, self, self.random.randint(0, 9)))
            self.environment.add_agent(a)
            self.trace.append(["birth", aid, a.tag])

        def run_all(self, horizon):
            for _ in range(horizon):
                self.execute()
            self.trace.append(["final", [[a.id, a.tag, a[Wealth].w if Wealth in a else None] for a in self.environment]])
            return hashlib.sha256(json.dumps(self.trace, sort_keys=True).encode()).hexdigest()[:20]

    return CoreModel


def main():
    mode = sys.argv[1]
    jobs = json.load(sys.stdin)
    if mode == "numpy-first":
        import numpy  # noqa: F401
    elif mode == "environments-first":
        import ECAgent.Environments  # noqa: F401
    elif mode == "grid-model-first":
        from ECAgent.Core import Model
        from ECAgent.Environments import GridWorld
        g = Model(seed=3)
        g.environment = GridWorld(g, 3, 3)
        g.execute()
    core_model = build()
    out = [core_model(s, p).run_all(h) for s, p, h in jobs]
    if mode == "bare" and ("numpy" in sys.modules or "pandas" in sys.modules):
        print("NOT-BARE numpy was imported by the package itself")
    print("DIGESTS " + json.dumps(out))


if __name__ == "__main__":
    main()
