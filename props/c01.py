"""C01 - systems run in descending priority, registration order among equals.

Simulated dimension: seeded histories of scheduler registrations / removals / re-registrations with
injected rejections (duplicate id, unknown id), interleaved with timesteps."""
import copy

from ECAgent.Collectors import Collector

from .common import ambient_warnings, model_class, SID, Model, Rec, RefSched, SystemNotFoundError, gen_flavour, gen_prio, rec_class

PROPERTY = "C01"
QUICK_RUNS = 24000
CHUNK = 500
RULE = ("seeded add/remove/re-add/step/lookup histories (5-60 ops) over a pool of 1-10 always-on recording systems "
        "(priorities with forced repeats, extremes, real Collector subclasses with the package's default priority) "
        "with rejected duplicate adds and unknown removals injected against the current state; non-trivial = a "
        "timestep ran while >=2 equal-priority systems registered at different times were live, and >=1 removal "
        "was followed by a step; distinct = sequence of (op kind, queue position, queue length)"
        "; also: the SAME System object re-registered, systems with value-based __eq__, real Collector subclasses, systems whose start lies ahead, a registered system re-prioritised (attribute assigned, removed, re-added), a process that has seen up to 2**20 earlier registrations in other models")
COMPONENTS = {"real": ["ECAgent.Core.SystemManager.add_system/remove_system/execute_systems/__getitem__",
                       "ECAgent.Collectors.Collector (default priority)"],
              "stub": ["System.execute / Collector.collect bodies are harness recorders"]}
PROBES = ["tie_of_3", "readd_after_remove", "insert_head", "insert_middle", "insert_tail",
          "negative_next_to_collector", "dup_rejected", "unknown_rejected", "extreme_priority", "same_object_reregistered", "systems_with_value_equality", "falsy_systems", "process_with_earlier_registrations", "systems_returning_values_from_execute", "system_waiting_for_its_start", "reprioritised_same_object", "history_continued_on_a_copy"]
TECHNIQUE = "deterministic simulation: seeded registration/removal histories with injected rejections vs a sorted-list reference, per-timestep execution log oracle"
LEVEL_TEXT = ("Seeded search over registration histories; after every timestep the execution order recorded from the real "
              "scheduler must equal the reference (descending priority, registration order among equals) and after every "
              "operation the registry must agree. Sampling, not proof; bounds <=10 systems, <=60 ops per run.")
LEVEL_NOTE = "Trusted: the sorted-list reference; priorities are fixed at registration time (as the quantifier says)."


class RecCollector(Collector):
    def __init__(self, spec, model, world):
        if "prio" in spec and not spec.get("default_prio"):
            super().__init__(spec["id"], model, priority=spec["prio"])
        else:
            super().__init__(spec["id"], model)
        self.world = world

    def collect(self):
        self.world.on_execute(self)


def generate(rng, tier):
    big = tier == "thorough"
    n = rng.randint(1, 16 if big else 10)
    few = rng.random() < 0.5   # forced repeats
    pool = []
    for i in range(n):
        if rng.random() < 0.15:
            pool.append({"id": f"c{i}", "kind": "collector", "default_prio": True, "prio": -1})
        else:
            p = rng.choice([-1, 0, 0, 1]) if few else gen_prio(rng)
            pool.append({"id": f"s{i}", "kind": "system", "prio": p})
    ops = []
    for _ in range(rng.randint(5, 90 if big else 60)):
        r = rng.random()
        if r < 0.4:
            op = {"op": "add", "k": rng.randrange(n), "same_object": rng.random() < 0.5}
            if rng.random() < 0.3:
                op["dup_prio"] = gen_prio(rng)
            ops.append(op)
        elif r < 0.62:
            ops.append({"op": "remove", "k": rng.randrange(n)})
        elif r < 0.66:
            ops.append({"op": "remove_ghost", "id": rng.choice(["ghost", "", "s99", "S0"])})
        elif r < 0.92:
            ops.append({"op": "step", "n": rng.choice([1, 1, 1, 2, 3])})
        else:
            ops.append({"op": "lookup", "k": rng.randrange(n)})
    if rng.random() < 0.12:
        for _ in range(rng.randint(1, 2)):      # checkpoint / branch: the history continues on a deep copy (or pickle round trip)
            ops.insert(rng.randint(0, len(ops)), {"op": "branch", "how": rng.choice(["deepcopy", "deepcopy", "deepcopy"])})
    for _ in range(rng.choice([0, 0, 1, 2])):
        ops.insert(rng.randint(0, len(ops)), {"op": "reprio", "k": rng.randrange(n), "prio": gen_prio(rng) if rng.random() < 0.5 else rng.choice([-3, -1, 0, 1, 2, 5]),
                                              "via": rng.choice(["id", "clean_up"])})
    if rng.random() < 0.3:       # some systems only start later: registration order among equals is fixed when they register,
        for p_ in pool:          # not when they first run
            if p_["kind"] == "system" and rng.random() < 0.35:
                p_["start"] = rng.randint(1, 8)
    if rng.random() < 0.15:      # ids that are falsy or carry format / template syntax (messages quote the id)
        for name in rng.sample(["", "{x}", "%s", "{}", "a b", "{0}"], rng.randint(1, 2)):
            pool[rng.randrange(n)]["id"] = name
    # a long-lived process: very many registrations (in other models) have happened before this history starts
    r = rng.random()
    churn = 2 ** 20 + 11 if r < 0.0004 else (2 ** 16 + 3 if r < 0.003 else (300 if r < 0.02 else 0))
    return dict({"pool": pool, "ops": ops, "churn": churn, "strsub_ids": rng.random() < 0.1}, **gen_flavour(rng))


class World:
    def __init__(self, ctx):
        self.ctx = ctx
        self.log = []

    def on_execute(self, s):
        self.log.append(s.id)


def execute(sc, ctx):
    ambient_warnings(sc, ctx)
    Rec_ = rec_class(sc, ctx)       # noqa: N806
    w = World(ctx)

    def sid_of(spec_):
        return dict(spec_, id=SID(spec_["id"])) if sc.get("strsub_ids") else spec_
    if sc.get("strsub_ids"):
        ctx.probe("str_subclass_ids")
    if sc.get("churn"):
        from ECAgent.Core import System
        tm = Model(seed=1)
        junk = System("churn", tm)
        for j_ in range(min(int(sc["churn"]), 2 ** 20 + 64)):
            tm.systems.add_system(junk)
            tm.systems.remove_system("churn")
            if j_ % 4096 == 17:      # (also keeps a leaking queue from turning the prelude quadratic)
                ctx.check(len(tm.systems.execution_queue) == 0 and not tm.systems.systems, "registry",
                          f"after {j_ + 1} add/remove cycles of one system the execution queue holds "
                          f"{len(tm.systems.execution_queue)} entries and the registry {len(tm.systems.systems)}")
        ctx.probe("process_with_many_earlier_registrations" if sc["churn"] > 1000 else "process_with_earlier_registrations")
    model = model_class(sc, ctx)(seed=20260927)
    sm = model.systems
    ref = RefSched()
    pool = sc["pool"]
    live = {}
    prio_now = {}        # id -> priority assigned by a reprio op (the object keeps it)
    ever_removed = set()
    retired = {}
    removed_since_step = False
    removal_then_step = False
    tie_step = False
    shape = []
    if not pool:
        return
    for op in sc["ops"]:
        kind = op["op"]
        if kind in ("add", "remove", "lookup", "reprio"):
            spec = dict(pool[op["k"] % len(pool)])
            spec.update({"start": int(spec.get("start", 0)) if spec.get("kind") == "system" else 0, "end": 2 ** 63 - 1, "freq": 1})
            sid = spec["id"]
            if sid in prio_now:
                spec["prio"] = prio_now[sid]
        if kind == "add":
            if ref.has(sid):
                dup = dict(spec)
                dup["prio"] = op.get("dup_prio", spec["prio"])
                dup.pop("default_prio", None)
                ctx.fault("reject.dup_system")
                ctx.probe("dup_rejected")
                obj = Rec_(sid_of(dup), model, w) if spec["kind"] == "system" else RecCollector(dup, model, w)
                ctx.expect_raises("add-duplicate", KeyError, sm.add_system, obj)
                obj = None          # the rejected object dies here: CPython may hand its address (its id()) to the next system created
                ctx.event("add_rejected", sid)
                shape.append(["dup", len(ref.q)])
            else:
                if op.get("same_object") and sid in retired:
                    obj = retired[sid]          # the very same System object is registered again
                    ctx.probe("same_object_reregistered")
                else:
                    obj = Rec_(sid_of(spec), model, w) if spec["kind"] == "system" else RecCollector(sid_of(spec), model, w)
                ctx.expect_ok("add", sm.add_system, obj)
                live[sid] = obj
                pos = ref.add(spec)
                nq = len(ref.q)
                ctx.probe("insert_head" if pos == 0 and nq > 1 else ("insert_tail" if pos == nq - 1 and nq > 1
                                                                     else "insert_middle" if nq > 1 else "insert_only"))
                if sid in ever_removed:
                    ctx.probe("readd_after_remove")
                if abs(spec["prio"]) > 10 ** 6:
                    ctx.probe("extreme_priority")
                ctx.event("add", sid, spec["prio"], pos)
                shape.append(["add", pos, nq])
        elif kind == "reprio":
            # the natural way to change a registered system's priority: assign it, take the system out, put it back
            if not ref.has(sid) or spec["kind"] != "system":
                continue
            obj = live[sid]
            obj.priority = op["prio"]
            how = op.get("via", "id")
            ctx.expect_ok("reprio-remove", obj.clean_up) if how == "clean_up" else ctx.expect_ok("reprio-remove", sm.remove_system, sid)
            ref.remove(sid)
            ctx.expect_ok("reprio-add", sm.add_system, obj)
            prio_now[sid] = op["prio"]
            pos = ref.add(dict(spec, prio=op["prio"]))
            ctx.probe("reprioritised_same_object")
            ctx.event("reprio", sid, op["prio"], pos)
            shape.append(["reprio", pos, len(ref.q)])
        elif kind == "remove":
            if ref.has(sid):
                ctx.expect_ok("remove", sm.remove_system, sid)
                pos = ref.remove(sid)
                retired[sid] = live[sid]
                del live[sid]
                ever_removed.add(sid)
                removed_since_step = True
                ctx.event("remove", sid, pos)
                shape.append(["rm", pos, len(ref.q)])
            else:
                ctx.fault("reject.unknown_system")
                ctx.probe("unknown_rejected")
                ctx.expect_raises("remove-unknown", SystemNotFoundError, sm.remove_system, sid)
                ctx.event("remove_rejected", sid)
                shape.append(["rmx", len(ref.q)])
        elif kind == "branch":
            # the history continues on a deep copy of the model (its systems, the recording world and the harness's handles on
            # the system objects travel along, so identities stay consistent inside the copy)
            w.ctx = None                 # (the harness context is not part of the program state)
            model, w, live, retired = copy.deepcopy((model, w, live, retired))
            w.ctx = ctx
            sm = model.systems
            ctx.fault("restart.continue_on_copy")
            ctx.probe("history_continued_on_a_copy")
            continue
        elif kind == "remove_ghost":
            if ref.has(op["id"]):
                continue
            ctx.fault("reject.unknown_system")
            ctx.probe("unknown_rejected")
            ctx.expect_raises("remove-unknown", SystemNotFoundError, sm.remove_system, op["id"])
            ctx.event("remove_rejected", op["id"])
        elif kind == "lookup":
            got = ctx.expect_ok("lookup", sm.__getitem__, sid)
            ctx.check(got is live.get(sid), "registry", f"systems[{sid}] is {got!r}")
            if not ref.has(sid):
                ctx.expect_raises("lookup-strict-unknown", KeyError, sm.__getitem__, (sid, True))
            else:
                ctx.check(ctx.expect_ok("lookup-strict", sm.__getitem__, (sid, True)) is live[sid], "registry",
                          f"systems[{sid}, True]")
        elif kind == "step":
            for _ in range(max(1, min(int(op["n"]), 5))):
                w.log = []
                ctx.expect_ok("step", model.execute)
                ctx.sim_time += 1
                want = ref.due(ref.t)          # everybody is always on, except systems whose start still lies ahead
                if len(want) != len(ref.q):
                    ctx.probe("system_waiting_for_its_start")
                ref.t += 1
                ctx.event("step", w.log)
                ctx.check(w.log == want, "order", f"executed {w.log}, reference order {want} "
                                                  f"(prios {[s['prio'] for s in ref.q]})")
                prios = [s["prio"] for s in ref.q]
                if len(prios) != len(set(prios)):
                    tie_step = True
                if any(prios.count(p) >= 3 for p in set(prios)):
                    ctx.probe("tie_of_3")
                kinds = {s.get("kind", "system")[0] for s in ref.q if s["prio"] == -1}
                if "c" in kinds and ("s" in kinds or any(s["prio"] < -1 for s in ref.q)):
                    ctx.probe("negative_next_to_collector")
            if removed_since_step:
                removal_then_step = True
                removed_since_step = False
            shape.append(["step", len(ref.q)])
        # registry agrees with the reference after every op
        for s in pool:
            got = sm[s["id"]]
            ctx.check(got is live.get(s["id"]), "registry", f"after {kind}: systems[{s['id']}] is {got!r}, "
                                                            f"registered={ref.has(s['id'])}")
        ctx.state([ref.ids(), [s["prio"] for s in ref.q]])
    ctx.nontrivial = tie_step and removal_then_step
    ctx.sig = shape
