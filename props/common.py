"""Shared pieces for the scheduler properties (C01, C02, C05, C06): a reference scheduler written
from the property statements and recording System subclasses that act from a script."""
import os
import sys

from ECAgent.Collectors import Collector, FileCollector
from ECAgent.Core import Model, System, SystemNotFoundError, ModelCompleteError  # noqa: F401

MAXSIZE = sys.maxsize


class RefSched:
    """Reference: registered systems ordered by (descending priority, registration order)."""

    def __init__(self):
        self.q = []        # list of spec dicts, kept in execution order
        self.serial = 0
        self.t = 0

    def ids(self):
        return [s["id"] for s in self.q]

    def has(self, sid):
        return any(s["id"] == sid for s in self.q)

    def add(self, spec):
        assert not self.has(spec["id"])
        self.serial += 1
        spec = dict(spec, serial=self.serial)
        pos = len(self.q)
        for i, s in enumerate(self.q):
            if spec["prio"] > s["prio"]:
                pos = i
                break
        self.q.insert(pos, spec)
        return pos

    def remove(self, sid):
        for i, s in enumerate(self.q):
            if s["id"] == sid:
                del self.q[i]
                return i
        raise AssertionError("reference: unknown id")

    @staticmethod
    def eligible(s, t):
        return s["start"] <= t <= s["end"] and (t - s["start"]) % s["freq"] == 0

    def due(self, t=None):
        t = self.t if t is None else t
        return [s["id"] for s in self.q if self.eligible(s, t)]


def spec_defaults(spec):
    d = {"prio": 0, "start": 0, "end": MAXSIZE, "freq": 1}
    d.update(spec)
    return d


class Rec(System):
    """Recording system: logs (id, timestep-as-seen) on execute() and then lets the harness act."""

    def __init__(self, spec, model, world):
        spec = spec_defaults(spec)
        super().__init__(spec["id"], model, priority=spec["prio"], frequency=spec["freq"],
                         start=spec["start"], end=spec["end"])
        self.world = world

    RETURNS = None      # scenario flavour (set by rec_class): what execute() hands back - the scheduler must not care

    def execute(self):
        self.world.on_execute(self)
        how = Rec.RETURNS
        if how == "false":
            return False
        if how == "mixed":
            return [False, 0, None, True, "stop", [], StopIteration][sum(map(ord, str(self.id))) % 7]
        return None


class EqRec(Rec):
    """A recording system with value-based equality (what @dataclass gives a System subclass): two systems compare
    equal when their priorities are equal. Identity is what the scheduler must go by."""

    def __eq__(self, other):
        return isinstance(other, System) and self.priority == other.priority

    __hash__ = None


class RecCollectorSys(Collector):
    """A recording system that is a bundled Collector (collect() is its turn)."""

    def __init__(self, spec, model, world):
        spec = spec_defaults(spec)
        super().__init__(spec["id"], model, priority=spec["prio"], frequency=spec["freq"], start=spec["start"], end=spec["end"])
        self.world = world

    def collect(self):
        self.world.on_execute(self)


class RecFileSys(FileCollector):
    """A recording system that is a bundled FileCollector which never reaches its flush threshold (nothing is written)."""

    def __init__(self, spec, model, world):
        spec = spec_defaults(spec)
        super().__init__(spec["id"], model, os.devnull, priority=spec["prio"], frequency=spec["freq"], start=spec["start"],
                         end=spec["end"], write_count=10 ** 9)
        self.world = world

    def collect(self):
        self.world.on_execute(self)


class SID(str):
    """A system id type that is a str subclass (e.g. a str-valued Enum member in user code)."""
    __slots__ = ()


class LtRec(Rec):
    """A system class that defines an ordering of its own (alphabetical by id, so that users can sorted() their systems):
    the scheduler's order is priority and registration, whatever the objects say about themselves."""

    def __lt__(self, other):
        return str(self.id) < str(other.id)

    def __gt__(self, other):
        return str(self.id) > str(other.id)

    def __le__(self, other):
        return str(self.id) <= str(other.id)

    def __ge__(self, other):
        return str(self.id) >= str(other.id)


class _ExecMixin:
    """A plain (non-System) mix-in that brings the execute() body along."""

    def execute(self):
        self.world.on_execute(self)


class MixRec(_ExecMixin, System):
    """A recording system whose execute() is inherited from a plain mix-in class, not written in a System subclass body."""

    def __init__(self, spec, model, world):
        spec = spec_defaults(spec)
        System.__init__(self, spec["id"], model, priority=spec["prio"], frequency=spec["freq"], start=spec["start"], end=spec["end"])
        self.world = world


class InstRec(System):
    """A recording system of a class that has no execute() of its own: the callable is stored on the INSTANCE
    (self.execute = callback), which shadows the inherited abstract method."""

    def __init__(self, spec, model, world):
        spec = spec_defaults(spec)
        super().__init__(spec["id"], model, priority=spec["prio"], frequency=spec["freq"], start=spec["start"], end=spec["end"])
        self.world = world
        self.execute = lambda: world.on_execute(self)

    def __deepcopy__(self, memo):           # (the closure above must follow a deep copy of the system)
        import copy as _copy
        new = type(self).__new__(type(self))
        memo[id(self)] = new
        for k_ in ("id", "model", "priority", "frequency", "start", "end"):
            setattr(new, k_, _copy.deepcopy(getattr(self, k_), memo))
        new.world = _copy.deepcopy(self.world, memo)
        for k_, v_ in self.__dict__.items():
            if k_ not in ("world", "execute"):
                new.__dict__[k_] = _copy.deepcopy(v_, memo)
        new.execute = lambda: new.world.on_execute(new)
        return new


class SlotRec(System):
    """A recording system of a class that declares __slots__ all the way down (the idiom of every class in the package):
    its instances have no __dict__ - they hold what their classes declare and nothing else."""
    __slots__ = ("world", "uid")

    def __init__(self, spec, model, world):
        spec = spec_defaults(spec)
        super().__init__(spec["id"], model, priority=spec["prio"], frequency=spec["freq"], start=spec["start"], end=spec["end"])
        self.world = world

    def execute(self):
        self.world.on_execute(self)


OWN_ATTRS = {"active": False, "enabled": False, "paused": True, "running": False, "done": True, "complete": True, "removed": True,
             "skip": True, "dirty": True, "pooled": False, "registered": False, "index": 0, "slot": -1, "order": None, "position": None,
             "key": None, "name": "", "state": 0, "status": None, "cache": None, "owner": None, "parent": None, "next": None,
             "prev": None, "ticket": None, "seq": -1, "count": 0, "last_run": None, "next_run": None, "tag": None, "env": None,
             "agents": None, "systems": None, "timestep": -1, "records": None, "lock": None, "queue": None}


class OwnAttrRec(Rec):
    """A recording system that keeps state of its own under everyday attribute names (active, paused, index, owner ...), with
    falsy / odd values, some on the instance and some on the class: a user's attributes are the user's business."""
    pooled = False
    skip = True
    slot = -1

    def __init__(self, spec, model, world):
        super().__init__(spec, model, world)
        for k_, v_ in OWN_ATTRS.items():
            if k_ not in ("pooled", "skip", "slot"):
                setattr(self, k_, v_)


class LenRec(Rec):
    """A falsy system: what a System subclass that defines __len__ (over its own records, say) is while it holds nothing.
    Presence in the scheduler must never be decided by an object's truth value."""

    def __len__(self):
        return 0


class BoolRec(Rec):
    def __bool__(self):
        return False


# "Dunder chaos": special methods a user class may define for reasons of its own. None of them says anything about the
# object's place in the framework (presence, identity, priority, registration order), so a class carrying any subset of them
# must be treated exactly like a plain one. (__eq__ / __hash__ live in EqRec; Agent's own container dunders are not touched.)
HOSTILE_DUNDERS = {
    "__len__": lambda self: 0,
    "__bool__": lambda self: False,
    "__iter__": lambda self: iter(("junk", None, 0)),
    "__getitem__": lambda self, k: ("item", k),
    "__contains__": lambda self, x: True,
    "__call__": lambda self, *a, **k: "called",
    "__lt__": lambda self, other: False,
    "__gt__": lambda self, other: False,
    "__le__": lambda self, other: True,
    "__ge__": lambda self, other: True,
    "__int__": lambda self: 7,
    "__index__": lambda self: 7,
    "__float__": lambda self: 0.5,
    "__repr__": lambda self: "<{!r:>%s}>",          # text that looks like a format template
    "__str__": lambda self: "%(name)s {0} {}",
    "__enter__": lambda self: self,
    "__exit__": lambda self, *a: True,
    "__neg__": lambda self: self,
    "__add__": lambda self, other: 0,
    "__radd__": lambda self, other: 0,
}


ChaosMixin = type("ChaosMixin", (), dict(HOSTILE_DUNDERS, __doc__="All of the special methods above at once (for component classes)."))


def hostile(base, names):
    """A subclass of `base` that defines the given special methods (sorted: one name list is one class shape)."""
    names = [n for n in sorted(set(names)) if n in HOSTILE_DUNDERS]
    return type("Hostile" + base.__name__, (base,), {n: HOSTILE_DUNDERS[n] for n in names})


def gen_dunders(rng):
    return sorted(rng.sample(sorted(HOSTILE_DUNDERS), rng.randint(1, 5)))


class SlotModel(Model):
    """A model class that declares __slots__ (the idiom of the package's own classes): its instances have no __dict__."""
    __slots__ = ("note",)


class OwnAttrModel(Model):
    """A model class keeping state of its own under everyday attribute names, on the class and on the instance."""
    paused = True
    active = False
    last_executed = -1

    def __init__(self, *a, **k):
        super().__init__(*a, **k)
        for k_, v_ in OWN_ATTRS.items():
            if k_ not in ("systems", "complete", "timestep"):
                setattr(self, k_, v_)


def ambient_warnings(sc, ctx):
    """Ambient interpreter state: RuntimeWarning / UserWarning escalated to errors for the run (what `python -W error`, pytest's
    filterwarnings = error or warnings.simplefilter('error') do). The scheduler has nothing to warn about in these histories."""
    if not sc.get("warnings_as_errors"):
        return
    import warnings
    cm = warnings.catch_warnings()
    cm.__enter__()
    ctx.cleanups.append(lambda: cm.__exit__(None, None, None))
    warnings.simplefilter("error", RuntimeWarning)
    warnings.simplefilter("error", UserWarning)
    ctx.fault("ambient.warnings_as_errors")
    ctx.probe("warnings_escalated_to_errors")


def model_class(sc, ctx=None):
    kind = sc.get("model_kind")
    if kind and ctx is not None:
        ctx.probe("model_class_" + kind)
    return {"slotted": SlotModel, "own_attributes": OwnAttrModel}.get(kind, Model)


def gen_flavour(rng):
    """Scenario fields deciding the class of the recording systems (drawn last, so older fields keep their stream)."""
    out = _gen_flavour(rng)
    out["model_kind"] = rng.choice([None] * 8 + ["slotted", "own_attributes"])
    out["warnings_as_errors"] = rng.random() < 0.08      # the run happens under `-W error::RuntimeWarning -W error::UserWarning`
    return out


def _gen_flavour(rng):
    r = rng.random()
    ret = rng.choice([None, None, None, None, None, "false", "mixed"])      # execute() of a user system may return anything
    if r < 0.12:
        return {"value_eq": True, "returns": ret}
    if r < 0.24:
        return {"value_eq": False, "falsy": rng.choice(["len", "bool"]), "returns": ret}
    if r < 0.34:
        return {"value_eq": False, "syskind": rng.choice(["collector", "file", "file"]), "returns": None}
    if r < 0.44:
        return {"value_eq": False, "syskind": rng.choice(["own_order", "mixin_execute", "instance_execute"]), "returns": None}
    if r < 0.56:
        return {"value_eq": False, "dunders": gen_dunders(rng), "returns": ret}
    if r < 0.70:
        return {"value_eq": False, "syskind": rng.choice(["own_attributes", "slotted"]), "returns": ret}
    return {"value_eq": False, "returns": ret}


def rec_class(sc, ctx=None):
    Rec.RETURNS = sc.get("returns")
    if sc.get("returns") and ctx is not None:
        ctx.probe("systems_returning_values_from_execute")
    if sc.get("value_eq"):
        if ctx is not None:
            ctx.probe("systems_with_value_equality")
        return EqRec
    if sc.get("falsy"):
        if ctx is not None:
            ctx.probe("falsy_systems")
        return LenRec if sc["falsy"] == "len" else BoolRec
    if sc.get("syskind"):
        if ctx is not None:
            ctx.probe("systems_that_are_bundled_collectors" if sc["syskind"] in ("file", "collector") else "systems_of_kind_" + sc["syskind"])
        return {"file": RecFileSys, "collector": RecCollectorSys, "own_order": LtRec, "mixin_execute": MixRec, "instance_execute": InstRec,
                "own_attributes": OwnAttrRec, "slotted": SlotRec}[sc["syskind"]]
    if sc.get("dunders"):
        if ctx is not None:
            ctx.probe("systems_with_special_methods_of_their_own")
        return hostile(Rec, sc["dunders"])
    return Rec


def gen_window(rng, horizon, always=0.7):
    """Activation window; most systems are always on so that the state grows."""
    if rng.random() < always:
        return {"start": 0, "end": MAXSIZE, "freq": 1}
    start = rng.choice([0, 0, 1, 2, 3, -1, -4, rng.randint(-12, max(1, horizon))])
    r = rng.random()
    if r < 0.45:
        end = MAXSIZE
    elif r < 0.6:
        end = start + rng.randint(0, max(1, horizon))
    elif r < 0.7:
        end = start
    elif r < 0.8:
        end = start - rng.randint(1, 3)
    else:
        end = rng.randint(0, max(1, horizon))
    freq = rng.choice([1, 1, 2, 2, 3, 3, 4, 5, 7, 9])
    return {"start": start, "end": end, "freq": freq}


def gen_prio(rng):
    r = rng.random()
    if r < 0.03:
        return rng.choice([True, False])       # bool is an int: True sorts like 1, False like 0
    if r < 0.8:
        return rng.choice([-2, -1, -1, 0, 0, 0, 1, 1, 2, 3])
    if r < 0.9:
        return rng.choice([10, -10, 100, 5, -5])
    return rng.choice([MAXSIZE, -MAXSIZE, MAXSIZE - 1, -MAXSIZE - 1, 2 ** 70, -2 ** 70])
