"""Picklable top-level models / systems / collectors / score functions used by C15 and C16 (and the
real-pool arms). State shared with the harness lives in module globals CONFIG and LEDGER: with the
simulated pool everything runs in-process; with the real pool fork workers inherit CONFIG as it was
when the pool was created (the pool is created inside batch_run / grid_search, after CONFIG is set)."""
import time

import numpy

import ECAgent.Batching as _B
from ECAgent.Collectors import Collector
from ECAgent.Core import Model, System

CONFIG = {}
LEDGER = []          # one entry per constructed model, in construction order (in-process only)
COUNTERS = {}        # per-process: params signature -> number of models constructed so far


class BatchFailure(Exception):
    """Marker for an injected failing execution."""


FAIL_EXC = {"BatchFailure": BatchFailure, "StopIteration": StopIteration, "KeyError": KeyError, "ValueError": ValueError,
            "RuntimeError": RuntimeError, "IndexError": IndexError, "AttributeError": AttributeError, "TypeError": TypeError,
            "ZeroDivisionError": ZeroDivisionError, "OSError": OSError,
            # classes that retry / recovery logic likes to single out
            "MemoryError": MemoryError, "RecursionError": RecursionError, "TimeoutError": TimeoutError, "BrokenPipeError": BrokenPipeError,
            "EOFError": EOFError, "AssertionError": AssertionError, "NotImplementedError": NotImplementedError,
            "FloatingPointError": FloatingPointError, "InterruptedError": InterruptedError}


OWN_EXC = ["AgentNotFoundError", "DuplicateAgentError", "ComponentNotFoundError", "SystemNotFoundError", "ModelCompleteError"]


def raise_injected(model, what):
    """Raise the scripted failure; the package's own exceptions are provoked through the real API."""
    name = (CONFIG.get("fail") or {}).get("exc", "BatchFailure")
    if name == "AgentNotFoundError":
        model.environment.remove_agent("nobody")
    elif name == "DuplicateAgentError":
        from ECAgent.Core import Agent
        model.environment.add_agent(Agent("twin", model))
        model.environment.add_agent(Agent("twin", model))
    elif name == "ComponentNotFoundError":
        from ECAgent.Core import Agent, Component
        Agent("lonely", model).remove_component(Component)
    elif name == "SystemNotFoundError":
        model.systems.remove_system("no-such-system")
    elif name == "ModelCompleteError":
        from ECAgent.Core import ModelCompleteError
        raise ModelCompleteError()
    if name == "TwoArgError":
        raise TwoArgError("agent-7", what)
    raise FAIL_EXC.get(name, BatchFailure)(what)


def fail_exc():
    return FAIL_EXC.get((CONFIG.get("fail") or {}).get("exc", "BatchFailure"), BatchFailure)


class TwoArgError(Exception):
    """A user exception whose constructor signature differs from Exception.args: pickle cannot rebuild it."""

    def __init__(self, agent_id, reason):
        self.agent_id, self.reason = agent_id, reason
        super().__init__(f"{agent_id}: {reason}")


class Runaway(Exception):
    """Raised deterministically when a model is driven past its own completion (bounded-progress guard)."""


def sig_of(params):
    return "|".join(f"{k}={params[k]!r}" for k in sorted(params))


def lacks(sig, lack):
    return sum(ord(c) for c in sig) % int(lack["mod"]) == int(lack["rem"]) % int(lack["mod"])


def stop_at_of(sig):
    base = CONFIG.get("base_stop", 3)
    spread = CONFIG.get("spread", 3)
    return base + (sum(ord(c) for c in sig) % max(1, spread))


def reset(config):
    CONFIG.clear()
    CONFIG.update(config)
    del LEDGER[:]
    COUNTERS.clear()


class Stopper(System):
    def __init__(self, model):
        super().__init__("stopper", model, priority=5)

    def execute(self):
        m = self.model
        t = m.systems.timestep
        m.entry["ticks"].append(["stopper", t, m.is_running()])
        if t > m.stop_at + 3:
            raise Runaway(f"{m.sig} still stepped at t={t}, stop_at={m.stop_at}")
        if t == m.stop_at:
            m.complete()
            m.entry["completed_at"] = t
            f = CONFIG.get("fail")
            if f and f.get("where") == "after_complete" and m.fail_me:
                # the system that has just completed the model fails (a final-state check, a report that cannot be written ...)
                raise_injected(m, f"injected failure right after complete() at t={t} of {m.sig}")


class Work(System):
    def __init__(self, model):
        super().__init__("work", model, priority=0)

    def execute(self):
        m = self.model
        t = m.systems.timestep
        m.entry["ticks"].append(["work", t, m.is_running()])
        f = CONFIG.get("fail")
        if f and f.get("where") == "system" and m.fail_me and t == min(f.get("t", 0), max(0, m.stop_at - 1)):
            raise_injected(m, f"injected failure in system at t={t} of {m.sig}")
        us = CONFIG.get("sleep_us")
        if CONFIG.get("isolation_probe"):
            # interpreter-wide state written when the model was built and read back during its run: worker PROCESSES each have
            # their own copy; anything that runs executions concurrently inside one interpreter lets them overwrite each other
            type(m).current_sig = m.sig
            if us:
                time.sleep(us / 2e6)
            if type(m).current_sig != m.sig:
                m.entry["leaks"] = m.entry.get("leaks", 0) + 1
        if us:
            time.sleep(((sum(ord(c) for c in m.sig) * 7919 + t * 104729) % us) / 1e6)


class SigCollector(Collector):
    """Appends self-identifying records: (params signature, collector name, timestep seen)."""

    def __init__(self, name, model, frequency=1):
        super().__init__(name, model, frequency=frequency)

    def collect(self):
        m = self.model
        t = m.systems.timestep
        m.entry["ticks"].append([self.id, t, m.is_running()])
        pad = CONFIG.get("pad")
        self.records.append((m.sig, self.id, t) if not pad else (m.sig, self.id, t, "x" * pad))


class LenSigCollector(SigCollector):
    """The same collector with a container protocol over its records: falsy as long as it has recorded nothing."""

    def __len__(self):
        return len(self.records)

    def __iter__(self):
        return iter(self.records)


class RebindSigCollector(SigCollector):
    """The same records, but the collector REBINDS its list on every collection (records = records + [...], as a rolling
    window or a periodic summary would): what counts is what the collector holds when the execution ends."""

    def collect(self):
        m = self.model
        t = m.systems.timestep
        m.entry["ticks"].append([self.id, t, m.is_running()])
        self.records = self.records + [(m.sig, self.id, t)]


class FileSigCollector(__import__("ECAgent.Collectors", fromlist=["x"]).FileCollector):
    """The same records kept by a bundled FileCollector that buffers them (write_count far beyond the run's length, so that
    nothing is due to be written while the run lasts; the file is the null device): what the batch returns are its records."""

    def __init__(self, name, model, frequency=1):
        import os
        super().__init__(name, model, os.devnull, frequency=frequency, write_count=10 ** 6)

    collect = SigCollector.collect


def collector_class():
    if CONFIG.get("file_collectors"):
        return FileSigCollector
    if CONFIG.get("rebinding_collectors"):
        return RebindSigCollector
    return LenSigCollector if CONFIG.get("falsy_collectors") else SigCollector


# parameter names a user's model may well have, and which the batching code uses for arguments of its own
SPECIAL_NAMES = ["max_timesteps", "model_cls", "collectors", "processes", "repetitions", "parameters", "mode", "kwargs", "run",
                 "model", "score_func", "timesteps"]


class InnerCollector(Collector):
    def collect(self):
        self.records.append(("inner", self.model.q, self.model.systems.timestep))


class InnerModel(Model):
    """A small model that an execution of the outer batch runs as a batch of its own (a "model of models")."""

    def __init__(self, q):
        super().__init__(seed=2)
        self.q = q
        self.systems.add_system(InnerCollector("inner", self))


def run_inner_batch():
    got = _B.batch_run(InnerModel, {"q": [1, 2, 3]}, "inner", processes=1, max_timesteps=2)
    want = [[("inner", q, 0), ("inner", q, 1)] for q in (1, 2, 3)]
    if [list(map(tuple, r)) for r in got] != want:
        raise BatchFailure(f"the inner batch returned {got!r}")


class StableLookup(__import__("ECAgent.Environments", fromlist=["x"]).LookupGenerator):
    """A bundled generator object handed to every run as ONE parameter value ("same terrain for all"); repr is stable
    across the pickle boundary so that it can be part of a run's signature."""

    def __repr__(self):
        return f"StableLookup({self.table!r})"

    def __eq__(self, other):
        return isinstance(other, StableLookup) and self.table == other.table

    __hash__ = None


class StableTags(__import__("importlib").import_module("ECAgent.Tags").TagLibrary):
    """A tag library handed to every run as ONE parameter value (the runs share their tag vocabulary; the global library
    cannot serve several models in one process). repr and equality are stable across the pickle boundary."""

    def __repr__(self):
        return f"StableTags({self.itemize()!r})"

    def __eq__(self, other):
        return isinstance(other, StableTags) and self.itemize() == other.itemize()

    __hash__ = None


def stable_tags(names):
    lib = StableTags()
    for n_ in names:
        lib.add_tag(n_)
    return lib


class BatchModel(Model):
    def __init__(self, **params):
        super().__init__(seed=1)       # never OS entropy inside the harness: every run must replay exactly
        self.params = dict(params)
        self.sig = sig_of(params)
        self.stop_at = stop_at_of(self.sig)
        n = COUNTERS.get(self.sig, 0)
        COUNTERS[self.sig] = n + 1
        self.rep = n
        self.entry = {"sig": self.sig, "ticks": [], "completed_at": None, "index": len(LEDGER), "kworder": list(params)}
        LEDGER.append(self.entry)
        f = CONFIG.get("fail")
        self.fail_me = False
        if f:
            if "k" in f:
                self.fail_me = self.entry["index"] == f["k"]
            elif "sig" in f:
                self.fail_me = self.sig == f["sig"]
            if self.fail_me and f.get("where") == "ctor":
                raise_injected(self, f"injected failure constructing {self.sig}")
        if CONFIG.get("nested_batches") and sum(ord(c) for c in self.sig) % 2 == 0:
            run_inner_batch()          # re-entrancy: this execution runs a serial batch of another model class
        if CONFIG.get("shadow_timestep") is not None:
            self.timestep = CONFIG["shadow_timestep"]      # a user attribute that happens to be called `timestep` (e.g. a dt)
        self.systems.add_system(Stopper(self))
        self.systems.add_system(Work(self))
        for name, freq in CONFIG.get("collectors_defined", [["col0", 1], ["col1", 2], ["col2", 1]]):
            if CONFIG.get("lacking") and name == CONFIG["lacking"]["name"] and lacks(self.sig, CONFIG["lacking"]):
                continue
            self.systems.add_system(collector_class()(name, self, frequency=freq))


def expected_records(sig, name, freq, max_ts):
    lim = stop_at_of(sig)
    if max_ts is not None:
        lim = min(lim, max_ts)
    return [(sig, name, t) for t in range(max(0, lim)) if t % freq == 0]


# ---------------------------------------------------------------------------------------- C16

def score_fn(model):
    """Score table lookup: CONFIG['scores'][sig][repetition index]; may fail when told to."""
    table = CONFIG["scores"][model.sig]
    v = table[model.rep % len(table)]
    if isinstance(v, dict):          # an exact rational score
        from fractions import Fraction
        v = Fraction(v["frac"][0], v["frac"][1])
    elif isinstance(v, list):        # dyadic float encoded as [numerator, denominator]
        v = v[0] / v[1]
    elif CONFIG.get("numpy_scores") and isinstance(v, int) and -2 ** 62 < v < 2 ** 62:
        v = numpy.int64(v)           # what e.g. numpy.sum over an integer array returns
    if CONFIG.get("isolation_probe") and isinstance(v, int) and model.entry.get("leaks"):
        v = v + 1000003 * model.entry["leaks"]
    model.entry["scored"] = True
    model.entry["running_when_scored"] = bool(model.is_running())     # the score function sees the model as the run left it
    return v


class SearchModel(BatchModel):
    pass
