"""C03 - component listings mirror exactly the components of agents in the model.

Simulated dimension: seeded join / leave / re-join / attach / detach histories over several models
alive at once (the interleaving of operations on different models is the schedule), with rejected
joins / leaves injected. Behind a per-run switch (on in ~15% of runs) components are attached /
detached WHILE the agent is resident, with or without the manual register / deregister call; the
divergences this produces on the current tree are the listed known findings F1, F2, F3, F6."""
import copy

from ECAgent.Core import Agent, AgentNotFoundError, Component, DuplicateAgentError, Environment, Model, System
from ECAgent.Environments import PositionComponent

from .worlds import RefWorld, gen_world, make_world

PROPERTY = "C03"
QUICK_RUNS = 16000
CHUNK = 200
RULE = ("1-3 models, each with a plain Environment or a SpaceWorld / DiscreteWorld / LineWorld / GridWorld; 5 component "
        "classes (one a subclass of another) shared by all models; 2-8 agents per model; 10-80 ops from create / attach / "
        "detach outside / join / leave / re-join / listing query / rejected join / rejected leave, interleaved across "
        "models; in ~15% of runs also attach / detach while resident with or without manual (de)registration; "
        "non-trivial = >=2 component types in use, >=1 agent left while another agent with one of its types stayed, and "
        ">=1 re-join; distinct = sequence of (model, op, per-type listing sizes)"
        "; also: models stepped / completed in mid-history, worlds that are not model.environment, a container-like component that is falsy while empty, joins / leaves / re-joins issued by a System from inside a running timestep, agents that are environments themselves, agents whose class has class components of the same types, joins / leaves spelled addAgent / removeAgent")
COMPONENTS = {"real": ["ECAgent.Core.Environment.add_agent / remove_agent", "SystemManager.register_component / "
                       "deregister_component / get_components / __getitem__", "Agent.add_component / remove_component",
                       "SpaceWorld / DiscreteWorld / LineWorld / GridWorld add_agent / remove_agent"],
              "stub": ["component classes and agents are harness-defined"]}
PROBES = ["listed_component_registered_again", "listed_component_registered_again_mid_listing", "population_of_dozens_oscillating", "position_subclass_component", "pool_deleted_and_recreated", "leave_from_middle", "two_models_same_type", "spatial_join_leave", "rejoin",
          "attach_after_leaving", "subclass_component", "resident_touch_run", "manual_register", "reject_join", "reject_leave",
          "model_completed_then_join_leave", "falsy_component_emptied", "ops_from_inside_a_timestep", "agent_is_an_environment", "agent_class_with_class_components", "deprecated_camelcase_spelling", "component_cloned_from_a_registered_one", "second_environment_bound_to_the_same_model"]
TECHNIQUE = "deterministic simulation: seeded join/leave/attach/detach histories interleaved over several live models vs a per-model mirror reference; known-finding classifier for resident attach/detach"
LEVEL_TEXT = ("Seeded search over join/leave/attach/detach histories on 1-3 live models; after every operation, for every "
              "component type and every model, the exposed listing must be element-wise identical (objects, joining order) to "
              "the mirror reference, or None when empty. Divergences caused solely by components attached/detached while "
              "resident are the listed known findings F1/F2/F3/F6; anything else is a violation. Sampling, not proof; "
              "<=3 models x <=8 agents x 5 types, <=80 ops.")
LEVEL_NOTE = ("Trusted: the mirror reference; component classes use identity equality and each instance belongs to one agent; "
              "the world-managed PositionComponent is excluded, as the statement allows.")
SHRINK_LISTS = ["ops"]


class CA(Component):
    """Declares __slots__ like the package's own classes: its instances have no __dict__."""
    __slots__ = ()


class CB(Component, __import__("abc").ABC):
    """A component class whose metaclass is not `type` (abc.ABCMeta): it is a class like any other."""


class CC(Component):
    """A component keeping state of its own under everyday attribute names (pooled, registered, active, index, owner ...),
    some on the class and some on the instance: a user's attributes are the user's business."""
    pooled = False
    registered = False

    def __init__(self, agent, model):
        super().__init__(agent, model)
        for k_, v_ in __import__("props.common", fromlist=["x"]).OWN_ATTRS.items():
            if k_ not in ("pooled", "registered"):
                setattr(self, k_, v_)


class CD(CA):          # subclass of CA: pools are keyed by exact type
    pass


class CE(__import__("props.common", fromlist=["x"]).ChaosMixin, Component):
    """A component class with a whole set of special methods of its own (callable, iterable, ordered, falsy, odd repr ...)."""

    def __init__(self, agent, model, payload=None):
        super().__init__(agent, model)
        self.payload = payload


class CF(Component):
    """A container-like user component: falsy while it holds nothing (defines __len__)."""

    def __init__(self, agent, model):
        super().__init__(agent, model)
        self.items = []

    def __len__(self):
        return len(self.items)


class CG(PositionComponent):
    """A user component type that builds on the bundled PositionComponent (a waypoint, a home location): not the position a
    spatial world manages - components are keyed by their exact class - and so listed like any other."""


CT = [CA, CB, CC, CD, CE, CF, CG]
NT = len(CT)


class Wolf(Agent):
    """An agent class that has CLASS components of types its instances may also carry themselves: what an agent brings
    into the model's listings are its own components, never its class's."""
INSTEP_OPS = ("join", "leave", "query", "join_dup", "leave_ghost", "fill")


class Runner(System):
    """Harness system: performs scripted membership operations from inside the timestep (each followed by the full check)."""

    def __init__(self, model):
        super().__init__("c03-runner", model)
        self.todo, self.apply = [], None

    def execute(self):
        while self.todo:
            self.apply(self.todo.pop(0))


def generate(rng, tier):
    nm = rng.choice([1, 1, 2, 2, 3] + ([3, 4] if tier == "thorough" else []))
    worlds = [gen_world(rng, kinds=("plain", "plain", "space", "discrete", "line", "grid"), max_cells=24) for _ in range(nm)]
    for w_ in worlds:
        w_["attached"] = rng.random() < 0.85
    nag = [rng.randint(2, 8) for _ in range(nm)]
    touch = rng.random() < 0.15
    ops = []
    for mi in range(nm):
        for k in range(nag[mi]):
            if rng.random() < 0.7:
                for t in rng.sample(range(NT), rng.randint(0, 3)):
                    ops.append({"m": mi, "op": "attach", "k": k, "t": t})
    for _ in range(rng.randint(10, 120 if tier == "thorough" else 70)):
        mi = rng.randrange(nm)
        k = rng.randrange(nag[mi])
        r = rng.random()
        if r < 0.3:
            ops.append({"m": mi, "op": "join", "k": k, "frac": [rng.random() for _ in range(3)]})
        elif r < 0.5:
            ops.append({"m": mi, "op": "leave", "k": k})
        elif r < 0.65:
            ops.append({"m": mi, "op": "attach", "k": k, "t": rng.randrange(NT), "manual": rng.random() < 0.5, "clone": rng.random() < 0.3})
        elif r < 0.77:
            ops.append({"m": mi, "op": "detach", "k": k, "t": rng.randrange(NT), "manual": rng.choice(["no", "before", "after"])})
        elif r < 0.9:
            ops.append({"m": mi, "op": "query", "t": rng.randrange(NT)})
        elif r < 0.93:
            ops.append({"m": mi, "op": "leave_ghost"})
        elif r < 0.955:
            ops.append({"m": mi, "op": "lifecycle", "what": rng.choice(["complete", "step", "step", "complete"])})
        elif r < 0.98:
            ops.append({"m": mi, "op": "fill", "k": k, "n": rng.choice([0, 0, 1, 2])})
        else:
            ops.append({"m": mi, "op": "join_dup", "k": k})
    # some stretches of the history are issued by a System from inside a running timestep (drawn last: older fields keep their stream)
    for _ in range(rng.choice([0, 0, 0, 1, 1, 2])):
        mi = rng.randrange(nm)
        sub = []
        for _ in range(rng.randint(1, 5)):
            k = rng.randrange(nag[mi])
            r = rng.random()
            if r < 0.4:
                sub.append({"op": "leave", "k": k})
            elif r < 0.8:
                sub.append({"op": "join", "k": k, "frac": [rng.random() for _ in range(3)]})
            elif r < 0.9:
                sub.append({"op": "query", "t": rng.randrange(NT)})
            else:
                sub.append({"op": rng.choice(["join_dup", "leave_ghost"]), "k": k})
        ops.insert(rng.randint(0, len(ops)), {"m": mi, "op": "instep", "sub": sub})
    for o_ in ops:        # the deprecated camelCase spellings (addAgent / removeAgent) are still public API: some calls use them
        if o_.get("op") in ("join", "leave") and rng.random() < 0.08:
            o_["camel"] = True
    envagents = []
    if rng.random() < 0.2:       # some agents are environments themselves (their components are listed like anybody's)
        for mi in range(nm):
            for k in range(nag[mi]):
                if rng.random() < 0.3:
                    envagents.append([mi, k, rng.choice([0, 0, 1])])
    wolves = []
    if rng.random() < 0.2:
        for mi in range(nm):
            for k in range(nag[mi]):
                if rng.random() < 0.4 and [mi, k] not in [e[:2] for e in envagents]:
                    wolves.append([mi, k])
    side_envs = [mi for mi in range(nm) if rng.random() < 0.2]
    for mi in side_envs:        # the two extra agents of the second environment get histories of their own (indices beyond nag[mi])
        for _ in range(rng.randint(2, 8)):
            k = nag[mi] + rng.randrange(2)
            r = rng.random()
            o_ = ({"m": mi, "op": "attach", "k": k, "t": rng.randrange(NT)} if r < 0.3 else
                  {"m": mi, "op": "join", "k": k, "frac": [0.5, 0.5, 0.5]} if r < 0.7 else {"m": mi, "op": "leave", "k": k})
            ops.insert(rng.randint(0, len(ops)), o_)
    crowd = None
    cands = [mi for mi in range(nm) if mi not in side_envs]
    if cands and rng.random() < 0.07:
        # a population that oscillates around a few dozen holders of one type: founders join, many leave, settlers arrive,
        # leavers come back, settlers and founders leave (the extra agents have indices beyond nag[mi])
        mi, n, t = rng.choice(cands), rng.randint(38, 46), rng.randrange(NT)
        base = nag[mi]
        crowd = {"m": mi, "n": n}

        def J(j):
            return {"m": mi, "op": "join", "k": base + j, "frac": [0.5, 0.5, 0.5]}

        def L(j):
            return {"m": mi, "op": "leave", "k": base + j}
        first = rng.randint(33, n - 4)
        leavers = rng.sample(range(first), rng.randint(first - 28, first - 8))
        settlers = list(range(first, n))
        block = [J(j) for j in range(first)] + [L(j) for j in leavers] + [J(j) for j in settlers[:2]]
        back = rng.sample(leavers, min(len(leavers), 34 - (first - len(leavers) + 2) + rng.randint(0, 3)))
        block += [J(j) for j in back] + [{"m": mi, "op": "query", "t": t}, L(settlers[0])]
        stayed = [j for j in range(first) if j not in leavers]
        block += [L(j) for j in rng.sample(stayed, min(3, len(stayed)))] + [J(j) for j in leavers if j not in back][:4]
        block += [L(j) for j in rng.sample(back, min(3, len(back)))] + [{"m": mi, "op": "query", "t": t}]
        cut = rng.randint(0, len(ops))
        ops = [{"m": mi, "op": "attach", "k": base + j, "t": t} for j in range(n)] + ops[:cut] + block + ops[cut:]
    if rng.random() < 0.2:
        # (drawn last) a caller that registers a component by hand although it is listed already (its agent joined with it): refused
        # or not, the component is listed once
        for _ in range(rng.randint(1, 4)):
            ops.insert(rng.randint(0, len(ops)), {"m": rng.randrange(nm) if nm > 1 else 0, "op": "reregister",
                                                  "k": rng.randrange(64), "t": rng.randrange(NT)})
    return {"worlds": worlds, "agents": nag, "touch": touch, "ops": ops, "envagents": envagents, "wolves": wolves,
            "side_envs": side_envs, "crowd": crowd}


class M:
    def __init__(self, spec, n, idx, envagents=(), wolves=()):
        self.model = Model(seed=20260927)
        self.ref = RefWorld(spec)
        self.env = make_world(self.model, spec)
        nested = {k % n: inner for mi, k, inner in envagents if mi == idx}
        wolf = {k % n for mi, k in wolves if mi == idx}
        self.agents = [Environment(self.model, id=f"m{idx}a{k}") if k in nested else
                       (Wolf if k in wolf else Agent)(f"m{idx}a{k}", self.model) for k in range(n)]
        for k, inner in nested.items():
            for j in range(inner):           # component-less inhabitants of the nested environment
                self.agents[k].add_agent(Agent(f"m{idx}a{k}.in{j}", self.model))
        self.side = None           # a SECOND environment bound to the same model (its agents are agents of the model too)
        self.side_idx = set()
        self.residents = []        # agent indices in joining order
        self.left_once = set()
        self.runner = None


def execute(sc, ctx):
    models = [M(w, max(1, n), i, sc.get("envagents", ()), sc.get("wolves", ())) for i, (w, n) in enumerate(zip(sc["worlds"], sc["agents"]))]
    if not models:
        return
    for mi_ in sc.get("side_envs", ()):
        if 0 <= mi_ < len(models) and models[mi_].side is None:
            mm_ = models[mi_]
            mm_.side = Environment(mm_.model, id=f"side{mi_}")
            for j_ in range(2):
                mm_.side_idx.add(len(mm_.agents))
                mm_.agents.append(Agent(f"m{mi_}a{j_}" if j_ == 0 else f"m{mi_}s{j_}", mm_.model))      # (one of them carries the id of an agent of the main environment: ids are unique per environment)
            ctx.probe("second_environment_bound_to_the_same_model")
    cr_ = sc.get("crowd")
    if cr_ and 0 <= cr_["m"] < len(models) and models[cr_["m"]].side is None:
        mm_ = models[cr_["m"]]
        for j_ in range(int(cr_["n"])):
            mm_.agents.append(Agent(f"m{cr_['m']}c{j_}", mm_.model))
        ctx.probe("population_of_dozens_oscillating")
    if sc.get("wolves"):
        ctx.probe("agent_class_with_class_components")
        for T in (CA, CB, CF):
            if not Wolf.has_class_component(T):
                Wolf.add_class_component(T(Wolf, models[0].model))
    if sc.get("envagents"):
        ctx.probe("agent_is_an_environment")
    touch = bool(sc.get("touch"))
    if touch:
        ctx.probe("resident_touch_run")
    touched = set()     # id() of component instances attached / detached while their agent was resident
    touched_agents = set()
    manual = set()
    shape = []
    flags = {"types": set(), "left_while_shared": False, "rejoin": False}
    deleted_pools = set()

    def ref_listing(mm, T):
        return [mm.agents[k].components[T] for k in mm.residents if T in mm.agents[k].components]

    def classify(real, want):
        """Finding tag when the divergence is explained solely by resident attach / detach, else None."""
        rid, wid = [id(c) for c in real], [id(c) for c in want]
        diff = set(rid) ^ set(wid)
        if not diff:
            # same instances, different order: only a manually registered component may be out of joining order
            if sorted(rid) == sorted(wid) and any(i in manual for i in rid):
                return "F6"
            return None
        if not diff <= touched:
            return None
        if set(wid) - set(rid):
            return "F1"
        return "F3"

    def check_all(where):
        for mi, mm in enumerate(models):
            sm = mm.model.systems
            for T in CT:
                want = ref_listing(mm, T)
                got = sm.get_components(T)
                got2 = sm[T]
                real = got if got is not None else []
                ok = len(real) == len(want) and all(x is y for x, y in zip(real, want)) and (got is not None or not want) \
                    and (want or got is None)
                if not ok:
                    tag = classify(real, want)
                    if tag is not None and tag in sc.get("continue_past", ()):
                        ctx.event("known-divergence-passed", tag)    # hand-written witnesses only (never generated)
                        continue
                    ctx.fail("listing-mismatch",
                             f"{where}: model {mi} type {T.__name__}: listing "
                             f"{[getattr(c.agent, 'id', '?') for c in real] if got is not None else None} expected "
                             f"{[c.agent.id for c in want] or None}", finding=tag)
                ctx.check((got2 is None and got is None) or (got2 is not None and got is not None and len(got2) == len(got)
                                                              and all(x is y for x, y in zip(got2, got))),
                          "listing-accessors-disagree", f"{where}: systems[T] vs get_components(T)")
                if not want:
                    # the pools dict is public (the docs point at it): looking a type up there must not create anything
                    st_, v_ = ctx.call(sm.component_pools.__getitem__, T)
                    ctx.check(st_ == "exc" and isinstance(v_, KeyError), "empty-listing-strict",
                              f"{where}: component_pools[{T.__name__}] with nothing registered did not raise KeyError")
                    st, v = ctx.call(sm.get_components, T, True)
                    ctx.check(st == "exc" and isinstance(v, KeyError), "empty-listing-strict",
                              f"{where}: get_components({T.__name__}, True) on an empty listing did not raise KeyError")
                else:
                    st, v = ctx.call(sm.get_components, T, True)
                    ctx.check(st == "ok" and v is not None and len(v) == len(got) and all(x is y for x, y in zip(v, got)),
                              "listing-strict", f"{where}: {T.__name__}")
            ctx.check([a.id for a in mm.env] == [mm.agents[k].id for k in mm.residents if k not in mm.side_idx], "membership",
                      f"{where}: model {mi}")
            if mm.side is not None:
                ctx.check([a.id for a in mm.side] == [mm.agents[k].id for k in mm.residents if k in mm.side_idx], "membership",
                          f"{where}: model {mi} (second environment)")
        types_here = [{T for k in mm.residents for T in mm.agents[k].components if T is not PositionComponent} for mm in models]
        if len(models) >= 2 and any(types_here[i] & types_here[j] for i in range(len(models)) for j in range(i)):
            ctx.probe("two_models_same_type")

    def apply(op):
        mi = op["m"] % len(models)
        mm = models[mi]
        kind = op["op"]
        sm = mm.model.systems
        if kind == "instep":
            # the sub-operations are issued by a System from inside a running timestep of this model
            if not mm.model.is_running() or not op.get("sub"):
                return
            if mm.runner is None:
                mm.runner = Runner(mm.model)
                ctx.expect_ok("add-runner", sm.add_system, mm.runner)
            mm.runner.todo = [dict(o, m=mi) for o in op["sub"] if o.get("op") in INSTEP_OPS]
            mm.runner.apply = apply
            ctx.probe("ops_from_inside_a_timestep")
            st, v = ctx.call(mm.model.execute)
            if st != "ok":
                ctx.fail("step:unexpected-exception", f"{type(v).__name__}: {v}")
            ctx.check(not mm.runner.todo, "runner-did-not-run", "the harness system was not executed in a running model's step")
            check_all("after-instep")
            return
        if kind in ("join", "leave", "attach", "detach", "join_dup", "reregister"):
            k = op["k"] % len(mm.agents)
            a = mm.agents[k]
        if kind == "reregister":
            T = CT[op["t"] % NT]
            # prefer a holder in the MIDDLE of the listing (neither the first nor the last listed component of its kind)
            holders = [j for j in mm.residents if T in mm.agents[j].components and mm.agents[j].id not in touched_agents]
            if not holders or not mm.model.is_running() and False:
                return
            j = holders[len(holders) // 2] if len(holders) >= 3 else (k if k in holders else holders[0])
            c = mm.agents[j].components[T]
            listed = sm.get_components(T) or []
            if not any(x is c for x in listed):
                return
            ctx.fault("reject.duplicate_registration")
            st, v = ctx.call(sm.register_component, c)        # refused (KeyError) or ignored: either way it is listed once
            ctx.probe("listed_component_registered_again" + ("_mid_listing" if len(holders) >= 3 else ""))
            ctx.event("reregister", mi, j, T.__name__, st)
        if kind == "attach":
            T = CT[op["t"] % NT]
            resident = k in mm.residents
            if T in a.components:
                return
            if resident and not touch:
                return
            c = T(a, mm.model)
            donors = [mm.agents[j].components[T] for j in mm.residents if j != k and T in mm.agents[j].components]
            if op.get("clone") and donors and not resident and T is not CF:
                # offspring inherits a parent's component: a shallow copy of a component that is registered right now,
                # re-pointed at the new owner - a distinct, well-formed component
                c = copy.copy(donors[0])
                c.agent = a
                ctx.probe("component_cloned_from_a_registered_one")
            ctx.expect_ok("attach", a.add_component, c)
            if T is CD:
                ctx.probe("subclass_component")
            if T is CG:
                ctx.probe("position_subclass_component")
            if resident:
                touched.add(id(c))
                touched_agents.add(a.id)
                if op.get("manual"):
                    ctx.expect_ok("manual-register", sm.register_component, c)
                    manual.add(id(c))
                    ctx.probe("manual_register")
            elif k in mm.left_once:
                ctx.probe("attach_after_leaving")
            ctx.event("attach", mi, k, T.__name__, resident, bool(op.get("manual")))
        elif kind == "detach":
            T = CT[op["t"] % NT]
            resident = k in mm.residents
            if T not in a.components:
                return
            if resident and not touch:
                return
            c = a.components[T]
            how = op.get("manual", "no") if resident else "no"
            if resident:
                touched.add(id(c))
                touched_agents.add(a.id)
            if how == "before":
                st, v = ctx.call(sm.deregister_component, c)
                if st != "ok":
                    ctx.fail("manual-deregister-failed", f"{type(v).__name__}: {v}",
                             finding="F1" if id(c) in touched and id(c) not in manual else None)
            ctx.expect_ok("detach", a.remove_component, T)
            if how == "after":
                st, v = ctx.call(sm.deregister_component, c)
                if st != "ok":
                    ctx.fail("manual-deregister-failed", f"{type(v).__name__}: {v}",
                             finding="F1" if id(c) in touched and id(c) not in manual else None)
            ctx.event("detach", mi, k, T.__name__, resident, how)
        elif kind == "join":
            if k in mm.residents:
                return
            args = ()
            if k in mm.side_idx:
                ctx.expect_ok("join", mm.side.add_agent, a)
                mm.residents.append(k)
                ctx.event("join-side", mi, k)
            elif mm.ref.spatial:
                p = [min(int(op["frac"][ax] * (mm.ref.hi(ax) + 1)), max(mm.ref.hi(ax), 0)) if mm.ref.positive(ax) else 0
                     for ax in range(3)]
                args = mm.ref.real(p)
                ctx.probe("spatial_join_leave")
            if k in mm.side_idx:
                pass
            elif op.get("camel"):
                ctx.probe("deprecated_camelcase_spelling")
                if mm.ref.spatial and not mm.ref.inside([0, 0, 0]):
                    return
                ctx.expect_ok("join", mm.env.addAgent, a)         # a spatial world places it at the documented default (0, 0, 0)
            else:
                ctx.expect_ok("join", mm.env.add_agent, a, *args)
            if k not in mm.side_idx:
                mm.residents.append(k)
            if k in mm.left_once:
                ctx.probe("rejoin")
                flags["rejoin"] = True
            for T in a.components:
                if T is not PositionComponent:
                    flags["types"].add(T)
                    if (mi, T) in deleted_pools:
                        ctx.probe("pool_deleted_and_recreated")
            ctx.event("join", mi, k)
        elif kind == "leave":
            if k not in mm.residents:
                return
            idx = mm.residents.index(k)
            if 0 < idx < len(mm.residents) - 1:
                ctx.probe("leave_from_middle")
            mine = {T for T in a.components if T is not PositionComponent}
            others = {T for j in mm.residents if j != k for T in mm.agents[j].components}
            env_ = mm.side if k in mm.side_idx else mm.env
            st, v = ctx.call(env_.removeAgent if op.get("camel") else env_.remove_agent, a.id)
            if st != "ok":
                tag = "F2" if isinstance(v, KeyError) and a.id in touched_agents else None
                ctx.fail("leave-failed", f"model {mi}: remove_agent({a.id}) raised {type(v).__name__}: {v}", finding=tag)
            mm.residents.remove(k)
            mm.left_once.add(k)
            if mine & others:
                flags["left_while_shared"] = True
            for T in mine - others:
                deleted_pools.add((mi, T))
            ctx.event("leave", mi, k)
        elif kind == "leave_ghost":
            ctx.fault("reject.unknown_agent")
            ctx.probe("reject_leave")
            ctx.expect_raises("leave-unknown", AgentNotFoundError, mm.env.remove_agent, "nobody")
        elif kind == "join_dup":
            if k not in mm.residents:
                return
            ctx.fault("reject.dup_agent")
            ctx.probe("reject_join")
            twin = Agent(a.id, mm.model)
            twin.add_component(CB(twin, mm.model))
            args = mm.ref.real([0, 0, 0]) if mm.ref.spatial else ()
            ctx.expect_raises("join-duplicate", DuplicateAgentError, mm.env.add_agent, twin, *args)
        elif kind == "fill":
            # the container component of an agent gets / loses content: it stays the same component, only its truthiness changes
            a_ = mm.agents[op["k"] % len(mm.agents)]
            if CF in a_.components:
                a_.components[CF].items[:] = list(range(op["n"]))
                ctx.probe("falsy_component_emptied" if op["n"] == 0 else "falsy_component_filled")
        elif kind == "lifecycle":
            # the listing claim does not depend on the model's lifecycle: stepping or completing a model changes nothing
            if op["what"] == "complete":
                ctx.expect_ok("complete", mm.model.complete)
                ctx.probe("model_completed_then_join_leave")
            else:
                ctx.expect_ok("step", mm.model.execute)
            ctx.event("lifecycle", mi, op["what"])
        elif kind == "query":
            pass
        check_all(kind)
        sizes = [len(ref_listing(mm, T)) for T in CT]
        shape.append([mi, kind, sizes])
        ctx.state([[len(x.residents) for x in models], mi, kind, sizes])
    for op in sc["ops"]:
        apply(op)
    ctx.nontrivial = len(flags["types"]) >= 2 and flags["left_while_shared"] and flags["rejoin"]
    ctx.sig = shape[:80]
