"""C02 - a system runs exactly in its start/end/frequency window; one step = +1.

Simulated dimension: the model timestep IS the simulated clock and systems are periodic timers. The
simulator advances the clock through the real scheduler (execute(n), bare execute_systems()), registers
systems late (also after their start, on and off a firing instant) and compares every firing with a
reference timer wheel; a twin model advanced strictly one step at a time must log the same."""
import copy
import gc

import numpy

from .common import ambient_warnings, model_class, MAXSIZE, Model, RefSched, gen_flavour, gen_prio, rec_class, spec_defaults

PROPERTY = "C02"
QUICK_RUNS = 20000
CHUNK = 400
RULE = ("1-8 timer systems with start in [-12,50] or far future, end in {forever, <start, =start, inside horizon}, "
        "frequency 1..9 or beyond the horizon, registered before the run or at a later clock value; clock advanced by "
        "execute(n), n in 1..7, and bare execute_systems(), with rejected n (0, negative, float, str, None, list) "
        "injected; non-trivial = >=1 system with start != 0 and frequency > 1 fired >=2 times and >=1 system was "
        "registered after its start; distinct = multiset of (start, end-class, frequency, registration offset) plus "
        "the advance pattern"
        "; also: removal and re-registration (other window, same id), systems registered by other systems from inside a step (also inside execute(n)), str-subclass ids, systems with value-based __eq__, falsy systems, window bounds given as numpy.int64, a system whose execute() lets an exception (incl. StopIteration) escape, the run continued on a deep copy of the model after the source was completed / dropped")
COMPONENTS = {"real": ["ECAgent.Core.SystemManager.execute_systems (activation predicate, clock)", "ECAgent.Core.Model.execute",
                       "Model.timestep forwarding"],
              "stub": ["System.execute bodies are harness recorders"]}
PROBES = ["invalid_n_on_a_finished_model", "fired_at_end", "silent_after_end", "negative_start", "end_before_start", "late_registration_out_of_phase",
          "late_registration_in_phase", "bad_n_rejected", "freq_beyond_horizon", "bare_execute_systems", "reregistered_after_removal", "registered_from_inside_a_step",
          "registered_inside_multi_step_request", "str_subclass_id", "numpy_int_window", "falsy_systems", "system_failure_reached_the_caller", "systems_returning_values_from_execute", "run_continued_on_a_deep_copy",
          "window_of_a_registered_system_edited_in_place", "clock_put_back"]
TECHNIQUE = "deterministic simulation: model clock stepped through the real scheduler vs a reference timer wheel and a single-stepped twin model"
LEVEL_TEXT = ("Seeded search over timer windows, registration instants and advance patterns; every firing of every timestep is "
              "compared with the predicate start<=t<=end and (t-start)%f==0, the clock with the count of accepted steps, "
              "and execute(n) with n single steps on a twin. Sampling, not proof; horizon <=80 timesteps, <=8 systems.")
LEVEL_NOTE = "Trusted: the reference predicate; bool step counts are not generated (not settled by the statement)."
SHRINK_LISTS = ["ops", "spawns", "systems"]
SHRINK_SKIP = ("end",)

BAD = {"zero": (0, ValueError), "neg1": (-1, ValueError), "neg5": (-5, ValueError), "float1": (1.0, TypeError),
       "float2": (2.5, TypeError), "str": ("3", TypeError), "none": (None, TypeError), "list": ([1], TypeError)}


def generate(rng, tier):
    horizon = rng.randint(6, 80 if tier == "thorough" else 50)
    n = rng.randint(1, 8)
    systems = []
    for i in range(n):
        start = rng.choice([0, 0, 1, 2, 3, 5, -1, -4, -12, rng.randint(-12, 50), rng.randint(0, horizon)])
        if rng.random() < 0.04:
            start = horizon + rng.randint(1, 10 ** 6)
        r = rng.random()
        if r < 0.45:
            end = MAXSIZE
        elif r < 0.55:
            end = start - rng.randint(1, 4)
        elif r < 0.65:
            end = start
        else:
            end = rng.randint(max(0, start), max(0, start) + horizon)
        freq = rng.choice([1, 1, 2, 2, 3, 3, 4, 5, 6, 7, 8, 9])
        if rng.random() < 0.05:
            freq = horizon + rng.randint(1, 50)
        systems.append({"id": f"s{i}", "strsub": rng.random() < 0.15,
                        "prio": gen_prio(rng) if rng.random() < 0.3 else rng.choice([-1, 0, 1]),
                        "start": start, "end": end, "freq": freq})
    ops = []
    pending = list(range(n))
    rng.shuffle(pending)
    # most systems are registered up front, some later
    for k in list(pending):
        if rng.random() < 0.6:
            ops.append({"op": "add", "k": k})
            pending.remove(k)
    t = 0
    while t < horizon:
        r = rng.random()
        if pending and r < 0.2:
            ops.append({"op": "add", "k": pending.pop()})
        elif r < 0.27:
            k = rng.randrange(n)
            ops.append({"op": "remove", "k": k})
            if rng.random() < 0.7:
                # re-registered later, sometimes with another window under the same id
                ops.append({"op": "adv", "n": rng.randint(1, 4)})
                t += ops[-1]["n"]
                alt = None
                if rng.random() < 0.6:
                    alt = {"start": rng.choice([0, 1, 2, t, t - 3, -2]), "end": rng.choice([MAXSIZE, t + rng.randint(0, 10)]),
                           "freq": rng.choice([1, 2, 3, 4, 5])}
                ops.append({"op": "add", "k": k, "window": alt})
        elif r < 0.35:
            ops.append({"op": "bad", "v": rng.choice(sorted(BAD))})
        elif r < 0.45:
            ops.append({"op": "bare"})
            t += 1
        else:
            n_ = rng.randint(1, 7)
            ops.append({"op": "adv", "n": n_})
            t += n_
    spawns = []
    if rng.random() < 0.4 and n >= 2:
        # a system registers another system from inside its execute() - also in the middle of an execute(n) request
        for _ in range(rng.randint(1, 3)):
            by, k = rng.sample(range(n), 2)
            if pending and rng.random() < 0.8:
                k = rng.choice(pending)          # prefer a system nobody registers from outside
                if k == by:
                    by = (k + 1) % n
            f = systems[by]["freq"]
            t = max(0, systems[by]["start"]) + f * rng.randint(0, max(1, horizon // (2 * f)))   # a firing instant of the spawner
            spawns.append({"by": by, "t": min(t, horizon - 1), "k": k})
    for _ in range(rng.choice([0, 0, 0, 1, 2])):
        ops.insert(rng.randint(0, len(ops)), {"op": "rewindow", "k": rng.randrange(n), **rng.choice([{"end": rng.randint(0, 12)}, {"end": rng.randint(0, 12)},
                                                                                                       {"start": rng.randint(-3, 6)}])})
    if rng.random() < 0.1:
        ops.insert(rng.randint(len(ops) // 2, len(ops)), {"op": "setclock", "t": rng.choice([0, 0, 1, 3, rng.randint(0, 20)])})
    if rng.random() < 0.12:
        ops.insert(rng.randint(0, len(ops)), {"op": "branch", "then": rng.choice(["complete_source", "complete_source", "collect_source", "nothing"])})
    raises = None
    if rng.random() < 0.08:
        # one system's execute() lets an exception escape at some timestep (a bare next() on an exhausted iterator, a
        # missing key ...): either the caller sees it, or - if the request returns normally - nothing due was skipped
        raises = {"k": rng.randrange(n), "t": rng.randint(0, max(1, horizon // 2)),
                  "exc": rng.choice(["StopIteration", "StopIteration", "KeyError", "ValueError", "GeneratorExit", "LookupError",
                                     "ModelCompleteError", "ModelCompleteError", "SystemNotFoundError"])}
    for s in systems:
        if rng.random() < 0.12:      # window bounds that are numpy integers (taken out of an array, say)
            s["np"] = rng.choice([["start"], ["start"], ["start", "end"], ["freq"], ["start", "end", "freq"], ["end"]])
    out = dict({"systems": systems, "ops": ops, "spawns": spawns, "raises": raises}, **gen_flavour(rng))
    out["finish_then_bad"] = rng.random() < 0.25     # arguments are validated whatever state the model is in
    if systems and rng.random() < 0.1:
        # a system may be called anything: also what the model or the scheduler call their own attributes
        systems[rng.randrange(len(systems))]["id"] = rng.choice(["timestep", "timestep", "systems", "environment", "random", "logger", "execute",
                                                                  "complete", "model", "execution_queue", "_status", "component_pools"])
    return out


class SID(str):
    """A system id type that is a str subclass (e.g. a str-valued Enum member in user code)."""
    __slots__ = ()


def npify(spec):
    """The same window with some bounds given as numpy.int64 (the reference keeps plain ints)."""
    if not spec.get("np"):
        return spec
    out = dict(spec)
    for k in spec["np"]:
        if k in out and -2 ** 63 <= out[k] < 2 ** 63:
            out[k] = numpy.int64(out[k])
    return out


RAISES = {"StopIteration": StopIteration, "KeyError": KeyError, "ValueError": ValueError, "GeneratorExit": GeneratorExit,
          "LookupError": LookupError, "ModelCompleteError": __import__("ECAgent.Core", fromlist=["x"]).ModelCompleteError,
          "SystemNotFoundError": __import__("ECAgent.Core", fromlist=["x"]).SystemNotFoundError}


class World:
    def __init__(self, model, sc=None):
        self.model = model
        self.log = []
        self.open_all = set()
        self.reg = set()
        self.systems = (sc or {}).get("systems", [])
        self.spawns = (sc or {}).get("spawns", [])
        self.rec_cls = rec_class(sc or {})
        self.raises = (sc or {}).get("raises")
        self.armed = False

    def on_execute(self, s):
        t = self.model.systems.timestep
        self.log.append((t, s.id))
        r = self.raises
        if self.armed and r and self.systems and t >= r["t"] and self.systems[r["k"] % len(self.systems)]["id"] == s.id:
            self.armed = False
            self.raised = True
            if r["exc"] == "ModelCompleteError":
                raise RAISES[r["exc"]]()       # what stepping an already completed inner model with throw_error=True raises
            raise RAISES[r["exc"]](f"scripted failure of {s.id} at t={t}")
        for sp in self.spawns:
            if sp["t"] == t and self.systems and self.systems[sp["by"] % len(self.systems)]["id"] == s.id:
                spec = spec_defaults(self.systems[sp["k"] % len(self.systems)])
                if spec["id"] not in self.reg and spec["freq"] >= 1:
                    if spec.get("strsub"):
                        spec = dict(spec, id=SID(spec["id"]))
                    self.model.systems.add_system(self.rec_cls(npify(spec), self.model, self))
                    self.reg.add(spec["id"])


def execute(sc, ctx):
    ambient_warnings(sc, ctx)
    m, twin = model_class(sc, ctx)(seed=20260927), model_class(sc)(seed=20260927)
    w, wt = World(m, sc), World(twin, sc)
    w.armed = bool(sc.get("raises"))        # the twin never fails
    w.raised = wt.raised = False
    ref = RefSched()
    systems = sc["systems"]
    fired = {}
    removed = set()
    late = False
    advs = []

    def check_clock(where):
        ctx.check(m.timestep == ref.t and m.systems.timestep == ref.t, "clock",
                  f"{where}: model.timestep={m.timestep} systems.timestep={m.systems.timestep} accepted steps={ref.t}")

    def advance(n, how):
        before = len(w.log)
        t0 = ref.t
        w.raised = False
        try:
            st, v = ctx.call(m.systems.execute_systems) if how == "bare" else ctx.call(m.execute, n)
        except GeneratorExit as e:          # (a BaseException: ctx.call does not catch it)
            st, v = "exc", e
        if st != "ok":
            # only the scripted failure may escape, and it must be the very exception the system raised
            ctx.check(w.raised and isinstance(v, RAISES[w.raises["exc"]]), f"{how}:unexpected-exception", f"{type(v).__name__}: {v}")
            ctx.probe("system_failure_reached_the_caller")
            w.request_failed = True
            return True      # what a failed request leaves behind is not constrained: the scenario ends here
        if w.raised:
            ctx.probe("system_failure_swallowed_by_the_scheduler")
            wt.armed = False
        for _ in range(n):
            ctx.expect_ok("twin-step", twin.execute)
        new = w.log[before:]
        ctx.event(how, n, new)
        want = []
        open_pairs = set()      # (t, newcomer): whether a system registered during t already runs in t is left open
        for t in range(t0, t0 + n):
            due = ref.due(t)
            want.extend(sorted((t, sid) for sid in due))
            for sp in sc.get("spawns", []):
                if sp["t"] == t and systems and systems[sp["by"] % len(systems)]["id"] in due:
                    nspec = spec_defaults(systems[sp["k"] % len(systems)])
                    if not ref.has(nspec["id"]) and nspec["freq"] >= 1:
                        ref.add(nspec)
                        open_pairs.add((t, nspec["id"]))
                        ctx.probe("registered_from_inside_a_step")
                        if n > 1 and t < t0 + n - 1:
                            ctx.probe("registered_inside_multi_step_request")
            for s in ref.q:
                if s["id"] in due:
                    fired[s["id"]] = fired.get(s["id"], 0) + 1
                    if t == s["end"]:
                        ctx.probe("fired_at_end")
                elif t == s["end"] + 1 and s["end"] >= s["start"]:
                    ctx.probe("silent_after_end")
        ref.t += n
        ctx.sim_time += n
        w.open_all |= open_pairs
        got = sorted(e for e in new if tuple(e) not in open_pairs)
        want = [e for e in want if e not in open_pairs]
        ctx.check(got == sorted(want), "firing",
                  lambda: f"t in [{t0},{t0 + n}): fired {got} expected {sorted(want)}; "
                          f"windows={[(s['id'], s['start'], s['end'], s['freq']) for s in ref.q]}")
        # executions are stamped with the timestep they ran in, in non-decreasing order
        ctx.check([t for t, _ in new] == sorted(t for t, _ in new), "clock-order", f"{new}")
        check_clock(how)
        ctx.check(sorted(e for e in wt.log if e not in w.open_all) == sorted(e for e in w.log if e not in w.open_all), "twin",
                  "execute(n) differs from n single steps")
        ctx.check(twin.timestep == m.timestep, "twin-clock", f"{twin.timestep} != {m.timestep}")

    for op in sc["ops"]:
        kind = op["op"]
        if kind == "add":
            if not systems:
                continue
            spec = spec_defaults(systems[op["k"] % len(systems)])
            if op.get("window"):
                spec.update(op["window"])
            if ref.has(spec["id"]):
                continue
            if spec["id"] in removed:
                ctx.probe("reregistered_after_removal")
            if spec["freq"] < 1:
                continue
            rspec = dict(spec, id=SID(spec["id"])) if spec.get("strsub") else spec
            if spec.get("strsub"):
                ctx.probe("str_subclass_id")
            R_ = rec_class(sc, ctx)       # noqa: N806
            if spec.get("np"):
                ctx.probe("numpy_int_window")
                rspec = npify(rspec)
            ctx.expect_ok("add", m.systems.add_system, R_(rspec, m, w))
            ctx.expect_ok("add-twin", twin.systems.add_system, R_(rspec, twin, wt))
            w.reg.add(spec["id"])
            wt.reg.add(spec["id"])
            ref.add(spec)
            ctx.event("add", spec["id"], ref.t)
            if spec["start"] < 0:
                ctx.probe("negative_start")
            if spec["end"] < spec["start"]:
                ctx.probe("end_before_start")
            if spec["freq"] > 80:
                ctx.probe("freq_beyond_horizon")
            if ref.t > spec["start"] and spec["end"] >= ref.t:
                late = True
                ctx.probe("late_registration_in_phase" if (ref.t - spec["start"]) % spec["freq"] == 0
                          else "late_registration_out_of_phase")
        elif kind == "remove":
            if not systems:
                continue
            sid = systems[op["k"] % len(systems)]["id"]
            if not ref.has(sid):
                continue
            ctx.expect_ok("remove", m.systems.remove_system, sid)
            ctx.expect_ok("remove-twin", twin.systems.remove_system, sid)
            ref.remove(sid)
            w.reg.discard(sid)
            wt.reg.discard(sid)
            removed.add(sid)
            ctx.event("remove", sid, ref.t)
        elif kind == "adv":
            n = max(1, min(int(op["n"]), 10))
            if ref.t + n > 200:
                continue
            advs.append(n)
            if advance(n, "adv"):
                break
        elif kind == "bare":
            if ref.t + 1 > 200:
                continue
            advs.append(0)
            ctx.probe("bare_execute_systems")
            if advance(1, "bare"):
                break
        elif kind == "rewindow":
            # the window of a REGISTERED system is edited in place (public attributes): from now on the new window counts
            if not systems:
                continue
            sid = systems[op["k"] % len(systems)]["id"]
            if not ref.has(sid):
                continue
            for mdl in (m, twin):
                obj_ = mdl.systems[sid]
                ctx.check(obj_ is not None, "registry", f"{sid} is registered but systems[{sid!r}] is None")
                if "end" in op:
                    obj_.end = ref.t + int(op["end"])
                if "start" in op:
                    obj_.start = ref.t + int(op["start"])
            for s_ in ref.q:
                if s_["id"] == sid:
                    if "end" in op:
                        s_["end"] = ref.t + int(op["end"])
                    if "start" in op:
                        s_["start"] = ref.t + int(op["start"])
            ctx.probe("window_of_a_registered_system_edited_in_place")
            ctx.event("rewindow", sid, op.get("start"), op.get("end"))
        elif kind == "setclock":
            # the clock is a public attribute: a burn-in is followed by putting it back (never inside a step)
            v_ = max(0, min(int(op["t"]), ref.t))
            m.systems.timestep = v_
            twin.systems.timestep = v_
            ref.t = v_
            ctx.probe("clock_put_back")
            ctx.event("setclock", v_)
        elif kind == "branch":
            # checkpoint / branch: the run continues on a deep copy of the model (systems and their log travel along); the
            # source model is completed (or dropped) afterwards - the copy is a running model of its own
            src = m
            m, w = copy.deepcopy((m, w))
            if op.get("then") == "complete_source":
                src.complete()
            del src
            if op.get("then") == "collect_source":
                gc.collect()
            ctx.fault("restart.continue_on_copy")
            ctx.probe("run_continued_on_a_deep_copy")
        elif kind == "bad":
            v, exc = BAD[op["v"]] if op["v"] in BAD else BAD["zero"]
            before = len(w.log)
            ctx.fault("reject.bad_n")
            armed_, w.armed = w.armed, False        # (a rejected request runs nothing: the scripted failure must not mask "it ran")
            try:
                ctx.expect_raises("bad-n", exc, m.execute, v)
            finally:
                w.armed = armed_
            ctx.probe("bad_n_rejected")
            ctx.event("bad", op["v"])
            ctx.check(len(w.log) == before, "bad-n-executed", f"execute({v!r}) ran systems")
            check_clock(f"after rejected execute({v!r})")
        ctx.state([ref.t % 12, sorted((s["start"] % 12, s["freq"], min(s["end"], 99)) for s in ref.q)])
    if sc.get("finish_then_bad") and not getattr(w, "request_failed", False):
        # the model is finished (from outside); a step request with an invalid n is still an invalid request
        ctx.probe("invalid_n_on_a_finished_model")
        ctx.expect_ok("complete", m.complete)
        for name_ in sorted(BAD):
            v, exc = BAD[name_]
            before = len(w.log)
            ctx.fault("reject.bad_n")
            w.armed = False
            ctx.expect_raises("bad-n-finished-model", exc, m.execute, v)
            ctx.check(len(w.log) == before, "bad-n-executed", f"execute({v!r}) on the finished model ran systems")
            check_clock(f"after rejected execute({v!r}) on the finished model")
    periodic = any(s["start"] != 0 and s["freq"] > 1 and fired.get(s["id"], 0) >= 2 for s in ref.q)
    ctx.nontrivial = periodic and late
    ctx.sig = [sorted([s["start"], min(s["end"] - s["start"], 99), s["freq"]] for s in ref.q), advs]
