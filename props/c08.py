"""C08 - agents stay inside the world; moves are exactly modular or saturating.

Simulated dimension: seeded placement / move / move_to / remove histories over several agents with
injected rejected operations (out-of-bounds placement and move_to on every face, operations on agents
that have left), against an exact arithmetic reference; containment is checked on every agent after
every operation."""
import copy
import math
import pickle

from ECAgent.Core import Agent, ComponentNotFoundError, Model
from ECAgent.Environments import PositionComponent

from simkit.stepgate import StepGate

from .worlds import RefWorld, gen_coord, gen_delta, gen_extras, gen_world, get_pos, make_agents, make_world

PROPERTY = "C08"
QUICK_RUNS = 16000
CHUNK = 200
RULE = ("world kind in {SpaceWorld, DiscreteWorld, LineWorld, GridWorld}, extents 0 or >=1 per axis, non-cubic by "
        "construction in most runs, wrapping on/off, 1-5 agents, 5-60 ops from add(pos) / move(delta) / move_to(pos) / "
        "remove with arguments in range, on each boundary, one beyond and far out (|delta| up to 1e6, multi-lap, mixed "
        "signs); integers in grid worlds, dyadic k/8 in continuous worlds; non-trivial = >=2 agents in a non-cubic world "
        "and >=1 move crossing an edge; distinct = (kind, extents class, wrap, sequence of op kinds with accept/reject "
        "and edge-crossing flags)"
        "; also: worlds that are not model.environment, wrap_env reassigned in mid-history, coordinates left to their documented defaults, model lifecycle ops, integer moves of 2**31..2**64 in grid worlds repeated on one axis, agents carrying own components incl. a PositionComponent subclass, agents that are environments themselves, stretches of the history issued from inside a running timestep, placements / removals spelled addAgent / removeAgent, coordinates one ulp outside a continuous world, the history continued on a deepcopy / pickle round trip of model, world and agents")
COMPONENTS = {"real": ["ECAgent.Environments.SpaceWorld.add_agent / remove_agent / move / move_to", "DiscreteWorld / LineWorld / "
                       "GridWorld constructors", "PositionComponent"],
              "stub": ["agents are plain ECAgent agents created by the harness"]}
PROBES = ["continuous_world_off_the_dyadic_lattice", "saturated_at_an_edge_off_the_lattice", "multi_lap_wrap", "negative_wrap", "clamp_both_sides_one_move", "placement_on_hi", "zero_extent_axis",
          "reject.oob", "reject.move_to_oob", "reject.no_position", "move_to_accepted", "continuous_world", "grid_world", "model_lifecycle_op", "wrap_mode_switched", "defaults_used_for_omitted_coordinates", "huge_integer_move_in_grid", "integer_move_beyond_the_decimal_conversion_limit",
          "agent_with_position_subclass_component", "agent_is_an_environment", "ops_from_inside_a_timestep", "deprecated_camelcase_spelling",
          "one_ulp_outside_a_continuous_world", "history_continued_on_a_copy"]
TECHNIQUE = "deterministic simulation: seeded placement/move histories with injected rejected operations vs an exact (dyadic) arithmetic reference, containment invariant after every op"
LEVEL_TEXT = ("Seeded search over world configurations and move histories; after every operation every resident agent's "
              "coordinates must equal the exact reference (modular in wrapping worlds, saturating otherwise) and lie inside "
              "the world; rejected operations must raise and change nothing. Sampling, not proof; <=5 agents, <=60 ops.")
LEVEL_NOTE = ("Trusted: the arithmetic reference; coordinates are dyadic so float arithmetic is exact; axes of zero extent and "
              "extents in (0,1) are outside the statement and not compared / generated.")
SHRINK_LISTS = ["ops"]


def generate(rng, tier):
    world = gen_world(rng)
    world["attached"] = rng.random() < 0.8
    ref = RefWorld(world)
    n = rng.randint(1, 8 if tier == "thorough" else 5)
    ops = []
    for k in range(n):
        if rng.random() < 0.8:
            ops.append({"op": "add", "k": k, "p": [rng.randint(0, max(ref.hi(ax), 0)) if ref.positive(ax) else 0 for ax in range(3)]})
    for _ in range(rng.randint(5, 80 if tier == "thorough" else 50)):
        r = rng.random()
        k = rng.randrange(n)
        if r < 0.2:
            ops.append({"op": "add", "k": k, "p": [gen_coord(rng, ref, ax) if rng.random() < 0.6 else
                                                    (rng.randint(0, max(ref.hi(ax), 0)) if ref.positive(ax) else 0)
                                                    for ax in range(3)]})
        elif r < 0.65:
            axes = rng.sample(range(3), rng.randint(1, 3))
            ops.append({"op": "move", "k": k, "d": [gen_delta(rng, ref, ax) if ax in axes else 0 for ax in range(3)],
                        "sparse": rng.random() < 0.4})
        elif r < 0.88:
            ops.append({"op": "move_to", "k": k, "p": [gen_coord(rng, ref, ax) if rng.random() < 0.5 else
                                                        (rng.randint(0, max(ref.hi(ax), 0)) if ref.positive(ax) else 0)
                                                        for ax in range(3)], "sparse": rng.random() < 0.4})
            if ops[-1]["sparse"] and rng.random() < 0.6:
                ops[-1]["p"] = [ops[-1]["p"][0], 0 if rng.random() < 0.7 else ops[-1]["p"][1], 0]
        elif r < 0.985:
            ops.append({"op": "remove", "k": k})
        elif r < 0.993:
            ops.append({"op": "lifecycle", "k": k, "what": rng.choice(["step", "complete"])})
        else:
            ops.append({"op": "flip_wrap", "k": k})
    if ref.den == 1 and rng.random() < 0.25:
        # grid worlds: astronomically large integer moves (exact in integer arithmetic), twice in a row on the same axis -
        # the second one starts from whatever object the first one stored
        for _ in range(rng.randint(1, 2)):
            k = rng.randrange(n)
            ax = rng.randrange(3)
            sign = rng.choice([1, 1, -1])
            at = rng.randint(0, len(ops))
            for j in range(rng.choice([2, 2, 3])):
                big = rng.choice([2 ** 63 - 1, 2 ** 63 - 1, 2 ** 63, 2 ** 64 + 3, 2 ** 63 - 1 - rng.randint(0, 40), 2 ** 31, 2 ** 32 + 1,
                                  10 ** 400, 2 ** 1024 + 1])       # (the last two do not fit a float: grid arithmetic is exact anyway)
                d = [0, 0, 0]
                d[ax] = sign * big
                ops.insert(at + j, {"op": "move", "k": k, "d": d, "sparse": rng.random() < 0.3, "huge": True})
        if rng.random() < 0.3:
            # an integer too long to be written out in decimal (CPython refuses str() beyond 4300 digits): still a finite
            # integer, still exact. It travels in the scenario as base ** exp + add.
            d = [0, 0, 0]
            d[rng.randrange(3)] = {"sign": rng.choice([1, -1]), "base": rng.choice([10, 10, 7]), "exp": rng.choice([4400, 5000, 9999]),
                                   "add": rng.randint(0, 9)}
            ops.insert(rng.randint(0, len(ops)), {"op": "move", "k": rng.randrange(n), "d": d, "sparse": rng.random() < 0.3,
                                                  "huge": True, "unprintable": True})
    for o_ in ops:        # the deprecated camelCase spellings (addAgent / removeAgent) are still public API: some calls use them
        if o_.get("op") in ("add", "remove") and rng.random() < 0.08:
            o_["camel"] = True
    if rng.random() < 0.25 and len(ops) >= 2:
        # a stretch of the history is issued from inside a running timestep (by a System, as far as the package can tell)
        i_ = rng.randint(0, len(ops) - 1)
        j_ = rng.randint(i_ + 1, len(ops))
        ops.insert(j_, {"op": "leave_step"})
        ops.insert(i_, {"op": "enter_step"})
    if rng.random() < 0.15:
        for _ in range(rng.randint(1, 2)):
            ops.insert(rng.randint(0, len(ops)), {"op": "branch", "k": 0, "how": rng.choice(["deepcopy", "deepcopy", "pickle"])})
    for o_ in ops:
        if o_.get("op") in ("add", "move_to") and rng.random() < 0.05:
            o_["ulp"] = [rng.randrange(3), rng.choice(["hi", "hi", "lo"])]
    extras = gen_extras(rng, n, lambda ax: rng.randint(0, max(ref.hi(ax), 0)) if ref.positive(ax) else 0)
    floaty = None
    if rng.random() < 0.15:
        # a non-wrapping continuous world whose extents, positions and moves are arbitrary doubles (7.3, 19.99 ...), not the
        # dyadic lattice of the main history: "old + delta saturated to the world's edges" is then still exact - the double
        # sum where it fits, exactly the edge where it does not
        ext = [rng.choice([7.3, 19.99, 9.1, 0.7 * rng.randint(2, 40), rng.uniform(1, 30), 12.7]) for _ in range(2)] + [rng.choice([0.0, 0.0, 5.3])]
        ags = [[rng.uniform(0, e) if e else 0.0 for e in ext] for _ in range(rng.randint(1, 4))]
        mv = [[rng.randrange(len(ags))] + [rng.choice([rng.uniform(-3, 3), rng.uniform(-40, 40), 100.0, -100.0, 0.1, 1e-9, e_ - 1e-12]) for e_ in ext]
              for _ in range(rng.randint(3, 25))]
        floaty = {"ext": ext, "agents": ags, "moves": mv}
    return {"world": world, "n": n, "ops": ops, "extras": extras, "floaty": floaty}


def sparse(args, on):
    """Drop trailing coordinates that equal the documented default 0 (move_to(agent, 4) requests (4, 0, 0))."""
    args = list(args)
    if on:
        while args and args[-1] == 0:
            args.pop()
    return args


def float_arm(fl, ctx):
    from ECAgent.Environments import SpaceWorld
    m = Model(seed=1)
    ext = [float(e) for e in fl["ext"]]
    env = SpaceWorld(m, ext[0], ext[1], ext[2], wrap_env=False)
    m.environment = env
    ctx.probe("continuous_world_off_the_dyadic_lattice")
    from ECAgent.Core import Agent
    agents, pos = [], []
    for i, p in enumerate(fl["agents"]):
        a = Agent(f"f{i}", m)
        p = [float(c) for c in p]
        ctx.expect_ok("add", env.add_agent, a, p[0], p[1], p[2])
        agents.append(a)
        pos.append(p)
    for k, dx, dy, dz in fl["moves"]:
        k = int(k) % len(agents)
        d = [float(dx), float(dy), float(dz)]
        ctx.expect_ok("move", env.move, agents[k], d[0], d[1], d[2])
        got = get_pos(agents[k])
        for ax in range(3):
            if ext[ax] <= 0:
                continue
            want = min(max(pos[k][ax] + d[ax], 0.0), ext[ax])
            ctx.check(0.0 <= got[ax] <= ext[ax], "outside-world",
                      lambda: f"extent {ext[ax]!r}: agent at {pos[k][ax]!r} moved by {d[ax]!r} rests at {got[ax]!r}")
            ctx.check(got[ax] == want, "move-not-exact",
                      lambda: f"extent {ext[ax]!r}: {pos[k][ax]!r} + {d[ax]!r} saturated is {want!r}, the agent rests at {got[ax]!r}")
            if want in (0.0, ext[ax]):
                ctx.probe("saturated_at_an_edge_off_the_lattice")
            pos[k][ax] = got[ax]
    ctx.event("floaty", [get_pos(a) for a in agents])


def execute(sc, ctx):
    if sc.get("floaty"):
        float_arm(sc["floaty"], ctx)
    m = Model(seed=20260927)
    ref = RefWorld(sc["world"])
    env = make_world(m, sc["world"])
    n = max(1, int(sc["n"]))
    agents = make_agents(m, n, sc.get("extras", []), ref, ctx)
    pos = {}           # reference: agent index -> numerators (None on zero-extent axes after a move)
    shape = []
    crossed = False
    ctx.probe("continuous_world" if sc["world"]["kind"] == "space" else "grid_world")
    if any(not ref.positive(ax) for ax in range(3)):
        ctx.probe("zero_extent_axis")
    cubic = len({e for e in ref.ext if e > 0}) <= 1 and sum(1 for e in ref.ext if e > 0) > 1

    def ulp_off(rp_, u):
        """The same request with one coordinate of a positive-extent axis a single ulp OUTSIDE the world: still outside."""
        axes = [ax_ for ax_ in range(3) if ref.positive(ax_)]
        if not axes:
            return rp_, True
        ax_ = axes[int(u[0]) % len(axes)]
        out = list(rp_)
        out[ax_] = math.nextafter(ref.real([ref.hi(ax_)] * 3)[0], math.inf) if u[1] == "hi" else math.nextafter(0.0, -math.inf)
        ctx.probe("one_ulp_outside_a_continuous_world")
        return tuple(out), False

    def snapshot():
        return [[a.id for a in env], [(i, get_pos(agents[i])) for i in range(n)], [sorted(map(str, a.components)) for a in agents]]

    def check_all(where):
        ctx.check([a.id for a in env] == [agents[i].id for i in pos], "membership", f"{where}: {[a.id for a in env]}")
        for i, p in pos.items():
            got = get_pos(agents[i])
            ctx.check(got is not None, "position-missing", f"{where}: a{i}")
            for ax in range(3):
                if not ref.positive(ax):
                    continue
                hi = ref.real([ref.hi(ax)] * 3)[0]
                huge = ref.ext[ax] / ref.den > 1e290 if ref.den else False
                ctx.check(0 <= got[ax] <= hi, "outside-world", finding="F8" if huge and got[ax] != got[ax] else None, detail=
                          lambda: f"{where}: a{i} axis {ax} coordinate {got[ax]!r} outside 0..{hi!r} (extents "
                                  f"{ref.real(ref.ext)}, wrap={ref.wrap})")
                if p[ax] is not None:
                    want = ref.real([p[ax]] * 3)[0]
                    ctx.check(got[ax] == want, "wrong-position",
                              lambda: f"{where}: a{i} axis {ax} is {got[ax]!r}, exact reference {want!r}")
        for i in range(n):
            if i not in pos:
                ctx.check(PositionComponent not in agents[i], "position-not-dropped", f"{where}: a{i} left but keeps a position")

    gate = StepGate(ctx)
    for op in sc["ops"]:
        kind = op["op"]
        if kind == "enter_step":
            gate.enter(m)
            continue
        if kind == "leave_step":
            gate.leave()
            continue
        if kind == "lifecycle" and ctx.in_step and op.get("what") == "step":
            continue          # stepping the model from inside its own timestep is re-entrant stepping: outside the statements
        k = op["k"] % n
        a = agents[k]
        if kind == "add":
            p = [int(c) for c in op["p"]]
            if k in pos:
                continue     # duplicate ids are C04's dimension
            if op.get("camel") and ref.inside([0, 0, 0]):
                p = [0, 0, 0]            # addAgent(agent): the deprecated spelling places at the documented default
            rp = ref.real(p)
            inside = ref.inside(p)
            if op.get("ulp") and sc["world"]["kind"] == "space" and inside and not op.get("camel"):
                rp, inside = ulp_off(rp, op["ulp"])
            if inside:
                if op.get("camel") and p == [0, 0, 0]:
                    ctx.probe("deprecated_camelcase_spelling")
                    ctx.expect_ok("add", env.addAgent, a)
                else:
                    ctx.expect_ok("add", env.add_agent, a, *sparse(rp, op.get("sparse")))
                pos[k] = list(p)
                got = get_pos(a)
                ctx.check(got == rp, "placement", f"a{k} placed at {rp} is at {got}")
                if any(ref.positive(ax) and p[ax] == ref.hi(ax) for ax in range(3)):
                    ctx.probe("placement_on_hi")
                shape.append(["add", "ok"])
            else:
                before = snapshot()
                ctx.fault("reject.oob")
                ctx.probe("reject.oob")
                ctx.expect_raises("add-out-of-bounds", Exception, env.add_agent, a, *rp)
                ctx.check(snapshot() == before, "rejected-add-changed-state", f"add of a{k} at {rp}")
                shape.append(["add", "rej"])
            ctx.event("add", k, p, k in pos)
        elif kind == "move":
            d = [int(c) if not isinstance(c, dict) else c["sign"] * (c["base"] ** c["exp"] + c["add"]) for c in op["d"]]
            rd = ref.real(d)
            if k not in pos:
                before = snapshot()
                ctx.fault("reject.no_position")
                ctx.probe("reject.no_position")
                ctx.expect_raises("move-without-position", ComponentNotFoundError, env.move, a, *rd)
                ctx.check(snapshot() == before, "rejected-move-changed-state", f"a{k}")
                shape.append(["move", "rej"])
            else:
                old = pos[k]
                if op.get("huge"):
                    ctx.probe("huge_integer_move_in_grid")
                if op.get("unprintable"):
                    ctx.probe("integer_move_beyond_the_decimal_conversion_limit")
                base = [old[ax] if old[ax] is not None else 0 for ax in range(3)]
                if op.get("sparse"):
                    ctx.probe("defaults_used_for_omitted_coordinates")
                    kw = {n_: v_ for n_, v_ in zip("xyz", rd) if v_ != 0}
                    ctx.expect_ok("move", env.move, a, **kw)
                else:
                    ctx.expect_ok("move", env.move, a, *rd)
                new = ref.move(base, d)
                for ax in range(3):
                    if ref.positive(ax) and old[ax] is None:
                        new[ax] = None
                laps = [ref.positive(ax) and abs(d[ax]) >= 2 * ref.ext[ax] for ax in range(3)]
                over = [ref.positive(ax) and old[ax] is not None and not (0 <= old[ax] + d[ax] <= ref.hi(ax)) for ax in range(3)]
                if any(over):
                    crossed = True
                if ref.wrap and any(laps):
                    ctx.probe("multi_lap_wrap")
                if ref.wrap and any(ref.positive(ax) and old[ax] is not None and old[ax] + d[ax] < 0 for ax in range(3)):
                    ctx.probe("negative_wrap")
                if not ref.wrap:
                    lo_ = any(ref.positive(ax) and old[ax] is not None and old[ax] + d[ax] < 0 for ax in range(3))
                    hi_ = any(ref.positive(ax) and old[ax] is not None and old[ax] + d[ax] > ref.hi(ax) for ax in range(3))
                    if lo_ and hi_:
                        ctx.probe("clamp_both_sides_one_move")
                pos[k] = new
                shape.append(["move", "wrap" if ref.wrap else "clamp", any(over)])
            ctx.event("move", k, op["d"])
        elif kind == "move_to":
            p = [int(c) for c in op["p"]]
            rp = ref.real(p)
            inside = ref.inside(p)
            if op.get("ulp") and sc["world"]["kind"] == "space" and ref.inside(p):
                rp, inside = ulp_off(rp, op["ulp"])
            if k not in pos:
                before = snapshot()
                ctx.fault("reject.no_position")
                ctx.expect_raises("move_to-without-position", ComponentNotFoundError, env.move_to, a, *rp)
                ctx.check(snapshot() == before, "rejected-move_to-changed-state", f"a{k}")
                shape.append(["move_to", "nopos"])
            elif inside:
                ctx.expect_ok("move_to", env.move_to, a, *sparse(rp, op.get("sparse")))
                if op.get("sparse"):
                    ctx.probe("defaults_used_for_omitted_coordinates")
                pos[k] = list(p)
                ctx.check(get_pos(a) == rp, "move_to-landing", f"a{k} moved to {rp} is at {get_pos(a)}")
                ctx.probe("move_to_accepted")
                shape.append(["move_to", "ok"])
            else:
                before = snapshot()
                ctx.fault("reject.move_to_oob")
                ctx.probe("reject.move_to_oob")
                ctx.expect_raises("move_to-out-of-bounds", IndexError, env.move_to, a, *rp)
                ctx.check(snapshot() == before, "rejected-move_to-changed-state", f"move_to of a{k} to {rp}")
                shape.append(["move_to", "rej"])
            ctx.event("move_to", k, p)
        elif kind == "branch":
            # checkpoint / restore: the history continues on a deep copy (or a pickle round trip) of model, world and agents
            if ctx.in_step:
                continue
            if op.get("how") == "pickle":
                m, env, agents = pickle.loads(pickle.dumps((m, env, agents)))
            else:
                m, env, agents = copy.deepcopy((m, env, agents))
            ctx.fault("restart.continue_on_copy")
            ctx.probe("history_continued_on_a_copy")
        elif kind == "flip_wrap":
            env.wrap_env = not env.wrap_env        # a public attribute (the package's own tests reassign it)
            ref.wrap = not ref.wrap
            ctx.probe("wrap_mode_switched")
        elif kind == "lifecycle":
            ctx.expect_ok("lifecycle", m.complete if op["what"] == "complete" else m.execute)
            ctx.probe("model_lifecycle_op")
        elif kind == "remove":
            if k not in pos:
                continue
            ctx.expect_ok("remove", env.removeAgent if op.get("camel") else env.remove_agent, a.id)
            del pos[k]
            ctx.event("remove", k)
            shape.append(["rm"])
        check_all(kind)
        ctx.state([sc["world"]["kind"], ref.wrap, sorted(pos), kind])
    gate.leave()
    check_all("after-the-step")
    ctx.nontrivial = n >= 2 and len(pos) + 0 >= 0 and not cubic and crossed and sum(1 for s in shape if s[0] == "add" and s[1] == "ok") >= 2
    ctx.sig = [sc["world"]["kind"], [min(e, 2) for e in ref.ext], ref.wrap, shape[:60]]
