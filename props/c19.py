"""C19 - tag libraries keep a stable name <-> id bijection and cannot be corrupted.

Simulated dimension: seeded add / lookup histories with hostile names as the injected faults, over
several libraries alive at once plus the process-global one; every history starts from a pristine
process image (forked child of a parent that never touched the global library)."""
import ECAgent.Tags as Tags

PROPERTY = "C19"
QUICK_RUNS = 20000
CHUNK = 250
ISOLATE = True
RULE = ("1-3 local TagLibrary objects and the module-level API; 5-40 ops from add_tag / getattr by name / get_tag_name / "
        "itemize / len; names from identifiers, duplicates of accepted names, 'NONE', the library's own attribute and "
        "method names, dunders, (global library) module globals, arbitrary strings; ids from -2 to len+2 and far beyond; "
        "non-trivial = >=3 accepted tags, >=1 rejected add between two accepted ones and >=1 hostile name; distinct = "
        "sequence of (library, op, name class, outcome)"
        "; also: builtin names, module-type attributes (__annotations__ ...), many more dunders, private attribute names looked up on the global library, names holding format / template syntax ({x}, %s, ...) added twice, names given as members of a str-valued Enum")
COMPONENTS = {"real": ["ECAgent.Tags.TagLibrary (add_tag, get_tag_name, itemize, __len__, attribute lookup)",
                       "module-level add_tag / get_tag_name / itemize / __getattr__ and the global library"],
              "stub": ["none"]}
PROBES = ["name_differing_only_in_case_from_a_present_tag", "hostile_method_name", "hostile_private_attr", "hostile_dunder", "hostile_module_global", "hostile_arbitrary",
          "two_libraries_interleaved", "failed_add_consumes_no_id", "duplicate_rejected", "none_rejected",
          "id_out_of_range_rejected", "global_library_used", "hostile_accepted", "hostile_rejected", "private_name_looked_up_on_global_library", "name_given_as_str_enum_member"]
TECHNIQUE = "deterministic simulation: seeded add/lookup histories with hostile names over several libraries, pristine forked process per history, list reference with bijection invariants"
LEVEL_TEXT = ("Seeded search over tag-name histories on local libraries and the global one; after every operation, for every "
              "library: length, itemised list, id->name for every id inside and outside the range, name->id for every accepted "
              "name, and the library's own operations must agree with the list reference; a hostile name may be accepted or "
              "rejected but nothing may break afterwards. Sampling, not proof; <=40 ops, <=3 libraries + global.")
LEVEL_NOTE = ("Trusted: the list reference; names are str; whether a hostile name is accepted or rejected (with any exception) is "
              "left open, but either way every invariant must hold afterwards.")
SHRINK_LISTS = ["ops"]

OWN = ["add_tag", "itemize", "get_tag_name"]
PRIVATE = ["_tag_counter", "_tag_names"]
DUNDER = ["__len__", "__dict__", "__class__", "__init__", "__doc__", "__module__", "__getattr__", "__name__", "__repr__",
          "__eq__", "__hash__", "__str__", "__setattr__", "__weakref__", "__new__", "__slots__", "__bool__", "__file__",
          "__warningregistry__", "__spec__", "__builtins__", "__loader__", "__sizeof__", "__annotations__", "__package__", "__path__", "__dir__",
          "__getattribute__", "__reduce__", "__init_subclass__", "__subclasshook__", "__format__"]
MODGLOBALS = ["TagLibrary", "itemize", "DuplicateTagError", "TagNotFoundError", "_module_library", "add_tag",
              "get_tag_name", "__name__", "__getattr__"]
BUILTINS = ["super", "enumerate", "hasattr", "globals", "len", "list", "print", "type", "int", "str", "range", "isinstance"]
ARBITRARY = ["", " ", "two words", "9lives", "naïve", "a.b", "SHEEP\n", "None", "none",
             # pairs of DIFFERENT strings with the same NFKC form (micro sign / Greek mu, Angstrom sign / A-ring, fi ligature)
             "\u00b5g", "\u03bcg", "\u212b", "\u00c5", "\ufb01sh", "fish", "x\u00b2", "x2",
             # names that merely LOOK like the library's own bookkeeping entries / like private or dunder names
             "class", "big prey", "import", "_tag_wolf", "_tag_", "_tags", "_hidden", "__wolf", "_", "__", "tag_names", "_tag_counter2",
             # ... or like the private fields an implementation might keep (a cached view, an index, a lock)
             "_items", "_cache", "_names", "_ids", "_index", "_view", "_lookup", "_lock", "_by_id", "_by_name", "_next_id", "_counter",
             "_tag_ids", "_registry", "_frozen", "_dirty",
             # text that means something to str.format / %-formatting / templates (error messages quote the name)
             "{x}", "{}", "{0}", "a{b", "}{", "{{a}}", "{0!r:>10}", "%s", "%(x)s", "100%", "%d%%", "${HOME}", "\\", "'q'", "tab\there"]
PLAIN = ["SHEEP", "WOLF", "GRASS", "PREY", "A", "B", "C", "tag_1", "x"]


# the same plain names as members of a str-valued Enum (class Species(str, Enum)): equal to the plain string, hash alike,
# but str(member) is 'Species.PREY' - a name given this way is still the tag 'PREY'
SPECIES = __import__("enum").Enum("Species", {n: n for n in PLAIN}, type=str)


def name_class(n):
    if n in OWN:
        return "method"
    if n in PRIVATE:
        return "private"
    if n in DUNDER:
        return "dunder"
    if n in MODGLOBALS:
        return "modglobal"
    if n in ARBITRARY or n in BUILTINS:
        return "arbitrary"
    return "plain"


def generate(rng, tier):
    nlib = rng.choice([1, 1, 2, 3])
    big = tier == "thorough"
    use_global = rng.random() < 0.5
    libs = list(range(nlib)) + (["g"] if use_global else [])
    ops = []
    hostile_rate = rng.choice([0.0, 0.1, 0.25, 0.4])
    for _ in range(rng.randint(5, 90 if big else 40)):
        lib = rng.choice(libs)
        r = rng.random()
        if r < 0.5:
            h = rng.random()
            if h < hostile_rate:
                pool = OWN + PRIVATE + DUNDER + ARBITRARY + BUILTINS + (MODGLOBALS if lib == "g" else [])
                name = rng.choice(pool)
            elif h < hostile_rate + 0.12:
                name = "NONE"
            else:
                name = rng.choice(PLAIN)
            ops.append({"lib": lib, "op": "add", "name": name})
            if name in PLAIN and rng.random() < 0.12:
                ops[-1]["as_enum"] = True
            if h < hostile_rate and rng.random() < 0.35:
                ops.append({"lib": lib, "op": "add", "name": name})      # ... and once more: rejected as a duplicate
        elif r < 0.65:
            ops.append({"lib": lib, "op": "by_name", "name": rng.choice(PLAIN + ["NONE", "ghost", "UNKNOWN"] +
                                                                       ["\u00b5g", "\u03bcg", "\u212b", "\u00c5", "\ufb01sh", "fish", "x2"] +
                                                                       (PRIVATE if lib == "g" else []))})
        elif r < 0.8:
            ops.append({"lib": lib, "op": "by_id", "id": rng.choice([-2, -1, 0, 1, 2, 3, 5, 8, 10 ** 6, rng.randint(0, 12)])})
        elif r < 0.9:
            ops.append({"lib": lib, "op": "itemize"})
        else:
            ops.append({"lib": lib, "op": "len"})
    sc = {"nlib": nlib, "ops": ops}
    if rng.random() < 0.2:
        # (drawn last) ordinary identifiers that differ from one another only in case ("PREY" / "prey" / "Prey"): different names,
        # each of which gets its own id
        for o in ops:
            if o["op"] in ("add", "by_name") and o.get("name") in PLAIN and not o.get("as_enum") and rng.random() < 0.4:
                t = rng.choice([o["name"].lower(), o["name"].capitalize(), o["name"].swapcase()])
                if name_class(t) == "plain":
                    o["name"] = t
        sc["case_twins"] = True
    return sc


class LocalLib:
    def __init__(self):
        self.lib = Tags.TagLibrary()

    def add(self, name):
        return self.lib.add_tag(name)

    def by_name(self, name):
        return getattr(self.lib, name)

    def by_id(self, i):
        return self.lib.get_tag_name(i)

    def itemize(self):
        return self.lib.itemize()

    def length(self):
        return len(self.lib)

    unknown_name_exc = AttributeError


class GlobalLib:
    def add(self, name):
        return Tags.add_tag(name)

    def by_name(self, name):
        return getattr(Tags, name)

    def by_id(self, i):
        return Tags.get_tag_name(i)

    def itemize(self):
        return Tags.itemize()

    def length(self):
        return len(Tags._module_library)

    unknown_name_exc = Tags.TagNotFoundError


def execute(sc, ctx):
    nlib = max(1, min(int(sc["nlib"]), 3))
    libs = {i: LocalLib() for i in range(nlib)}
    refs = {i: ["NONE"] for i in range(nlib)}
    shape = []
    flags = {"hostile": False, "rej_between": False}
    last_lib = None
    pending_rej = {}

    def get(lib):
        if lib == "g":
            if "g" not in libs:
                libs["g"] = GlobalLib()
                refs["g"] = ["NONE"]
                ctx.probe("global_library_used")
            return "g"
        return lib % nlib

    def check_all(where):
        for key, L in libs.items():
            names = refs[key]
            st, v = ctx.call(L.length)
            ctx.check(st == "ok" and v == len(names), "length",
                      lambda: f"{where}: library {key}: len {v!r} expected {len(names)} "
                              f"({'raised ' + type(v).__name__ if st != 'ok' else ''})")
            st, v = ctx.call(L.itemize)
            ctx.check(st == "ok" and v == [(n, i) for i, n in enumerate(names)], "itemize",
                      lambda: f"{where}: library {key}: itemize() -> {v!r:.200} expected {[(n, i) for i, n in enumerate(names)]!r:.200}")
            for i, n in enumerate(names):
                st, v = ctx.call(L.by_id, i)
                ctx.check(st == "ok" and v == n, "id-to-name", lambda: f"{where}: library {key}: get_tag_name({i}) -> {v!r} expected {n!r}")
                st, v = ctx.call(L.by_name, n)
                ctx.check(st == "ok" and v == i and type(v) is int, "name-to-id",
                          lambda: f"{where}: library {key}: lookup of accepted tag {n!r} -> {v!r} expected id {i}")
            for bad in (-1, len(names), len(names) + 1):
                st, v = ctx.call(L.by_id, bad)
                ctx.check(st == "exc" and isinstance(v, Tags.TagNotFoundError), "id-out-of-range",
                          lambda: f"{where}: library {key}: get_tag_name({bad}) -> {v!r}")

    for op in sc["ops"]:
        key = get(op["lib"])
        L, names = libs[key], refs[key]
        kind = op["op"]
        if last_lib is not None and last_lib != key:
            ctx.probe("two_libraries_interleaved")
        last_lib = key
        if kind == "add":
            name = op["name"]
            cls = name_class(name)
            if name in names:
                ctx.fault("reject.tag")
                ctx.probe("none_rejected" if name == "NONE" else "duplicate_rejected")
                ctx.expect_raises("add-duplicate", Tags.DuplicateTagError, L.add, name)
                pending_rej[key] = True
                ctx.probe("failed_add_consumes_no_id")
                shape.append([str(key), "dup", cls])
            elif cls == "plain":
                if any(n != name and n.upper() == name.upper() for n in names):
                    ctx.probe("name_differing_only_in_case_from_a_present_tag")
                if op.get("as_enum") and name in PLAIN:
                    ctx.probe("name_given_as_str_enum_member")
                    ctx.expect_ok("add", L.add, SPECIES[name])
                else:
                    ctx.expect_ok("add", L.add, name)
                names.append(name)
                if pending_rej.pop(key, False) and len(names) >= 3:
                    flags["rej_between"] = True
                shape.append([str(key), "add", cls])
            else:
                # hostile name: accepted or rejected (any exception) - either way everything must still hold
                ctx.fault("reject.tag")
                ctx.probe("hostile_" + {"method": "method_name", "private": "private_attr", "dunder": "dunder",
                                        "modglobal": "module_global", "arbitrary": "arbitrary"}[cls])
                flags["hostile"] = True
                st, v = ctx.call(L.add, name)
                if st == "ok":
                    names.append(name)
                    ctx.probe("hostile_accepted")
                    if pending_rej.pop(key, False) and len(names) >= 3:
                        flags["rej_between"] = True
                else:
                    ctx.probe("hostile_rejected")
                    pending_rej[key] = True
                shape.append([str(key), "hostile", cls, st])
            ctx.event("add", str(key), name)
        elif kind == "by_name":
            name = op["name"]
            if name in names:
                st, v = ctx.call(L.by_name, name)
                ctx.check(st == "ok" and v == names.index(name), "name-to-id", f"library {key}: {name!r} -> {v!r}")
            elif name in PRIVATE and key != "g":
                pass      # a private attribute of a library OBJECT is ordinary Python, not a tag lookup
            else:
                if name in PRIVATE:
                    ctx.probe("private_name_looked_up_on_global_library")
                ctx.expect_raises("unknown-name", L.unknown_name_exc, L.by_name, name)
            shape.append([str(key), "name", name in names])
        elif kind == "by_id":
            i = op["id"]
            if 0 <= i < len(names):
                st, v = ctx.call(L.by_id, i)
                ctx.check(st == "ok" and v == names[i], "id-to-name", f"library {key}: {i} -> {v!r}")
            else:
                ctx.probe("id_out_of_range_rejected")
                ctx.expect_raises("unknown-id", Tags.TagNotFoundError, L.by_id, i)
            shape.append([str(key), "id", 0 <= i < len(names)])
        check_all(f"after {kind} {op.get('name', op.get('id', ''))!r} on library {key}")
        ctx.state([[len(refs[k]) for k in sorted(refs, key=str)], kind])
    ctx.nontrivial = flags["hostile"] and flags["rej_between"] and any(len(n) >= 4 for n in refs.values())
    ctx.sig = shape
