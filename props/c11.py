"""C11 - cell components hold each cell's own value and are independent of their sources.

Simulated dimension: seeded add / remove histories of named cell components with two injected
disturbances - rejected removals of unknown names and the caller overwriting its own buffer after the
call (alias.mutate_source). The shape / source part is plain generation and is described as such."""
import numpy as np

from ECAgent.Core import ComponentNotFoundError, Model
from ECAgent.Environments import ConstantGenerator, LookupGenerator

from .worlds import make_world

PROPERTY = "C11"
QUICK_RUNS = 5000
CHUNK = 100
RULE = ("grid world in {LineWorld, GridWorld, DiscreteWorld incl. zero-extent axes in any position}, non-cubic, <=60 cells; "
        "3-25 ops from add(name, source) / remove(name) / remove(unknown) / overwrite the caller's list or ndarray / "
        "read-back; sources: callable, list, int and float ndarray, ConstantGenerator, LookupGenerator with a nested-list "
        "or ndarray table of the world's dimensionality; every value encodes (component serial, x, y, z); non-trivial = "
        "non-cubic world with >=2 populated axes, >=2 live components of different source kinds at once and >=1 removal "
        "followed by a full read-back; distinct = (shape, sequence of (op, source kind, live count))"
        "; also: generator objects reused across components (table edited in place / rebound, constant changed), re-adding a live name, sequence-valued constants, a ConstantGenerator subclass, tables mixing text and numbers, callables mixing exact ints with fractional floats / numeric-looking text, a callable source object that also has len / indexing, a live name re-added from a callable that reads its own previous values, datetime64 / timedelta64 and object-with-None array sources, a second discrete world in the same process using the same component names; rare switch for known finding F12")
COMPONENTS = {"real": ["ECAgent.Environments.DiscreteWorld.add_cell_component / remove_cell_component / cells / get_cell",
                       "ConstantGenerator", "LookupGenerator", "LineWorld / GridWorld constructors", "pandas.DataFrame"],
              "stub": ["callable generators and source buffers are harness-built"]}
PROBES = ["list_source_with_a_nan_gap", "source_function_removing_another_component_while_it_runs", "array_source_in_another_memory_layout", "src_callable", "src_list", "src_ndarray_int", "src_ndarray_float", "src_const", "src_lookup_list",
          "src_lookup_nd", "alias_after_ndarray", "alias_after_list", "zero_extent_below_populated", "readd_removed_name",
          "remove_unknown_rejected", "lookup_1d", "lookup_2d", "lookup_3d", "get_cell_compared", "generator_object_reused", "readd_live_name_overwrites", "src_lookup_reuse",
          "src_lookup_rebind", "src_const_reuse", "src_const_tuple", "src_const_subclass", "lookup_mixed_text_and_numbers",
          "second_world_same_names", "second_world_removed_a_name_live_here", "second_world_rejects_a_name_live_here",
          "callable_mixing_int_with_float_or_numeric_text", "src_callable_container",
          "readd_from_callable_reading_own_previous_values", "lookup_table_of_lists_with_array_rows"]
TECHNIQUE = "deterministic simulation: seeded add/remove histories of cell components with injected rejected removals and caller-side buffer mutation vs a per-cell reference table"
LEVEL_TEXT = ("Seeded search over grid shapes, source kinds and add/remove histories; after every operation the column set, the "
              "position column and every cell of every live component must equal the reference (so no add / remove disturbs "
              "another column and overwriting the caller's buffer never shows through). Sampling, not proof; <=60 cells, "
              "<=25 ops.")
LEVEL_NOTE = ("Trusted: the per-cell reference; the set of cells is taken from the world's own position column (the id <-> "
              "coordinate mapping itself is C09's subject and not claimed); get_cell is compared only on worlds with three "
              "positive extents.")
SHRINK_LISTS = ["ops"]
KINDS = ["callable", "list", "ndarray_int", "ndarray_float", "const", "lookup_list", "lookup_nd", "lookup_reuse",
         "lookup_rebind", "const_reuse", "const_tuple", "const_subclass", "callable_container", "callable_reads_self", "ndarray_datetime", "ndarray_object", "callable_retires"]


class Raster:
    """A generator object of the user's own that is callable AND looks like a container (len / indexing over its raw rows):
    a callable source is called with (pos, cells) for every cell - whatever else the object can do."""

    def __init__(self, fn, n):
        self.fn, self.n = fn, n

    def __call__(self, pos, cells):
        return self.fn(pos)

    def __len__(self):
        return self.n

    def __getitem__(self, i):
        if not 0 <= i < self.n:
            raise IndexError(i)
        return -1 - i

    def __iter__(self):
        return iter([-1 - i for i in range(self.n)])


class PosConstant(ConstantGenerator):
    """A user subclass of the bundled generator that overrides __call__ (value offset by the cell's coordinates)."""

    def __call__(self, pos, cells):
        return self.value + pos[0] * 10000 + pos[1] * 100 + pos[2]


def relayout(buf, how, ctx):
    """The same values in another memory layout: what np.fromfile / np.frombuffer / slicing / memory maps hand over."""
    if not how:
        return buf
    ctx.probe("array_source_in_another_memory_layout")
    if how == "swapped":
        return buf.astype(buf.dtype.newbyteorder("S"))           # non-native byte order (a big-endian raster file)
    if how == "strided":
        wide = np.zeros(2 * len(buf) + 1, dtype=buf.dtype)
        wide[1::2] = buf
        return wide[1::2]                                          # a non-contiguous view
    if how == "readonly":
        out = buf.copy()
        out.flags.writeable = False
        return out
    if how == "narrow" and buf.dtype.kind == "i" and len(buf) and abs(buf).max() < 2 ** 31:
        return buf.astype(np.int32)
    return buf


def generate(rng, tier):
    r = rng.random()
    if r < 0.2:
        world = {"kind": "line", "w": rng.randint(1, 9), "h": 0, "d": 0, "den": 1, "wrap": False}
    elif r < 0.5:
        w, h = rng.randint(1, 7), rng.randint(1, 6)
        if w == h:
            w += 1
        world = {"kind": "grid", "w": w, "h": h, "d": 0, "den": 1, "wrap": False}
    else:
        while True:
            w, h, d = (rng.choice([0, 0, 1, 2, 3, 4, 5]) for _ in range(3))
            if max(w, 1) * max(h, 1) * max(d, 1) <= 60 and (rng.random() < 0.3 or len({w, h, d}) > 1):
                break
        world = {"kind": "discrete", "w": w, "h": h, "d": d, "den": 1, "wrap": False}
    names = [f"c{i}" for i in range(rng.randint(2, 5))]
    if rng.random() < 0.15:
        names[rng.randrange(len(names))] = rng.choice(["", "{x}", "%s", "a b", "0"])     # falsy / format-syntax column names
    ops = []
    for _ in range(rng.randint(3, 35 if tier == "thorough" else 25)):
        r = rng.random()
        if r < 0.45:
            ops.append({"op": "add", "name": rng.choice(names), "src": rng.choice(KINDS), "ndim": rng.choice([1, 2, 3, 3]),
                        "mixed": rng.random() < 0.4, "mixed_none": rng.random() < 0.02})
        elif r < 0.62:
            ops.append({"op": "remove", "name": rng.choice(names)})
        elif r < 0.7:
            ops.append({"op": "remove_unknown", "name": rng.choice(["ghost", "pos2", "", "C0",
                                                                   # names the cell table's own type (a pandas DataFrame) answers to as attributes
                                                                   "mask", "size", "count", "values", "index", "shape", "T", "mean", "columns", "loc"])})
        elif r < 0.85:
            ops.append({"op": "overwrite", "name": rng.choice(names)})
        else:
            ops.append({"op": "readback"})
    if rng.random() < 0.3:
        # a second discrete world lives in the same process and uses the same component names: nothing done to one world
        # may show in the other
        for _ in range(rng.randint(1, 6)):
            ops.insert(rng.randint(0, len(ops)), {"op": "other", "what": rng.choice(["add", "add", "remove", "remove", "remove_unknown"]),
                                                  "name": rng.choice(names), "own_model": rng.random() < 0.5})
    for o_ in ops:       # memory layout of array sources (same values): other byte order, a strided view, a read-only buffer
        if o_.get("src") in ("ndarray_int", "ndarray_float") and rng.random() < 0.4:
            o_["layout"] = rng.choice(["swapped", "swapped", "strided", "readonly", "narrow"])
    for o_ in ops:       # (drawn last) a measured raster with a gap: a list of floats one of which is float('nan')
        if o_.get("src") == "list" and not o_.get("mixed_none") and rng.random() < 0.25:
            o_["nan_gap"] = rng.randrange(4)
    return {"world": world, "ops": ops}


def _same(a, b):
    if b is None or a is None:
        return a is None and b is None
    if isinstance(b, float) and b != b:
        return isinstance(a, (float, np.floating)) and bool(a != a)       # a gap stays a float nan (not None, not pandas.NA)
    if isinstance(b, (np.datetime64, np.timedelta64)):
        try:
            return not isinstance(a, (int, float)) and bool(a == b)      # a time stamp / duration, not a bare count
        except Exception:
            return False
    if isinstance(b, tuple):
        return isinstance(a, tuple) and a == b
    if isinstance(b, str) or isinstance(a, str):
        return type(a) is type(b) and a == b      # a text label is not the number it spells
    try:
        return bool(a == b)
    except Exception:
        return False


def enc(serial, pos):
    return serial * 1000000 + pos[0] * 10000 + pos[1] * 100 + pos[2]


def execute(sc, ctx):
    m = Model(seed=20260927)
    spec = sc["world"]
    env = make_world(m, spec)
    W, H, D = spec["w"], spec["h"], spec["d"]
    cells = [tuple(p) for p in env.cells["pos"]]
    n = len(cells)
    ctx.check(n == max(W, 1) * max(H, 1) * max(D, 1), "cell-count", f"{n} cells for extents {(W, H, D)}")
    if (W == 0 and (H > 0 or D > 0)) or (H == 0 and D > 0):
        ctx.probe("zero_extent_below_populated")
    shared = {}        # generator objects reused across components
    live = {}          # name -> {"vals": [...], "kind":, "buf": caller's buffer or None}
    removed = set()
    serial = 0
    shape = []
    flags = {"two_kinds": False, "rm_then_read": False}
    pending_rm = False
    populated = sum(1 for e in (W, H, D) if e > 1)
    noncubic = len({e for e in (W, H, D) if e > 0}) > 1

    other = {"env": None, "live": {}}

    def other_world(own_model):
        if other["env"] is None:
            from ECAgent.Environments import GridWorld
            other["env"] = GridWorld(Model(seed=5) if own_model else m, 2, 2)
            ctx.probe("second_world_same_names")
        return other["env"]

    def check_other(where):
        e2 = other["env"]
        if e2 is None:
            return
        ctx.check(sorted(map(str, e2.cells.columns)) == sorted(["pos"] + list(other["live"])), "other-world-columns",
                  f"{where}: the second world has columns {list(e2.cells.columns)}, expected pos + {list(other['live'])}")
        for name, v in other["live"].items():
            ctx.check(list(e2.cells[name]) == [v] * 4, "other-world-values", f"{where}: {name}")

    def check_all(where):
        check_other(where)
        cols = list(env.cells.columns)
        ctx.check(sorted(map(str, cols)) == sorted(["pos"] + list(live)), "columns",
                  f"{where}: columns {cols} expected (in any order) {['pos'] + list(live)}")
        ctx.check([tuple(p) for p in env.cells["pos"]] == cells, "cells-changed", f"{where}: the position column changed")
        for name, rec in live.items():
            col = env.cells[name]
            ctx.check(len(col) == n, "column-length", f"{where}: {name}")
            for i in range(n):
                got = col[i]
                ctx.check(_same(got, rec["vals"][i]), "cell-value", finding="F12" if rec.get("f12") else None, detail=
                          lambda: f"{where}: component {name!r} ({rec['kind']}) cell id {i} at {cells[i]} holds {got!r}, "
                                  f"its source assigns {rec['vals'][i]!r}")
        if W > 0 and H > 0 and D > 0 and live:
            ctx.probe("get_cell_compared")
            for i in (0, n // 2, n - 1):
                x, y, z = cells[i]
                row = ctx.expect_ok("get_cell", env.get_cell, x, y, z)
                for name, rec in live.items():
                    ctx.check(_same(row[name], rec["vals"][i]), "get_cell-value", f"{where}: get_cell{cells[i]}[{name!r}]")

    for op in sc["ops"]:
        kind = op["op"]
        if kind == "add":
            name = op["name"]
            readd = name in live
            serial += 1
            src = op["src"]
            buf = None
            if src == "callable":
                s_ = serial
                if op.get("mixed") and n >= 2:
                    # a function whose values are not all of one kind: an exact int for the first cell, fractional floats
                    # (odd serials) or numeric-looking text (even serials) for others - each cell holds what IT was given
                    def mixed_value(pos, s_=s_):
                        v = enc(s_, pos)
                        if sum(pos) % 2 == 0:
                            return v
                        return v + 0.5 if s_ % 2 else str(v)
                    gen = (lambda pos, cells_: mixed_value(pos))
                    vals = [mixed_value(p) for p in cells]
                    ctx.probe("callable_mixing_int_with_float_or_numeric_text")
                else:
                    gen = (lambda pos, cells_, s_=s_: enc(s_, pos))
                    vals = [enc(serial, p) for p in cells]
            elif src == "callable_reads_self" and readd and all(type(v_) is int for v_ in live[name]["vals"]):
                # a next-generation update: the component is added again under its own name from a function that reads the
                # component's CURRENT values through the `cells` table it is handed (cell by cell, in id order)
                old_vals = list(live[name]["vals"])
                seen = []

                def gen(pos, cells_, name=name, seen=seen):
                    i_ = len(seen)
                    seen.append(pos)
                    return int(cells_[name][i_]) + 1000
                vals = [v_ + 1000 for v_ in old_vals]
                ctx.probe("readd_from_callable_reading_own_previous_values")
            elif src == "callable_reads_self":
                s_ = serial
                gen = (lambda pos, cells_, s_=s_: enc(s_, pos))
                vals = [enc(serial, p) for p in cells]
            elif src == "callable_retires":
                # the function retires another layer once it has produced its last value (env.remove_cell_component from inside
                # the source): the new component holds the function's values, the retired one is gone, the rest is untouched
                s_ = serial
                victims = sorted(x for x in live if x != name)
                victim = victims[serial % len(victims)] if victims else None
                calls = []

                def gen(pos, cells_, s_=s_, victim=victim, calls=calls):
                    calls.append(pos)
                    if victim is not None and len(calls) == n:
                        env.remove_cell_component(victim)
                    return enc(s_, pos)
                vals = [enc(serial, p) for p in cells]
                retired = victim
            elif src == "callable_container":
                s_ = serial
                gen = Raster(lambda pos, s_=s_: enc(s_, pos), n)
                vals = [enc(serial, p) for p in cells]
            elif src == "list":
                buf = [enc(serial, (i, 0, 0)) for i in range(n)]
                if op.get("mixed_none") and n >= 2:
                    buf[0] = None                     # trigger of known finding F12 (rare on purpose)
                    buf[1] = 2 ** 53 + 1 if n > 2 else 0.5
                    if n > 2:
                        buf[2] = 0.5
                elif op.get("nan_gap") is not None and n >= 2:
                    buf = [v + 0.5 for v in buf]
                    buf[op["nan_gap"] % n] = float("nan")
                    ctx.probe("list_source_with_a_nan_gap")
                gen, vals = buf, list(buf)
            elif src == "ndarray_int":
                buf = np.array([enc(serial, (0, i, 0)) for i in range(n)], dtype=np.int64)
                buf = relayout(buf, op.get("layout"), ctx)
                gen, vals = buf, [int(v) for v in buf]
            elif src == "ndarray_float":
                buf = np.array([enc(serial, (0, 0, i)) + 0.5 for i in range(n)], dtype=float)
                buf = relayout(buf, op.get("layout"), ctx)
                gen, vals = buf, [float(v) for v in buf]
            elif src == "ndarray_datetime":
                # an array of time stamps / durations (nanosecond unit): each cell holds ITS element, as a time stamp / duration
                base = np.datetime64("2020-01-01T00:00:00", "ns") if serial % 2 else np.timedelta64(0, "ns")
                buf = np.array([base + np.timedelta64(enc(serial, (i, 0, 0)), "ns") for i in range(n)])
                gen, vals = buf, list(buf)
            elif src == "ndarray_object":
                # an object array with gaps: numbers and None, kept as they are
                buf = np.array([None if i % 3 == 1 else enc(serial, (0, i, 0)) for i in range(n)], dtype=object)
                gen, vals = buf, list(buf)
            elif src == "const":
                gen = ConstantGenerator(serial * 7 + 1)
                vals = [serial * 7 + 1] * n
            elif src == "const_tuple":
                # the constant is itself a sequence (an RGB triple, a pair ...): every cell holds that very value
                tup = (serial, 128, 0) if serial % 2 else tuple(range(serial, serial + n))
                gen = ConstantGenerator(tup)
                vals = [tup] * n
            elif src == "const_subclass":
                gen = PosConstant(serial * 1000000)
                vals = [enc(serial, p) for p in cells]
            elif src == "const_reuse":
                # one generator object used for several components, its value changed in between
                if "const" not in shared:
                    shared["const"] = ConstantGenerator(None)
                else:
                    ctx.probe("generator_object_reused")
                gen = shared["const"]
                gen.value = serial * 7 + 3
                vals = [serial * 7 + 3] * n
            elif src in ("lookup_reuse", "lookup_rebind"):
                # one LookupGenerator object used for several components; its nested-list table is edited in
                # place (or rebound to a new table) in between - each component must hold the table's entries
                # as they were when that component was added
                w_, h_, d_ = max(W, 1), max(H, 1), max(D, 1)
                fresh = [[[enc(serial, (x, y, z)) for z in range(d_)] for y in range(h_)] for x in range(w_)]
                if "lookup" not in shared:
                    shared["table"] = fresh
                    shared["lookup"] = LookupGenerator(fresh)
                else:
                    ctx.probe("generator_object_reused")
                    if src == "lookup_rebind":
                        shared["table"] = fresh
                        shared["lookup"].table = fresh
                    else:
                        for x in range(w_):
                            for y in range(h_):
                                for z in range(d_):
                                    shared["table"][x][y][z] = fresh[x][y][z]
                gen = shared["lookup"]
                vals = [fresh[p[0]][p[1]][p[2]] for p in cells]
            else:
                # lookup table of the world's dimensionality: 1-D line, 2-D width x height, 3-D otherwise
                allowed = [3]
                if D == 0:
                    allowed.append(2)
                if D == 0 and H == 0:
                    allowed.append(1)
                nd = op.get("ndim", 3)
                nd = nd if nd in allowed else min(allowed)
                w_, h_, d_ = max(W, 1), max(H, 1), max(D, 1)
                if nd == 1:
                    table = [enc(serial, (x, 0, 0)) for x in range(w_)]
                    look = lambda p: table[p[0]]                                  # noqa: E731
                elif nd == 2:
                    table = [[enc(serial, (x, y, 0)) for y in range(h_)] for x in range(w_)]
                    look = lambda p: table[p[0]][p[1]]                            # noqa: E731
                else:
                    table = [[[enc(serial, (x, y, z)) for z in range(d_)] for y in range(h_)] for x in range(w_)]
                    look = lambda p: table[p[0]][p[1]][p[2]]                      # noqa: E731
                ctx.probe(f"lookup_{nd}d")
                if src == "lookup_list" and op.get("mixed"):
                    # a categorical table: some entries are text labels, some numbers
                    def relabel(t):
                        if isinstance(t, list):
                            return [relabel(x) for x in t]
                        if serial % 2:
                            return f"t{t}".encode() if t % 3 == 0 else t       # byte-string labels (loadtxt / h5py style)
                        return f"L{t}" if t % 3 == 0 else t
                    table = relabel(table)
                    ctx.probe("lookup_mixed_text_and_numbers")
                vals = [look(p) for p in cells]
                if src == "lookup_list" and nd >= 2 and not op.get("mixed") and serial % 3 == 0:
                    # outer levels are lists, the innermost rows numpy arrays (list(array2d), [np.linspace(...) for x in ...])
                    def rows_to_arrays(t, depth):
                        return np.array(t) if depth == 1 else [rows_to_arrays(x, depth - 1) for x in t]
                    table = rows_to_arrays(table, nd)
                    ctx.probe("lookup_table_of_lists_with_array_rows")
                gen = LookupGenerator(np.array(table) if src == "lookup_nd" else table)
            st, v = ctx.call(env.add_cell_component, name, gen)
            ctx.event("add", name, src, st)
            if st != "ok":
                ctx.fail("add-cell-component:unexpected-exception",
                         f"{src} source on {spec['kind']} {(W, H, D)}: {type(v).__name__}: {v}")
            if readd:
                # same name again without removing it first: the component now holds the new source's values, keeps its
                # place among the columns, and nothing else changes
                live[name].update({"vals": vals, "kind": src, "buf": buf})
                ctx.probe("readd_live_name_overwrites")
            else:
                live[name] = {"vals": vals, "kind": src, "buf": buf}
            if src == "callable_retires" and retired is not None:
                del live[retired]
                removed.add(retired)
                ctx.probe("source_function_removing_another_component_while_it_runs")
            live[name]["f12"] = bool(src == "list" and op.get("mixed_none") and n >= 2)
            ctx.probe("src_" + src)
            if name in removed:
                ctx.probe("readd_removed_name")
            if len({r["kind"] for r in live.values()}) >= 2:
                flags["two_kinds"] = True
        elif kind == "remove":
            name = op["name"]
            if name in live:
                ctx.expect_ok("remove", env.remove_cell_component, name)
                del live[name]
                removed.add(name)
                pending_rm = True
            else:
                ctx.fault("reject.cell_unknown")
                ctx.probe("remove_unknown_rejected")
                ctx.expect_raises("remove-unknown", ComponentNotFoundError, env.remove_cell_component, name)
            ctx.event("remove", name)
        elif kind == "remove_unknown":
            if op["name"] in live:
                continue
            ctx.fault("reject.cell_unknown")
            ctx.probe("remove_unknown_rejected")
            ctx.expect_raises("remove-unknown", ComponentNotFoundError, env.remove_cell_component, op["name"])
        elif kind == "other":
            e2 = other_world(op.get("own_model"))
            name = op["name"]
            if op["what"] == "add":
                serial += 1
                ctx.expect_ok("other-add", e2.add_cell_component, name, ConstantGenerator(-serial))
                other["live"][name] = -serial
            elif name in other["live"] and op["what"] == "remove":
                ctx.expect_ok("other-remove", e2.remove_cell_component, name)
                del other["live"][name]
                if name in live:
                    ctx.probe("second_world_removed_a_name_live_here")
            elif name not in other["live"]:
                ctx.fault("reject.cell_unknown")
                if name in live:
                    ctx.probe("second_world_rejects_a_name_live_here")
                ctx.expect_raises("other-remove-unknown", ComponentNotFoundError, e2.remove_cell_component, name)
        elif kind == "overwrite":
            rec = live.get(op["name"])
            if rec is None or rec["buf"] is None:
                continue
            ctx.fault("alias.mutate_source")
            if isinstance(rec["buf"], list):
                rec["buf"][:] = [-1] * len(rec["buf"])
                ctx.probe("alias_after_list")
            else:
                if not rec["buf"].flags.writeable:
                    rec["buf"].flags.writeable = True      # (the owner of a read-only buffer unlocks it to change it)
                rec["buf"][:] = -1
                ctx.probe("alias_after_ndarray")
            ctx.event("overwrite", op["name"])
        check_all(kind)
        if pending_rm and kind != "remove":
            flags["rm_then_read"] = True
            pending_rm = False
        shape.append([kind, op.get("src"), len(live)])
        ctx.state([spec["kind"], min(W, 2), min(H, 2), min(D, 2), kind, op.get("src"), len(live)])
    ctx.nontrivial = noncubic and populated >= 2 and flags["two_kinds"] and flags["rm_then_read"]
    ctx.sig = [[W, H, D], shape]
