"""Start-method arm shared by C15 and C16: batch_run / grid_search with worker processes that do not inherit the parent's memory
(multiprocessing start methods `spawn` and `forkserver`), in a fresh interpreter, compared with what the parameters prescribe."""
import itertools
import json
import os
import random
import subprocess
import sys
import time

from . import plainwork as PW


def _cli(method, jobs):
    env = dict(os.environ)
    env["PYTHONHASHSEED"] = "0"
    env["VERIF_REPO"] = os.environ.get("VERIF_REPO", "/repo")
    cp = subprocess.run([sys.executable, os.path.join(os.path.dirname(os.path.abspath(__file__)), "spawn_cli.py"), method],
                        input=json.dumps(jobs), capture_output=True, text=True, env=env, timeout=900)
    line = [ln for ln in cp.stdout.splitlines() if ln.startswith("OUTCOME ")]
    if cp.returncode != 0 or not line:
        from simkit.core import HarnessError
        raise HarnessError(f"spawn_cli {method} failed: {cp.stdout[-500:]} {cp.stderr[-1500:]}")
    return json.loads(line[0][8:])


def _jobs(rng, what, n):
    out = []
    for i in range(n):
        a = rng.sample(range(0, 9), rng.randint(1, 3))
        b = rng.sample(range(0, 5), rng.randint(1, 2))
        j = {"a": a, "b": b, "processes": rng.choice([2, 2, 3]), "reps": rng.randint(1, 2), "max_ts": rng.randint(1, 5)}
        if what == "search":
            j["mode"] = rng.randrange(8) if i else rng.choice([6, 7])
            if j["mode"] >= 6:
                j["reps"] = 2
        out.append(j)
    return out


def _expected_search(j):
    rows = []
    for a, b in itertools.product(j["a"], j["b"]):
        s = PW.expected_score(a, b, j["max_ts"])
        m = j["mode"]
        agg = s if m < 4 else s * j["reps"] if m < 6 else 0
        rows.append({"a": a, "b": b, "records": [s] * j["reps"], "score": agg})
    scores = [r["score"] for r in rows]
    best = rows[scores.index(min(scores) if j["mode"] % 2 == 0 else max(scores))]
    return [best, rows]


def _expected_batch(j):
    return sorted([[list(r) for r in PW.expected_records(a, b, j["max_ts"])] for a, b in itertools.product(j["a"], j["b"])] * j["reps"])


def run(tier, seed, what):
    """what: 'batch' (C15) or 'search' (C16). Returns {"violation": ...} or {"evidence": ...}."""
    from simkit.core import run_seed
    t0 = time.time()
    methods = ["spawn"] if tier == "quick" else ["spawn", "forkserver", "fork"]
    n = 2 if tier == "quick" else 6
    done = 0
    for method in methods:
        rng = random.Random(run_seed(seed, f"start-method/{what}/{method}", 0))
        jobs = _jobs(rng, what, n)
        got = _cli(method, {what: jobs})[what]
        for j, g in zip(jobs, got):
            done += 1
            if "exc" in g:
                return {"violation": {"kind": "start-method:unexpected-exception", "arm": f"start method {method} (fresh interpreter)",
                                      "job": j, "detail": f"{'batch_run' if what == 'batch' else 'grid_search'} raised {g['exc']}"}}
            if what == "batch":
                ok = sorted(g["ok"]) == _expected_batch(j)
                want = _expected_batch(j)
            else:
                want = _expected_search(j)
                ok = g["ok"] == want
            if not ok:
                return {"violation": {"kind": "start-method:wrong-outcome", "arm": f"start method {method} (fresh interpreter)", "job": j,
                                      "detail": f"returned {json.dumps(g['ok'])[:600]} expected {json.dumps(want)[:600]}"}}
    return {"evidence": {"start_method_arm": {"methods": methods, "jobs": done, "wall_s": round(time.time() - t0, 2),
                                              "note": "fresh interpreter per start method; workers do not inherit the parent's memory under spawn / forkserver"}}}
