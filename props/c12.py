"""C12 - positional queries return exactly the agents inside the leeway box.

Simulated dimension: queries are issued in the middle of seeded placement / move / remove histories
(the world reference of C08 is reused), so agents moved or removed since placement are covered by
construction; the query geometry itself is generated input on a coarse lattice so that agents on box
faces, coincident agents and seam-crossing boxes are frequent."""
import copy
import math
import pickle

from ECAgent.Core import Agent, Component, Model
from ECAgent.Environments import PositionComponent

from simkit.stepgate import StepGate

from .worlds import RefWorld, gen_extras, gen_world, get_pos, make_agents, make_world

PROPERTY = "C12"
QUICK_RUNS = 12000
CHUNK = 200
RULE = ("continuous and grid worlds, wrapping and not; 0-8 agents on a coarse lattice (dyadic k/4 in continuous worlds) "
        "so that agents on box faces, coincident agents and agents exactly `leeway` away are frequent; between moves / "
        "removals, queries with a point inside or outside the world and (general, x, y, z) leeways from {negative, 0, "
        "equal, one larger than the other}; non-trivial = >=3 agents, >=1 agent exactly on a face of the box and >=1 "
        "agent moved since placement; distinct = (kind, wrap, per query: population, answer size, on-face count, "
        "seam-crossing flag, leeway relation)"
        "; also: continuous extents in (0,1), rejected duplicate placements between queries, wrap_env reassigned, worlds that are not model.environment, model lifecycle ops, agents carrying own components incl. a PositionComponent subclass with another location, agents that are environments themselves, stretches of the history issued from inside a running timestep, grid worlds with agents on half-cell positions, infinite leeways")
COMPONENTS = {"real": ["ECAgent.Environments.SpaceWorld.get_agents_at", "add_agent / move / move_to / remove_agent"],
              "stub": ["agents are plain ECAgent agents created by the harness"]}
PROBES = ["agent_resting_beyond_the_walls_of_a_narrow_world", "earlier_answers_still_held", "integer_leeway_beyond_the_float_range", "axis_leeway_larger", "general_leeway_larger", "negative_leeway", "empty_answer", "coincident_agents",
          "query_outside_world", "seam_crossing_box", "agent_on_face", "wrap_world", "moved_since_placement", "rejected_duplicate_add", "model_lifecycle_op", "wrap_mode_switched", "agent_with_position_subclass_component", "agent_is_an_environment", "ops_from_inside_a_timestep",
          "grid_world_with_half_cell_positions", "infinite_leeway", "history_continued_on_a_copy", "leeways_left_to_their_defaults"]
TECHNIQUE = "deterministic simulation: positional queries inside seeded move/remove histories vs an exact geometric filter (seam-aware in wrapping worlds)"
LEVEL_TEXT = ("Seeded search over placements, move histories and query boxes; every answer must equal, as an ordered id list, an "
              "exact geometric filter over the reference positions (distance around the seam in wrapping worlds); the query "
              "must not alter the environment. Sampling, not proof; <=8 agents, <=40 ops.")
LEVEL_NOTE = "Trusted: the exact filter with L = max(general, per-axis leeway), bounds inclusive; coordinates dyadic so comparisons are exact."
SHRINK_LISTS = ["ops"]


def lattice(rng, ref, ax, outside=0.15):
    if not ref.positive(ax):
        return 0
    step = 2 if ref.den == 8 else 1
    hi = ref.hi(ax)
    if rng.random() < outside:
        return rng.choice([-step, -3 * step, hi + step, hi + 4 * step, ref.ext[ax], ref.ext[ax] * 2 + step])
    return rng.randrange(0, hi + 1, step) if hi >= step else rng.choice([0, hi])


def gen_leeways(rng, ref):
    step = 2 if ref.den == 8 else 1
    g = rng.choice([0, 0, step, 2 * step, 3 * step, -step, 5 * step])
    out = [g]
    for _ in range(3):
        out.append(rng.choice([0, 0, g, g + step, max(g - step, 0), -step, 4 * step, step]))
    if rng.random() < 0.06:
        out[rng.randrange(4)] = "inf"        # "the whole axis": an infinite leeway is a float like any other
    elif ref.den == 1 and rng.random() < 0.05:
        out[rng.randrange(4)] = "huge"       # ... and so is, in a grid world, an integer beyond the range of floats
    return out


def generate(rng, tier):
    world = gen_world(rng, kinds=("space", "space", "discrete", "line", "grid"), subunit=0.12)
    world["attached"] = rng.random() < 0.8
    if world["kind"] != "space" and rng.random() < 0.2:
        # a grid world whose agents sit OFF the cell lattice (half-cell steps): positions are numbers, not cell indices
        world.update(w=2 * world["w"], h=2 * world["h"], d=2 * world["d"], den=2)
    ref = RefWorld(world)
    n = rng.randint(0, 12 if tier == "thorough" else 8)
    ops = []
    for k in range(n):
        ops.append({"op": "add", "k": k, "p": [lattice(rng, ref, ax, 0) for ax in range(3)]})
    step = 2 if ref.den == 8 else 1
    for _ in range(rng.randint(3, 50 if tier == "thorough" else 30)):
        r = rng.random()
        if r < 0.5 or n == 0:
            ops.append({"op": "query", "p": [lattice(rng, ref, ax) for ax in range(3)], "l": gen_leeways(rng, ref),
                        "omit_defaults": rng.random() < 0.3})
        elif r < 0.75:
            ops.append({"op": "move", "k": rng.randrange(n), "d": [rng.randint(-3, 3) * step for _ in range(3)]})
        elif r < 0.85:
            ops.append({"op": "move_to", "k": rng.randrange(n), "p": [lattice(rng, ref, ax, 0) for ax in range(3)]})
        elif r < 0.92:
            ops.append({"op": "remove", "k": rng.randrange(n)})
        elif r < 0.935:
            ops.append({"op": "lifecycle", "k": 0, "what": rng.choice(["step", "complete"])})
        elif r < 0.95:
            ops.append({"op": "flip_wrap", "k": 0})
        else:
            ops.append({"op": "add", "k": rng.randrange(n), "p": [lattice(rng, ref, ax, 0) for ax in range(3)]})
            if rng.random() < 0.5:
                ops.append({"op": "move", "k": ops[-1]["k"], "d": [rng.randint(-2, 2) * step for _ in range(3)]})
    if rng.random() < 0.25 and len(ops) >= 2:
        # a stretch of the history is issued from inside a running timestep (by a System, as far as the package can tell)
        i_ = rng.randint(0, len(ops) - 1)
        j_ = rng.randint(i_ + 1, len(ops))
        ops.insert(j_, {"op": "leave_step"})
        ops.insert(i_, {"op": "enter_step"})
    if rng.random() < 0.12:
        for _ in range(rng.randint(1, 2)):      # checkpoint / branch: the history continues on a deep copy (or pickle round trip)
            ops.insert(rng.randint(0, len(ops)), {"op": "branch", "how": rng.choice(["deepcopy", "deepcopy", "pickle"]), "k": 0})
    extras = gen_extras(rng, n, lambda ax: lattice(rng, ref, ax, 0))
    if rng.random() < 0.3:
        # absolute moves aimed beyond the walls: refused in most worlds, accepted on axes narrower than one unit (the package
        # skips the range test there) - either way the queries that follow are about where the agents ARE
        for o_ in ops:
            if o_["op"] == "move_to" and rng.random() < 0.6:
                o_["p"] = [lattice(rng, ref, ax, 0.5) for ax in range(3)]
                o_["any"] = True
    return {"world": world, "n": n, "ops": ops, "extras": extras}


def execute(sc, ctx):
    m = Model(seed=20260927)
    ref = RefWorld(sc["world"])
    env = make_world(m, sc["world"])
    n = int(sc["n"])
    agents = make_agents(m, n, sc.get("extras", []), ref, ctx)
    pos = {}      # joining order preserved (dict)
    moved = set()
    shape = []
    held_answers = []
    flags = {"face": False, "moved": False, "three": False}
    if ref.wrap:
        ctx.probe("wrap_world")
    if sc["world"]["kind"] != "space" and ref.den == 2:
        ctx.probe("grid_world_with_half_cell_positions")
    gate = StepGate(ctx)
    for op in sc["ops"]:
        kind = op["op"]
        if kind == "enter_step":
            gate.enter(m)
            continue
        if kind == "leave_step":
            gate.leave()
            continue
        if kind == "lifecycle" and ctx.in_step and op.get("what") == "step":
            continue          # stepping the model from inside its own timestep is re-entrant stepping: outside the statements
        if kind == "branch":
            if not ctx.in_step:
                blob = (m, env, agents)
                m, env, agents = pickle.loads(pickle.dumps(blob)) if op.get("how") == "pickle" else copy.deepcopy(blob)
                ctx.fault("restart.continue_on_copy")
                ctx.probe("history_continued_on_a_copy")
            continue
        if kind == "query":
            p = [int(c) for c in op["p"]]
            lw = [math.inf if c == "inf" else 10 ** 400 if c == "huge" else int(c) for c in op["l"]]
            if math.inf in lw:
                ctx.probe("infinite_leeway")
            if "huge" in op["l"]:
                ctx.probe("integer_leeway_beyond_the_float_range")
            L = [max(lw[0], lw[1 + ax]) for ax in range(3)]
            want, onface, seam = [], 0, False
            for k, ap in pos.items():
                ok = True
                face = False
                for ax in range(3):
                    a_ = ap[ax] if ap[ax] is not None else None
                    if a_ is None:
                        a_ = int(round(get_pos(agents[k])[ax] * ref.den))   # zero-extent axis: take the code's own value
                    d = ref.dist(a_, p[ax], ax)
                    if d > L[ax] or L[ax] < 0:
                        ok = False
                    if d == L[ax]:
                        face = True
                    if ref.wrap and ref.positive(ax) and abs(a_ - p[ax]) > L[ax] >= d:
                        seam = True
                if ok:
                    want.append(agents[k].id)
                    if face:
                        onface += 1
            before = [(a.id, get_pos(a)) for a in env]
            rp, rl = ref.real(p), ref.real(lw)
            kw = {"leeway": rl[0], "x_leeway": rl[1], "y_leeway": rl[2], "z_leeway": rl[3]}
            if op.get("omit_defaults"):
                # arguments left out where the documented default (0) is meant
                kw = {k_: v_ for k_, v_ in kw.items() if not (isinstance(v_, (int, float)) and v_ == 0)}
                ctx.probe("leeways_left_to_their_defaults")
            got = ctx.expect_ok("get_agents_at", env.get_agents_at, rp[0], rp[1], rp[2], **kw)
            ctx.check(isinstance(got, list), "answer-type", type(got).__name__)
            ids = [a.id for a in got]
            ctx.event("query", p, op["l"], ids)
            ctx.check(ids == want, "wrong-answer",
                      lambda: f"get_agents_at{rp} leeways {rl} in {sc['world']} returned {ids}, exact filter {want}; "
                              f"positions { {agents[k].id: get_pos(agents[k]) for k in pos} }")
            ctx.check([(a.id, get_pos(a)) for a in env] == before, "query-altered-environment", "")
            # an answer belongs to the caller: answers still held from earlier queries are lists of their own and stay as they were
            # whatever is searched afterwards (another box, a listing, a pick)
            if held_answers:
                ctx.probe("earlier_answers_still_held")
                if len(held_answers) % 2:
                    env.get_agents()
            for h_list, h_ids in held_answers:
                ctx.check(h_list is not got and [a.id for a in h_list] == h_ids, "earlier-answer-changed",
                          lambda: f"an answer handed out earlier ({h_ids}) reads {[a.id for a in h_list]} after a later search"
                                  f"{' (it is the very list just returned)' if h_list is got else ''}")
            held_answers.append((got, list(ids)))
            del held_answers[:-3]
            if seam:
                ctx.probe("seam_crossing_box")
            if onface:
                ctx.probe("agent_on_face")
                flags["face"] = True
            if not want:
                ctx.probe("empty_answer")
            if any(x < 0 for x in L):
                ctx.probe("negative_leeway")
            if any(lw[1 + ax] > lw[0] for ax in range(3)):
                ctx.probe("axis_leeway_larger")
            if any(lw[1 + ax] < lw[0] for ax in range(3)):
                ctx.probe("general_leeway_larger")
            if not ref.inside(p):
                ctx.probe("query_outside_world")
            vals = [tuple(v) for v in pos.values()]
            if len(vals) != len(set(vals)):
                ctx.probe("coincident_agents")
            if len(pos) >= 3:
                flags["three"] = True
            if any(k in moved for k in pos):
                ctx.probe("moved_since_placement")
                flags["moved"] = True
            shape.append([len(pos), len(want), onface, seam, [x > lw[0] for x in lw[1:]]])
            ctx.state([sc["world"]["kind"], ref.wrap, len(pos), len(want), onface, seam])
            continue
        if n == 0:
            continue
        k = op["k"] % n
        a = agents[k]
        if kind == "add":
            p = [int(c) for c in op["p"]]
            if k in pos and ref.inside(p):
                # rejected duplicate placement (other coordinates): positions and later answers must not change
                from ECAgent.Core import DuplicateAgentError
                ctx.fault("reject.dup_agent")
                ctx.probe("rejected_duplicate_add")
                ctx.expect_raises("add-duplicate", DuplicateAgentError, env.add_agent, a, *ref.real(p))
                ctx.event("add_dup", k)
                continue
            if k in pos or not ref.inside(p):
                continue
            ctx.expect_ok("add", env.add_agent, a, *ref.real(p))
            pos[k] = list(p)
            moved.discard(k)
        elif kind == "move":
            if k not in pos:
                continue
            d = [int(c) for c in op["d"]]
            base = [c if c is not None else 0 for c in pos[k]]
            ctx.expect_ok("move", env.move, a, *ref.real(d))
            pos[k] = ref.move(base, d)
            moved.add(k)
        elif kind == "move_to":
            p = [int(c) for c in op["p"]]
            if k in pos and op.get("any") and not ref.inside(p):
                st_, _v = ctx.call(env.move_to, a, *ref.real(p))
                if st_ == "ok":
                    now_ = get_pos(a)
                    if all(c == c and abs(c) < 1e9 and float(c * ref.den).is_integer() for c in now_):
                        pos[k] = [int(c * ref.den) if ref.positive(ax) else pos[k][ax] for ax, c in enumerate(now_)]
                        moved.add(k)
                        if not ref.inside(pos[k]):
                            ctx.probe("agent_resting_beyond_the_walls_of_a_narrow_world")
                continue
            if k not in pos or not ref.inside(p):
                continue
            ctx.expect_ok("move_to", env.move_to, a, *ref.real(p))
            pos[k] = list(p)
            moved.add(k)
        elif kind == "flip_wrap":
            env.wrap_env = not env.wrap_env        # a public attribute (the package's own tests reassign it)
            ref.wrap = not ref.wrap
            ctx.probe("wrap_mode_switched")
        elif kind == "lifecycle":
            ctx.expect_ok("lifecycle", m.complete if op["what"] == "complete" else m.execute)
            ctx.probe("model_lifecycle_op")
        elif kind == "remove":
            if k not in pos:
                continue
            ctx.expect_ok("remove", env.remove_agent, a.id)
            del pos[k]
        ctx.event(kind, k)
    gate.leave()
    ctx.nontrivial = flags["face"] and flags["moved"] and flags["three"]
    ctx.sig = [sc["world"]["kind"], ref.wrap, shape[:40]]
