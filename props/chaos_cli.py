"""Fresh-interpreter side of the C07 cross-environment arm: reads [[seed, cfg], ...] on stdin, prints digests.
Run as a script (not -m). Honours VERIF_REPO. argv[1] = 'direct' | 'batch-fork' | 'batch-spawn'."""
import json
import os
import sys

HERE = os.path.dirname(os.path.dirname(os.path.abspath(__file__)))
sys.dont_write_bytecode = True
sys.path.insert(0, HERE)
sys.path.insert(0, os.path.realpath(os.environ.get("VERIF_REPO", "/repo")))


def main():
    how = sys.argv[1]
    jobs = json.load(sys.stdin)
    import random
    import numpy
    random.seed(len(jobs))
    numpy.random.seed(7)
    from props import chaos
    jobs = [[bytes.fromhex(s["bytes"]) if isinstance(s, dict) else s, c] for s, c in jobs]
    if how == "direct":
        out = [chaos.ChaosModel(s, json.dumps(c, sort_keys=True)).run_all() for s, c in jobs]
    else:
        import multiprocessing as mp
        import ECAgent.Batching as B
        if how == "batch-spawn":
            mp.set_start_method("spawn", force=True)
        out = []
        for s, c in jobs:
            key = json.dumps(c, sort_keys=True)
            res = B.batch_run(chaos.ChaosModel, {"seed": [s, s], "cfg": key}, collectors="digest", processes=2)
            out.append(sorted(r[-1][2] for r in res))
            if len(out) <= 2:       # the same model behind a keyword-only `seed` parameter, serial and parallel
                for procs in (1, 2):
                    res = B.batch_run(chaos.KwChaosModel, {"seed": [s], "cfg": key}, collectors="digest", processes=procs)
                    out[-1].extend(r[-1][2] for r in res)
    print("DIGESTS " + json.dumps(out))


if __name__ == "__main__":
    main()
