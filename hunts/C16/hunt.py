"""Bug hunt for the property

    "Grid search scores every combination correctly and returns the true best"

Run with:  cd /tmp/wt-C16-h && PYTHONPATH=/tmp/wt-C16-h /venv/bin/python hunt.py

Only the public API is used (ECAgent.Core.Model/Agent/System/Component, ECAgent.Batching.grid_search / ScoreMode /
ParameterList).  Every experiment prints OK, VIOLATION (counted, exit code 1) or NOTE (observed, but outside the
stated scope / unspecified, NOT counted).
"""
import multiprocessing as mp
import os
import random
import signal
import statistics
import sys
import warnings
from decimal import Decimal
from fractions import Fraction

from ECAgent.Batching import ParameterList, ScoreMode, grid_search
from ECAgent.Core import Agent, Component, Model, System

try:
    import numpy as np
except ImportError:  # pragma: no cover
    np = None

CORES = os.cpu_count() or 2
VIOLATIONS = []
NOTES = []


# --------------------------------------------------------------------------------------------------------------------
# helpers
# --------------------------------------------------------------------------------------------------------------------
class _Timeout(Exception):
    pass


def _alarm(signum, frame):
    raise _Timeout()


def guarded(seconds, fn):
    """Runs fn() with a wall clock limit (multiprocessing may hang)."""
    old = signal.signal(signal.SIGALRM, _alarm)
    signal.alarm(seconds)
    try:
        return fn()
    finally:
        signal.alarm(0)
        signal.signal(signal.SIGALRM, old)


def attempt(fn, seconds=120):
    """Returns ('ok', value) or ('exc', 'Type: message')."""
    try:
        return 'ok', guarded(seconds, fn)
    except _Timeout:
        return 'exc', 'TIMEOUT (hang)'
    except BaseException as e:  # noqa
        return 'exc', f'{type(e).__name__}: {e}'


def ok(name, extra=''):
    print(f'[OK]        {name} {extra}')


def violation(name, text):
    VIOLATIONS.append(name)
    print(f'[VIOLATION] {name}\n' + '\n'.join('              ' + line for line in text.strip().splitlines()))


def note(name, text):
    NOTES.append(name)
    print(f'[NOTE]      {name} (not counted)\n' + '\n'.join('              ' + line for line in text.strip().splitlines()))


def oracle_aggregate(records, mode):
    mode = int(mode)
    if mode == 0:
        return min(records)
    if mode == 1:
        return max(records)
    if mode in (2, 3):
        return statistics.mean(records)
    if mode in (4, 5):
        return sum(records)
    return statistics.variance(records)


def oracle_best_index(scores, mode):
    target = min(scores) if int(mode) % 2 == 0 else max(scores)
    return scores.index(target)  # first one


# --------------------------------------------------------------------------------------------------------------------
# models and score functions (module level so that they can be pickled)
# --------------------------------------------------------------------------------------------------------------------
class TableModel(Model):
    """Completed on construction, only remembers its parameters."""

    def __init__(self, a=0, b=0, records=None, score=None, cfg=None):
        super().__init__()
        self.a, self.b, self.p_records, self.p_score, self.cfg = a, b, records, score, cfg
        self.complete()


TABLE = {}
COUNTER = {}


def table_score(model):
    """k-th repetition of combination (a, b) -> TABLE[(a, b)][k] (deterministic, works under fork)."""
    key = (model.a, model.b)
    k = COUNTER.get(key, 0)
    COUNTER[key] = k + 1
    return TABLE[key][k]


def score_a(model):
    return model.a


def score_hash(model):
    return (model.a * 7919) % 101 - 50


def score_len_a(model):
    return len(model.a)


class Wealth(Component):
    def __init__(self, agent, model, w):
        super().__init__(agent, model)
        self.w = w


class Trade(System):
    def execute(self):
        agents = list(self.model.environment.get_agents())
        for a in agents:
            b = self.model.random.choice(agents)
            if a[Wealth].w > 0:
                a[Wealth].w -= 1
                b[Wealth].w += 1
        if self.model.systems.timestep >= self.model.T - 1:
            self.model.complete()


class RealModel(Model):
    def __init__(self, n=3, T=5, seed=0):
        super().__init__(seed=seed)
        self.T = T
        for i in range(n):
            a = Agent(f'a{i}', self)
            a.add_component(Wealth(a, self, 3))
            self.environment.add_agent(a)
        self.systems.add_system(Trade('trade', self))


def max_wealth(model):
    return max(a[Wealth].w for a in model.environment.get_agents())


def max_wealth_fraction(model):
    return Fraction(max_wealth(model), 7)


def max_wealth_decimal(model):
    return Decimal(max_wealth(model)) / Decimal(8)


def bool_score(model):
    return model.T % 2 == 0


def negzero_score(model):
    return -0.0 if model.T % 2 else 0.0


def int_or_float_one(model):
    return 1 if model.T % 2 else 1.0


def np_int_sum_score(model):
    """A very ordinary numpy score: np.sum over an integer array -> numpy.int64."""
    key = model.a
    k = COUNTER.get(key, 0)
    COUNTER[key] = k + 1
    return np.sum(np.array([model.a, k]))  # a=0 -> 0, 1      a=1 -> 1, 2


def np_uint8_score(model):
    return np.uint8(200 if model.a == 0 else 100)


def stopiteration_score(model):
    if model.a == 1:
        return next(iter(()))  # a plain bug in a score function: next() on an empty iterator
    return model.a


def run_table(table, grid, reps, mode, procs):
    global TABLE, COUNTER
    TABLE = table
    COUNTER = {}
    return grid_search(TableModel, grid, table_score, processes=procs, repetitions=reps, mode=mode)


# --------------------------------------------------------------------------------------------------------------------
# experiments that turned out fine
# --------------------------------------------------------------------------------------------------------------------
def exp_random_oracle():
    name = 'E01 randomized oracle: all modes x score kinds (small/negative/tied/1e300/1e30 ints/floats) x procs 1,2,5'
    rnd = random.Random(1)
    problems = []
    for trial in range(30):
        A = list(range(rnd.randint(1, 4)))
        B = list(range(rnd.randint(1, 3)))
        reps = rnd.randint(2, 4)
        kind = rnd.choice(['small', 'neg', 'tied', 'huge', 'hugeint', 'float'])

        def gen():
            if kind == 'small':
                return rnd.randint(0, 3)
            if kind == 'neg':
                return -rnd.randint(0, 5)
            if kind == 'tied':
                return 7
            if kind == 'huge':
                return rnd.choice([-1, 1]) * rnd.random() * 1e300
            if kind == 'hugeint':
                return rnd.choice([-1, 1]) * (10 ** 30 + rnd.randint(0, 3) * 2)
            return rnd.uniform(-1, 1)

        table = {(a, b): [gen() for _ in range(reps)] for a in A for b in B}
        combos = [(a, b) for a in A for b in B]
        for mode in ScoreMode:
            try:
                expected = [{'a': a, 'b': b, 'records': table[(a, b)], 'score': oracle_aggregate(table[(a, b)], mode)}
                            for a, b in combos]
            except OverflowError:
                continue  # variance of +-1e300 scores does not fit a float at all, see NOTE N2
            bi = oracle_best_index([e['score'] for e in expected], mode)
            for procs in (1, 2, 5):
                status, out = attempt(lambda: run_table(table, {'a': A, 'b': B}, reps, mode, procs))
                if status != 'ok':
                    problems.append(f'{kind} {mode.name} procs={procs}: {out}')
                    continue
                best, everything = out
                if everything != expected or best is not everything[bi]:
                    problems.append(f'{kind} {mode.name} procs={procs}: got best={best}, expected {expected[bi]}')
    if problems:
        violation(name, '\n'.join(problems[:10]))
    else:
        ok(name)


def exp_real_model():
    name = f'E02 real stepping model, 27 combinations x 3 reps, int/Fraction/Decimal/bool/-0.0/1-vs-1.0 scores, ' \
           f'all modes, procs 1,2,3,7,{CORES},None'
    grid = {'n': [2, 3, 5], 'T': [1, 4, 9], 'seed': [0, 1, 2]}
    problems = []
    for sf in (max_wealth, max_wealth_fraction, max_wealth_decimal, bool_score, negzero_score, int_or_float_one):
        for mode in ScoreMode:
            base = None
            for p in (1, 2, 3, 7, CORES, None):
                status, r = attempt(lambda: grid_search(RealModel, grid, sf, processes=p, repetitions=3, mode=mode))
                if status != 'ok':
                    problems.append(f'{sf.__name__} {mode.name} procs={p}: {r}')
                    continue
                if base is None:
                    base = r
                    best, everything = r
                    scores = [d['score'] for d in everything]
                    if len(everything) != 27 or best is not everything[oracle_best_index(scores, mode)] or any(
                            d['score'] != oracle_aggregate(d['records'], mode) or len(d['records']) != 3
                            for d in everything):
                        problems.append(f'{sf.__name__} {mode.name}: serial result is wrong')
                elif r != base or repr(r) != repr(base):
                    problems.append(f'{sf.__name__} {mode.name}: procs={p} differs from procs=1')
    if problems:
        violation(name, '\n'.join(problems[:10]))
    else:
        ok(name)


def exp_sentinel_and_ties():
    name = 'E03 every aggregate beyond +-sys.maxsize / 10**400 ints / all tied / duplicate combinations -> first optimum'
    problems = []
    for mode in ScoreMode:
        for vals in ([10 ** 400, 10 ** 400 + 2, 10 ** 400 + 2], [-10 ** 400, -10 ** 400 - 2, -10 ** 400 - 2],
                     [1e300, 3e300, 3e300], [-3e300, -3e300, -1e300], [5, 5, 5]):
            table = {(a, 0): [vals[a], vals[a]] for a in range(3)}
            if int(mode) >= 6:  # make variances differ/tie in a controlled way
                table = {(a, 0): [0, vals[a]] for a in range(3)}
                if isinstance(vals[0], int) and abs(vals[0]) > 10 ** 300:
                    continue  # variance of 10**400 ints does not fit a float (see NOTE N2)
                if isinstance(vals[0], float) and abs(vals[0]) > 1e150:
                    continue
            status, out = attempt(lambda: run_table(table, {'a': [0, 1, 2], 'b': 0}, 2, mode, 1))
            if status != 'ok':
                problems.append(f'{mode.name} {vals}: {out}')
                continue
            best, everything = out
            scores = [oracle_aggregate(table[(a, 0)], mode) for a in range(3)]
            if best is not everything[oracle_best_index(scores, mode)]:
                problems.append(f'{mode.name} {vals}: best={best}')
    # duplicate combinations
    status, out = attempt(lambda: grid_search(TableModel, {'a': [4, 4, 4]}, score_a, mode=ScoreMode.MAX))
    if status != 'ok' or out[0] is not out[1][0]:
        problems.append(f'duplicates: {out}')
    if problems:
        violation(name, '\n'.join(problems[:10]))
    else:
        ok(name)


def exp_mode_spellings():
    name = 'E04 mode given as plain int / bool / numpy int behaves like the ScoreMode member'
    problems = []
    grid = {'a': [3, 9, 1, 9, 1]}
    spellings = [(ScoreMode.MAX, 1), (ScoreMode.MAX, True), (ScoreMode.MIN, False), (ScoreMode.MIN_SUM, 4)]
    if np is not None:
        spellings.append((ScoreMode.MAX_MEAN, np.int64(3)))
    for member, spelled in spellings:
        a = attempt(lambda: grid_search(TableModel, grid, score_a, repetitions=2, mode=member))
        b = attempt(lambda: grid_search(TableModel, grid, score_a, repetitions=2, mode=spelled))
        if a != b or a[0] != 'ok':
            problems.append(f'{member!r} vs {spelled!r}: {a} / {b}')
    if problems:
        violation(name, '\n'.join(problems))
    else:
        ok(name)


def exp_reuse_inputs():
    name = 'E05 ParameterList / dict reused across calls, inputs are not mutated, second call not polluted'
    grid = {'a': [3, 1, 2], 'b': (0, 1)}
    snapshot = repr(grid)
    pl = ParameterList(grid)
    r1 = attempt(lambda: grid_search(TableModel, pl, score_hash))
    r2 = attempt(lambda: grid_search(TableModel, pl, score_hash, processes=2, mode=ScoreMode.MIN))
    r3 = attempt(lambda: grid_search(TableModel, grid, score_hash))
    if not (r1 == r2 == r3) or r1[0] != 'ok' or repr(grid) != snapshot or pl.build() != ParameterList(grid).build():
        violation(name, f'{r1}\n{r2}\n{r3}\n{grid}')
    else:
        ok(name)


def exp_many_combinations_order():
    name = f'E06 400 combinations keep grid order and the same best for procs 1, 2, {CORES}'
    base = grid_search(TableModel, {'a': range(400)}, score_hash, mode=ScoreMode.MAX)
    problems = []
    for p in (2, CORES):
        status, r = attempt(lambda: grid_search(TableModel, {'a': range(400)}, score_hash, processes=p,
                                                mode=ScoreMode.MAX))
        if status != 'ok' or r != base or [d['a'] for d in r[1]] != list(range(400)):
            problems.append(f'procs={p}: {str(r)[:200]}')
    if problems:
        violation(name, '\n'.join(problems))
    else:
        ok(name)


def exp_start_methods():
    name = 'E07 spawn and forkserver start methods give the same outcome as serial'
    grid = {'n': [2, 3], 'T': [1, 4, 9], 'seed': [0, 1]}
    serial = grid_search(RealModel, grid, max_wealth, repetitions=2, mode=ScoreMode.MAX_VARIANCE)
    problems = []
    previous = mp.get_start_method()
    try:
        for method in ('spawn', 'forkserver'):
            mp.set_start_method(method, force=True)
            status, r = attempt(lambda: grid_search(RealModel, grid, max_wealth, processes=3, repetitions=2,
                                                    mode=ScoreMode.MAX_VARIANCE), seconds=180)
            if status != 'ok' or r != serial:
                problems.append(f'{method}: {str(r)[:300]}')
    finally:
        mp.set_start_method(previous, force=True)
    if problems:
        violation(name, '\n'.join(problems))
    else:
        ok(name)


def exp_set_valued_grid():
    name = 'E08 hash-order dependent grid (set of str) is expanded once: same outcome for procs 1, 2'
    grid = {'a': {'pear', 'apple', 'fig', 'kiwi', 'banana'}}
    a = attempt(lambda: grid_search(TableModel, grid, score_len_a, mode=ScoreMode.MAX))
    b = attempt(lambda: grid_search(TableModel, grid, score_len_a, mode=ScoreMode.MAX, processes=2))
    if a != b or a[0] != 'ok' or a[1][0]['a'] != 'banana':
        violation(name, f'{a}\n{b}')
    else:
        ok(name)


def exp_falsy_parameter_values():
    name = "E09 falsy / odd parameter values (0, '', None, False, 0.0, (), numpy scalar) are reported unmodified"
    values = {'a': [0, '', None, False, 0.0, -0.0, ()], 'b': 0}
    if np is not None:
        values['cfg'] = np.float64(0.0)
    status, out = attempt(lambda: grid_search(TableModel, values, lambda m: 1))
    if status != 'ok' or [d['a'] for d in out[1]] != values['a'] or any(d['b'] != 0 for d in out[1]):
        violation(name, str(out))
    else:
        ok(name)


def exp_float32_and_float64_scores():
    if np is None:
        return
    name = 'E10 numpy FLOAT scores (float64/float32) aggregate correctly'
    problems = []
    for dtype in (np.float64, np.float32):
        table = {(0, 0): [dtype(0.5), dtype(1.5)], (1, 0): [dtype(0.25), dtype(4.25)]}
        for mode in ScoreMode:
            status, out = attempt(lambda: run_table(table, {'a': [0, 1], 'b': 0}, 2, mode, 1))
            exp = [oracle_aggregate([float(x) for x in table[(a, 0)]], mode) for a in (0, 1)]
            if status != 'ok' or [float(d['score']) for d in out[1]] != exp:
                problems.append(f'{dtype.__name__} {mode.name}: {out} expected {exp}')
    if problems:
        violation(name, '\n'.join(problems))
    else:
        ok(name)


# --------------------------------------------------------------------------------------------------------------------
# genuine violations
# --------------------------------------------------------------------------------------------------------------------
def exp_numpy_integer_scores():
    if np is None:
        print('[SKIP]      V1 numpy not installed')
        return
    name = 'V1 numpy integer scores: mean / sample variance are truncated to an integer (wrong aggregate, wrong best)'
    lines = []
    global COUNTER
    # scores: a=0 -> [0, 1]  a=1 -> [1, 2]      (np.sum of an int array -> numpy.int64)
    for mode, expected in ((ScoreMode.MIN_MEAN, [0.5, 1.5]), (ScoreMode.MAX_MEAN, [0.5, 1.5]),
                           (ScoreMode.MIN_VARIANCE, [0.5, 0.5]), (ScoreMode.MAX_VARIANCE, [0.5, 0.5])):
        for procs in (1, 2):
            COUNTER = {}
            status, out = attempt(lambda: grid_search(TableModel, {'a': [0, 1]}, np_int_sum_score, repetitions=2,
                                                      mode=mode, processes=procs))
            got = [d['score'] for d in out[1]] if status == 'ok' else out
            if status != 'ok' or [float(g) for g in got] != expected:
                lines.append(f"grid_search(M, {{'a': [0, 1]}}, score->np.int64 [[0,1],[1,2]], repetitions=2, "
                             f"mode={mode.name}, processes={procs}): scores {got!r}, expected {expected}")
    # wrong best: a=0 -> [1, 1] (mean 1), a=1 -> [0, 3] (mean 1.5): MAX_MEAN must pick a=1, truncation makes it a tie
    global TABLE
    TABLE = {(0, 0): [np.int64(1), np.int64(1)], (1, 0): [np.int64(0), np.int64(3)]}
    COUNTER = {}
    status, out = attempt(lambda: grid_search(TableModel, {'a': [0, 1]}, table_score, repetitions=2,
                                              mode=ScoreMode.MAX_MEAN))
    if status != 'ok' or out[0]['a'] != 1:
        lines.append(f"wrong best: records a=0 -> [1, 1] (mean 1), a=1 -> [0, 3] (mean 1.5) as np.int64, MAX_MEAN "
                     f"returned {out[0] if status == 'ok' else out}, expected the a=1 combination with score 1.5")
    # narrow dtypes wrap around in sum and mean
    with warnings.catch_warnings():
        warnings.simplefilter('ignore')
        for mode, expected in ((ScoreMode.MIN_SUM, [400, 200]), (ScoreMode.MIN_MEAN, [200, 100])):
            status, out = attempt(lambda: grid_search(TableModel, {'a': [0, 1]}, np_uint8_score, repetitions=2,
                                                      mode=mode))
            got = [d['score'] for d in out[1]] if status == 'ok' else out
            if status != 'ok' or [int(g) for g in got] != expected:
                lines.append(f'np.uint8 scores [[200,200],[100,100]] {mode.name}: scores {got!r}, expected {expected}'
                             f' (best returned: a={out[0]["a"] if status == "ok" else "?"})')
    # mixed python float / numpy int scores crash
    TABLE = {(0, 0): [0.5, np.int64(2)]}
    COUNTER = {}
    status, out = attempt(lambda: grid_search(TableModel, {'a': [0]}, table_score, repetitions=2,
                                              mode=ScoreMode.MIN_MEAN))
    if status != 'ok':
        lines.append(f'records [0.5, np.int64(2)] MIN_MEAN: {out} (expected score 1.25)')
    if lines:
        violation(name, '\n'.join(lines))
    else:
        ok(name)


def exp_reserved_parameter_names():
    name = "V2 a grid parameter called 'records' or 'score' is silently overwritten in the reported combination"
    lines = []
    for key in ('records', 'score'):
        for procs in (1, 2):
            status, out = attempt(lambda: grid_search(TableModel, {'a': [0, 1], key: [5]}, score_a, processes=procs))
            if status != 'ok':
                lines.append(f'{key} procs={procs}: {out}')
                continue
            reported = [d[key] for d in out[1]]
            if reported != [5, 5]:
                lines.append(f"grid_search(M, {{'a': [0, 1], '{key}': [5]}}, score=a, processes={procs}): reported "
                             f"'{key}' parameter values {reported}, expected [5, 5] (or an up-front error)")
    if lines:
        violation(name, '\n'.join(lines))
    else:
        ok(name)


class MyParameterList(ParameterList):
    """A perfectly ordinary subclass (e.g. one that adds a convenience constructor)."""
    pass


def exp_parameter_list_subclass():
    name = 'V3 a ParameterList SUBCLASS instance is not accepted as the grid (TypeError, nothing is evaluated)'
    grid = {'a': [3, 1, 2]}
    expected = attempt(lambda: grid_search(TableModel, ParameterList(grid), score_a))
    got = attempt(lambda: grid_search(TableModel, MyParameterList(grid), score_a))
    if got != expected:
        violation(name, f"grid_search(M, MyParameterList({{'a': [3, 1, 2]}}), score) -> {got[1]}\n"
                        f"expected the same outcome as with ParameterList: best {expected[1][0]}")
    else:
        ok(name)


# --------------------------------------------------------------------------------------------------------------------
# observations that are outside the stated scope or unspecified (NOT counted)
# --------------------------------------------------------------------------------------------------------------------
def exp_notes():
    global TABLE, COUNTER
    # N1 float overflow of the running sum
    TABLE = {(0, 0): [1e308, 1e308, -1e308], (1, 0): [1.5e308, 0.0, 0.0]}
    COUNTER = {}
    s = attempt(lambda: grid_search(TableModel, {'a': [0, 1]}, table_score, repetitions=3, mode=ScoreMode.MAX_SUM))
    COUNTER = {}
    m = attempt(lambda: grid_search(TableModel, {'a': [0, 1]}, table_score, repetitions=3, mode=ScoreMode.MAX_MEAN))
    if s[0] == 'ok' and m[0] == 'ok' and s[1][0]['a'] != m[1][0]['a']:
        note('N1 SUM modes overflow to inf on finite scores whose exact sum is representable',
             f"records a=0 -> [1e308, 1e308, -1e308] (exact sum 1e308), a=1 -> [1.5e308, 0, 0]\n"
             f"MAX_SUM  best: a={s[1][0]['a']} score={s[1][0]['score']}   MAX_MEAN best: a={m[1][0]['a']} "
             f"score={m[1][0]['score']}\n"
             f"builtin sum() overflows (math.fsum would not). Whether 'sum' means IEEE left-to-right addition is "
             f"unspecified -> not counted.")
    # N2 aggregate not representable
    TABLE = {(0, 0): [10 ** 400, 10 ** 400 + 1]}
    COUNTER = {}
    r = attempt(lambda: grid_search(TableModel, {'a': [0]}, table_score, repetitions=2, mode=ScoreMode.MIN_MEAN))
    TABLE = {(0, 0): [1e200, -1e200]}
    COUNTER = {}
    v = attempt(lambda: grid_search(TableModel, {'a': [0]}, table_score, repetitions=2, mode=ScoreMode.MIN_VARIANCE))
    if r[0] == 'exc' or v[0] == 'exc':
        note('N2 aggregates that do not fit a float raise OverflowError',
             f'mean of [10**400, 10**400+1]: {r[1] if r[0] == "exc" else "fine"}\n'
             f'variance of [1e200, -1e200]: {v[1] if v[0] == "exc" else "fine"}\n'
             f'The true aggregate is not representable as a float, a loud error is defensible -> not counted.')
    # N3 StopIteration
    a = attempt(lambda: grid_search(TableModel, {'a': [0, 1, 2, -5]}, stopiteration_score, processes=1))
    b = attempt(lambda: grid_search(TableModel, {'a': [0, 1, 2, -5]}, stopiteration_score, processes=2))
    if a != b:
        note('N3 a score function (or model) that raises StopIteration silently truncates the search when processes>1',
             f"grid {{'a': [0, 1, 2, -5]}}, score raises StopIteration for a=1, mode MIN\n"
             f"processes=1: {a[1]}\n"
             f"processes=2: {b[1]}\n"
             f"-> with workers the error vanishes, only the combinations before the failing one are reported and the "
             f"real optimum (a=-5) is missed.\n"
             f"batch_run got a guard for this (commit 265c3d4), grid_search/_run_model_for_search did not. Strictly "
             f"outside the stated scope (a raising score function is not a 'finite score function') -> not counted, "
             f"but worth fixing.")
    # N4 model mutating a shared parameter value
    a = attempt(lambda: grid_search(MutatingModel, {'a': [0, 1], 'cfg': [[]]}, score_len_cfg, processes=1,
                                    repetitions=2))
    b = attempt(lambda: grid_search(MutatingModel, {'a': [0, 1], 'cfg': [[]]}, score_len_cfg, processes=2,
                                    repetitions=2))
    if a != b:
        note('N4 a model that mutates a (mutable) parameter value: reported parameters change and procs=1 != procs=2',
             f"processes=1: {a[1][1] if a[0] == 'ok' else a[1]}\nprocesses=2: {b[1][1] if b[0] == 'ok' else b[1]}\n"
             f"The value object is shared between combinations (and repetitions) in-process but pickled per task with "
             f"workers. Caused by the model mutating its arguments -> not counted.")
    # N5 str subclass / bytes parameter value is expanded per character
    r = attempt(lambda: grid_search(TableModel, {'a': MyStr('xy')}, lambda m: 0))
    if r[0] == 'ok' and len(r[1][1]) != 1:
        note("N5 a str-subclass (or bytes) parameter value is expanded character by character",
             f"grid {{'a': MyStr('xy')}} -> combinations {[d['a'] for d in r[1][1]]} (a plain 'xy' gives one "
             f"combination). This is ParameterList.build()'s expansion rule (type(value) == str), i.e. the definition "
             f"of the grid, not of the search -> not counted here.")
    # N6 nested search in a worker
    r = attempt(lambda: grid_search(TableModel, {'a': [0, 1], 'b': [2]}, nested_score, processes=2))
    r1 = attempt(lambda: grid_search(TableModel, {'a': [0, 1], 'b': [2]}, nested_score, processes=1))
    if r != r1:
        note('N6 a score function that itself runs a parallel grid_search works with processes=1 but not in a worker',
             f'processes=1: ok    processes=2: {r[1]}\nmultiprocessing limitation (daemonic workers) -> not counted.')


class MutatingModel(Model):
    def __init__(self, a=0, cfg=None):
        super().__init__()
        cfg.append(len(cfg))
        self.a, self.cfg = a, cfg
        self.complete()


def score_len_cfg(model):
    return len(model.cfg)


class MyStr(str):
    pass


def nested_score(model):
    return grid_search(TableModel, {'a': [3, 1, 2]}, score_hash, processes=model.b)[0]['score']


# --------------------------------------------------------------------------------------------------------------------
def main():
    import ECAgent
    print('ECAgent from', ECAgent.__file__, '| cores:', CORES, '| python', sys.version.split()[0])
    for experiment in (exp_random_oracle, exp_real_model, exp_sentinel_and_ties, exp_mode_spellings, exp_reuse_inputs,
                       exp_many_combinations_order, exp_start_methods, exp_set_valued_grid,
                       exp_falsy_parameter_values, exp_float32_and_float64_scores,
                       exp_numpy_integer_scores, exp_reserved_parameter_names, exp_parameter_list_subclass,
                       exp_notes):
        try:
            experiment()
        except BaseException as e:  # an experiment must never take the whole hunt down
            print(f'[ERROR]     {experiment.__name__}: {type(e).__name__}: {e}')
    print(f'\n{len(VIOLATIONS)} genuine violation(s): {VIOLATIONS}')
    print(f'{len(NOTES)} note(s) outside the stated scope (not counted)')
    return 1 if VIOLATIONS else 0


if __name__ == '__main__':
    sys.exit(main())
