#!/usr/bin/env python
"""Second-pass bug hunt for the property

    "Grid search scores every combination correctly and returns the true best"

Run with:   cd /tmp/wt-C16-i && PYTHONPATH=/tmp/wt-C16-i /venv/bin/python hunt.py

Only the public API of ECAgent is used (ECAgent.Batching.grid_search / ParameterList / ScoreMode, Core, Collectors).
Everything that touches real multiprocessing runs in a child interpreter (own session, hard timeout, the whole process
group is killed afterwards).

Every experiment prints one line:
    OK         - the property holds for this angle
    VIOLATION  - genuine violation of the property inside its stated scope   (makes the exit status 1)
    NOTE       - behaviour worth knowing about that is outside the stated scope / merely unspecified (not counted)
"""
import decimal
import faulthandler
import fractions
import math
import numbers
import os
import random
import signal
import subprocess
import sys

import numpy as np

import ECAgent.Batching as batching
import ECAgent.Collectors as collectors
import ECAgent.Core as core
from ECAgent.Batching import ScoreMode

HERE = os.path.dirname(os.path.abspath(__file__))
NCPU = os.cpu_count() or 2
MODES = list(ScoreMode)


# ---------------------------------------------------------------------------------------------------------------------
# Models / score functions (module level, so that they can be pickled by reference)
# ---------------------------------------------------------------------------------------------------------------------
_TRACK = {'key': None, 'rep': -1}


def reset_tracker():
    _TRACK.update(key=None, rep=-1)


def next_rep(key):
    """Index of the current repetition: number of consecutive constructions with the same parameters (per process).
    All repetitions of one combination are built consecutively in one process, serial or not."""
    if _TRACK['key'] == key:
        _TRACK['rep'] += 1
    else:
        _TRACK['key'], _TRACK['rep'] = key, 0
    return _TRACK['rep']


class Stopper(core.System):
    def execute(self):
        if self.model.systems.timestep >= self.model.T:
            self.model.complete()


class StepCounter(collectors.Collector):
    def collect(self):
        self.records.append(self.model.systems.timestep)


class TableModel(core.Model):
    """`scores` is the tuple of scores of the successive repetitions of this combination."""

    def __init__(self, scores=(0,), tag=None, T=1):
        super().__init__()
        rep = next_rep((repr(scores), repr(tag), repr(T)))
        self.value = scores[rep % len(scores)]
        self.T = T
        self.systems.add_system(StepCounter('steps', self, priority=5))
        self.systems.add_system(Stopper('stop', self, priority=1))


def score_value(model):
    return model.value


def score_steps(model):
    """number of executed timesteps as seen by a collector (checks that every repetition really ran)"""
    return len(model.systems['steps'].records)


class ParamModel(core.Model):
    """Score is a pure function of the parameters."""

    def __init__(self, x=0, y=0):
        super().__init__()
        self.x, self.y = x, y
        self.complete()


def score_poly(model):  # non-monotone, negative values, ties (x=1,y=.. / x=3,y=..)
    return (model.x - 2) ** 2 - 3 * model.y


def score_neg_huge(model):
    return -(10 ** 25) * model.x + model.y


class CompletedInInit(core.Model):
    def __init__(self, x=0):
        super().__init__()
        self.x = x
        self.complete()


def score_x(model):
    return model.x


class GrowSystem(core.System):
    def execute(self):
        state = self.model.state
        for i in range(len(state)):  # in-place update of the state the model was given
            state[i] += self.model.rate
        if self.model.systems.timestep == 2:
            self.model.complete()


class StateModel(core.Model):
    """A model that is handed its initial state and updates it in place (a numpy array behaves the same)."""

    def __init__(self, initial, rate):
        super().__init__()
        self.state = initial
        self.rate = rate
        self.systems.add_system(GrowSystem('grow', self))


def score_state(model):
    return sum(model.state)


class Walker(core.Agent):
    pass


class Runner(core.Agent):
    pass


class WalkSystem(core.System):
    def execute(self):
        env = self.model.environment
        for agent in env.shuffle():
            dx, dy = self.model.random.choice([(1, 0), (-1, 0), (0, 1), (0, -1)])
            env.move(agent, dx * self.model.stride, dy * self.model.stride)
        lucky = env.get_random_agent()
        env.move_to(lucky, 0, 0)
        if self.model.systems.timestep == 5:
            self.model.complete()


class WalkModel(core.Model):
    """Seeded stochastic model that only uses model.random and package functionality (GridWorld, shuffle, ...)."""

    def __init__(self, seed=0, n=3, agent_cls=None):
        super().__init__(seed=seed)
        import ECAgent.Environments as envs
        agent_cls = Walker if agent_cls is None else agent_cls
        self.stride = 2 if agent_cls is Runner else 1
        self.environment = envs.GridWorld(self, 7, 7, wrap_env=True)
        for i in range(n):
            self.environment.add_agent(agent_cls(f'a{i}', self), self.random.randrange(7), self.random.randrange(7))
        self.systems.add_system(WalkSystem('walk', self))


def score_walk(model):
    import ECAgent.Environments as envs
    total = 0
    for agent in model.environment.get_agents():
        x, y = agent[envs.PositionComponent].xy()
        total += (x - 3) ** 2 - y
    return total / len(model.environment.agents)


class SlotsModel(core.Model):
    __slots__ = ['x']

    def __init__(self, x=0):
        super().__init__()
        self.x = x
        self.complete()


def model_factory(x=0):
    return ParamModel(x, 1)


class BigParamModel(core.Model):
    def __init__(self, blob=None, x=0):
        super().__init__()
        self.x = x
        self.n = len(blob)
        self.complete()


def score_big(model):
    return model.x * 1.5 - model.n * 0.0


# ---------------------------------------------------------------------------------------------------------------------
# reference implementation
# ---------------------------------------------------------------------------------------------------------------------
def exact(v):
    if isinstance(v, numbers.Integral):
        return fractions.Fraction(int(v))
    if isinstance(v, (fractions.Fraction, decimal.Decimal)):
        return fractions.Fraction(v)
    return fractions.Fraction(float(v))


def ref_aggregate(records, mode):
    """Exact (Fraction) value of the aggregate."""
    xs = [exact(r) for r in records]
    n = len(xs)
    if mode == ScoreMode.MIN:
        return min(xs)
    if mode == ScoreMode.MAX:
        return max(xs)
    if mode in (ScoreMode.MIN_SUM, ScoreMode.MAX_SUM):
        return sum(xs)
    mean = sum(xs) / n
    if mode in (ScoreMode.MIN_MEAN, ScoreMode.MAX_MEAN):
        return mean
    return sum((x - mean) ** 2 for x in xs) / (n - 1)


def aggregate_matches(got, want, records, mode):
    """`got` (package) against the exact `want`: exact, or correctly rounded when floats are involved."""
    try:
        if exact(got) == want:
            return True
    except (TypeError, ValueError, OverflowError):
        return False
    all_int = all(isinstance(r, numbers.Integral) for r in records)
    if all_int and want.denominator == 1:
        return False                      # integral aggregates of integer scores must be exact
    try:
        rounded = float(want)
    except OverflowError:
        return False
    if float(got) == rounded:
        return True
    if any(type(r).__name__ in ('float32', 'float16') for r in records):   # aggregate is computed in float32
        return abs(float(got) - rounded) <= abs(rounded) * 1e-6 + 1e-30
    if mode in (ScoreMode.MIN_SUM, ScoreMode.MAX_SUM):      # float addition: allow the last bit
        return abs(float(got) - rounded) <= 2 * math.ulp(rounded)
    return False


def canon(value):
    """Type-exact, process independent description of an outcome."""
    if isinstance(value, dict):
        return [(k, canon(v)) for k, v in value.items()]
    if isinstance(value, (list, tuple)):
        return (type(value).__name__, [canon(v) for v in value])
    if isinstance(value, np.ndarray):
        return ('ndarray', str(value.dtype), value.tolist())
    return (type(value).__name__, repr(value))


def check_outcome(best, results, grid_combos, reps, mode, expected_records=None):
    """Checks one grid_search outcome against the reference.  grid_combos: list of parameter dicts in product order;
    expected_records(combo) -> list of the individual scores (None: take the reported ones and only type-check)."""
    problems = []
    if len(results) != len(grid_combos):
        return [f'{len(results)} results for {len(grid_combos)} combinations']
    aggregates = []
    for i, (res, combo) in enumerate(zip(results, grid_combos)):
        params = {k: v for k, v in res.items() if k not in ('records', 'score')}
        if list(res.keys()) != list(combo.keys()) + ['records', 'score']:
            problems.append(f'#{i}: keys {list(res.keys())}')
        if canon(params) != canon(combo):
            problems.append(f'#{i}: parameters reported as {params}, given {combo}')
        records = res.get('records')
        if not isinstance(records, list) or len(records) != reps:
            problems.append(f'#{i}: records {records!r} for {reps} repetitions')
            continue
        if expected_records is not None and canon(records) != canon(list(expected_records(combo))):
            problems.append(f'#{i}: records {records!r}, expected {list(expected_records(combo))!r}')
        want = ref_aggregate(records, mode)
        if not aggregate_matches(res.get('score'), want, records, mode):
            problems.append(f'#{i}: mode {mode.name} records {records!r}: score {res.get("score")!r}, exact value '
                            f'{float(want) if abs(want) < 10 ** 300 else want}')
        aggregates.append(res.get('score'))
    if problems:
        return problems
    pick = min if mode % 2 == 0 else max
    target = pick(aggregates)
    index = next(i for i, a in enumerate(aggregates) if a == target)
    if best is not results[index]:
        where = next((i for i, r in enumerate(results) if r is best), None)
        problems.append(f'mode {mode.name}: best is result #{where}, expected #{index} (first of the optimum); '
                        f'aggregates {aggregates}')
    return problems


def product(grid):
    return batching.ParameterList(grid).build()   # independent check of the order is done in exp_grid_and_params


# ---------------------------------------------------------------------------------------------------------------------
# random score tables
# ---------------------------------------------------------------------------------------------------------------------
POOLS = {
    'small ints': lambda r: r.randint(-5, 5),
    'floats': lambda r: r.choice([0.1, 0.2, -0.3, 1e-9, -2.5, 7.25, 0.0, -0.0, 3.0]),
    'large floats': lambda r: r.choice([1e150, -1e150, 3e149, -3e149, 1.0, -1.0, 2.5e150]),
    'huge ints': lambda r: r.choice([10 ** 30, -10 ** 30, 10 ** 30 + 1, -10 ** 30 - 2, 7, 0]),
    'numpy ints': lambda r: r.choice([np.int64(3), np.int8(-100), np.int8(100), np.uint8(200), np.int32(-7),
                                      np.uint64(2 ** 63 + 5)]),
    'numpy floats': lambda r: r.choice([np.float64(0.1), np.float64(-1e10), np.float64(2.5), np.float64(1e-5)]),
    'bools': lambda r: r.choice([True, False]),
    'mixed': lambda r: r.choice([1, -2, 2.5, -0.5, np.int64(4), np.float64(1.25), True, 10 ** 20]),
}


def random_table(rng, pool, n_combos, reps, optimum_at=None, mode=None):
    draw = POOLS[pool]
    table = [tuple(draw(rng) for _ in range(reps)) for _ in range(n_combos)]
    # ties: a permutation of an existing row has the same aggregate in every mode
    if n_combos >= 3 and rng.random() < 0.7:
        i, j = rng.sample(range(n_combos), 2)
        row = list(table[i])
        rng.shuffle(row)
        table[j] = tuple(row)
    return table


# ---------------------------------------------------------------------------------------------------------------------
# helpers
# ---------------------------------------------------------------------------------------------------------------------
RESULTS = []


def report(status, name, message=''):
    RESULTS.append((status, name))
    print(f'[{status:9}] {name}' + (f'\n            {message}' if message else ''), flush=True)


def run_child(name, *args, timeout=120, env_extra=None):
    env = dict(os.environ)
    env['PYTHONPATH'] = HERE + os.pathsep + env.get('PYTHONPATH', '')
    if env_extra:
        env.update(env_extra)
    proc = subprocess.Popen([sys.executable, '-u', os.path.abspath(__file__), '--child', name] + [str(a) for a in args],
                            stdout=subprocess.PIPE, stderr=subprocess.STDOUT, stdin=subprocess.DEVNULL,
                            start_new_session=True, env=env, cwd=HERE)
    hung = False
    try:
        out, _ = proc.communicate(timeout=timeout)
    except subprocess.TimeoutExpired:
        hung = True
        out = b''
    try:
        os.killpg(proc.pid, signal.SIGKILL)
    except (ProcessLookupError, PermissionError):
        pass
    if hung:
        try:
            out, _ = proc.communicate(timeout=5)
        except Exception:
            out = out or b''
    text = (out or b'').decode(errors='replace')
    if 'Timeout (0:' in text:
        hung = True
    return hung, proc.returncode, text


def child_lines(text, prefix):
    return [line[len(prefix):].strip() for line in text.splitlines() if line.startswith(prefix)]


def search(model_cls, grid, score, **kw):
    reset_tracker()
    return batching.grid_search(model_cls, grid, score, **kw)


# ---------------------------------------------------------------------------------------------------------------------
# experiments, serial part
# ---------------------------------------------------------------------------------------------------------------------
def exp_differential_serial():
    """Random tables x every mode x repetitions x score kinds x position of the optimum, one process."""
    rng = random.Random(20260927)
    problems = []
    runs = 0
    for pool in POOLS:
        for reps in (1, 2, 3, 5):
            for mode in MODES:
                if reps < 2 and mode >= ScoreMode.MIN_VARIANCE:
                    continue
                for n_combos in (1, 2, 5, 9):
                    table = random_table(rng, pool, n_combos, reps)
                    grid = {'scores': table, 'T': 1}
                    best, results = search(TableModel, grid, score_value, repetitions=reps, mode=mode)
                    runs += 1
                    combos = [{'scores': row, 'T': 1} for row in table]
                    for p in check_outcome(best, results, combos, reps, mode, lambda c: c['scores']):
                        problems.append(f'[{pool}, reps={reps}, {mode.name}] {p}')
    report('OK' if not problems else 'VIOLATION',
           f'serial differential test against an exact reference: {runs} searches over {len(POOLS)} kinds of scores '
           f'(negative, tied, huge, +-1e150, numpy, bool, mixed) x 8 modes x repetitions 1,2,3,5 x 1..9 combinations',
           '; '.join(problems[:3]))


def exp_optimum_position_and_ties():
    problems = []
    for mode in MODES:
        is_min = mode % 2 == 0
        reps = 2
        for n in (1, 2, 3, 7):
            for pos in sorted({0, n // 2, n - 1}):
                # unique optimum at `pos`; for the variance modes the optimum is the row with the extreme spread
                if mode >= ScoreMode.MIN_VARIANCE:
                    rows = [(0.0, 4.0 + i) for i in range(n)]
                    rows[pos] = (0.0, 1.0) if is_min else (0.0, 50.0)
                else:
                    rows = [(float(i + 1), float(i + 2)) for i in range(n)]
                    rows[pos] = (-100.0, -99.0) if is_min else (100.0, 101.0)
                best, results = search(TableModel, {'scores': rows}, score_value, repetitions=reps, mode=mode)
                if best is not results[pos]:
                    problems.append(f'{mode.name}: optimum at {pos} of {n} not returned')
                # the same optimum several times: the first one wins
                rows2 = rows + [rows[pos]] + rows
                best, results = search(TableModel, {'scores': rows2, 'tag': ['p', 'q']}, score_value,
                                       repetitions=reps, mode=mode)
                if best is not results[2 * pos]:
                    problems.append(f'{mode.name}: tie not resolved to the first optimum')
        # everything tied (also -0.0 / 0.0 / 0 / False which compare equal)
        for rows in ([(1.5, 1.5)] * 4, [(-0.0, -0.0), (0.0, 0.0), (0, 0), (False, False)],
                     [(2, 2), (2.0, 2.0), (np.int64(2), np.int64(2)), (np.float64(2), np.float64(2))]):
            best, results = search(TableModel, {'scores': list(rows), 'tag': [1]}, score_value, repetitions=2, mode=mode)
            if best is not results[0]:
                problems.append(f'{mode.name}: all tied {rows}: first not returned')
        # the sentinel values of the implementation (sys.maxsize) must not matter
        big = sys.maxsize
        rows = [(big + 10, big + 12), (big + 4, big + 6)] if is_min else [(-big - 10, -big - 12), (-big - 4, -big - 6)]
        if mode < ScoreMode.MIN_VARIANCE:
            best, results = search(TableModel, {'scores': rows}, score_value, repetitions=2, mode=mode)
            want = 1
            if best is not results[want]:
                problems.append(f'{mode.name}: scores beyond sys.maxsize: wrong best')
    report('OK' if not problems else 'VIOLATION', 'position of the optimum (first / middle / last), first of several '
           'optima, everything tied (-0.0 == 0.0 == 0 == False, 2 == 2.0 == numpy 2), scores beyond +-sys.maxsize',
           '; '.join(problems[:3]))


def exp_grid_and_params():
    """Product order, unmodified parameters (values, types, key order), odd but legal parameter values."""
    problems = []
    grid = {'x': [0, False, None, '', 0.0, 'ab', (1, 2), np.int64(3)], 'y': (i for i in (5, 6))}
    # ParamModel only stores x and y; the score ignores them here
    best, results = search(ParamModel, grid, score_steps_free, repetitions=2, mode=ScoreMode.MAX_SUM)
    want = [{'x': x, 'y': y} for x in [0, False, None, '', 0.0, 'ab', (1, 2), np.int64(3)] for y in (5, 6)]
    if [canon({k: v for k, v in r.items() if k in ('x', 'y')}) for r in results] != [canon(w) for w in want]:
        problems.append('product order / parameter values / types differ')
    if any(list(r) != ['x', 'y', 'records', 'score'] for r in results):
        problems.append('key order')
    if best is not results[0]:
        problems.append('all scores equal -> first expected')
    # empty dict = one combination without parameters
    best, results = search(ParamModel, {}, score_poly, repetitions=3, mode=ScoreMode.MIN_MEAN)
    if results != [{'records': [4, 4, 4], 'score': 4}] or best is not results[0]:
        problems.append(f'empty dict grid: {results}')
    # ParameterList == dict, reuse of the same ParameterList / dict / score function across calls, inputs untouched
    plist = batching.ParameterList({'x': [1, 2, 3]})
    plist.add_parameter('y', [1, -1])
    as_dict = {'x': [1, 2, 3], 'y': [1, -1]}
    outcomes = [canon(search(ParamModel, g, score_poly, repetitions=2, mode=ScoreMode.MAX)) for g in
                (plist, plist, as_dict, as_dict)]
    if any(o != outcomes[0] for o in outcomes) or as_dict != {'x': [1, 2, 3], 'y': [1, -1]} or \
            plist.build() != product(as_dict):
        problems.append('ParameterList vs dict / reuse across calls')
    # non-monotone score with ties and negative values; huge negative magnitudes
    for mode in MODES:
        for score in (score_poly, score_neg_huge):
            g = {'x': [3, 0, 1, 2, 4], 'y': [0, 2, -1]}
            best, results = search(ParamModel, g, score, repetitions=2, mode=mode)
            combos = product(g)
            problems += [f'{score.__name__}: {p}' for p in check_outcome(
                best, results, combos, 2, mode, lambda c, s=score: [s(ParamModel(**c))] * 2)]
    report('OK' if not problems else 'VIOLATION', 'grid: product order, falsy / None / str / tuple / numpy parameter '
           'values reported unmodified (types, key order), one-shot iterable factor, {} grid, ParameterList vs dict, '
           'reuse across calls, non-monotone and huge negative pure score functions in all modes',
           '; '.join(problems[:3]))


def score_steps_free(model):
    return 1


def exp_modes_and_argument_types():
    problems = []
    rows = [(3, 1), (0, 5), (2, 2), (-1, 9)]
    grid = {'scores': rows}
    for mode in MODES:
        ref = canon(search(TableModel, grid, score_value, repetitions=2, mode=mode))
        for alias in (int(mode), np.int64(int(mode)), float(int(mode))) + ((bool(mode),) if int(mode) < 2 else ()):
            try:
                got = canon(search(TableModel, grid, score_value, repetitions=2, mode=alias))
            except Exception as e:
                got = repr(e)
            if got != ref:
                problems.append(f'mode given as {alias!r}: {str(got)[:80]}')
    for bad in (8, -1, 'MIN'):
        try:
            search(TableModel, grid, score_value, repetitions=2, mode=bad)
            problems.append(f'invalid mode {bad!r} accepted')
        except (ValueError, TypeError):
            pass
    ref = canon(search(TableModel, grid, score_value, repetitions=2, mode=ScoreMode.MIN_MEAN))
    for reps in (np.int64(2), np.int8(2)):
        if canon(search(TableModel, grid, score_value, repetitions=reps, mode=ScoreMode.MIN_MEAN)) != ref:
            problems.append(f'repetitions={reps!r}')
    if canon(search(TableModel, grid, score_value, repetitions=True, mode=ScoreMode.MIN)) != \
            canon(search(TableModel, grid, score_value, repetitions=1, mode=ScoreMode.MIN)):
        problems.append('repetitions=True')
    for procs in (True, 1.0, np.int64(1)):
        if canon(search(TableModel, grid, score_value, repetitions=2, mode=ScoreMode.MIN_MEAN, processes=procs)) != ref:
            problems.append(f'processes={procs!r}')
    report('OK' if not problems else 'VIOLATION', 'modes given as ScoreMode / int / numpy int / float / bool, invalid '
           'modes rejected, repetitions as numpy ints / True, processes as True / 1.0 / numpy.int64(1)',
           '; '.join(problems[:3]))


def exp_models_and_limits():
    problems = []
    # every repetition really runs: number of executed steps seen by a collector, step limit below/at/above completion
    for limit, want in ((0, 0), (1, 1), (2, 2), (3, 3), (4, 4), (5, 4), (10 ** 6, 4)):
        best, results = search(TableModel, {'scores': [(0,), (1,)], 'T': [3, 1]}, score_steps, repetitions=3,
                               max_timesteps=limit, mode=ScoreMode.MAX_SUM)
        got = [r['records'] for r in results]
        exp = [[min(limit, T + 1)] * 3 for _ in (0, 1) for T in (3, 1)]
        if got != exp:
            problems.append(f'max_timesteps={limit}: step counts {got}, expected {exp}')
    # model completed in its constructor, model with __slots__, a factory function instead of a class
    for cls, grid, score, want in ((CompletedInInit, {'x': [3, 1, 2]}, score_x, 1),
                                   (SlotsModel, {'x': [3, 1, 2]}, score_x, 1),
                                   (model_factory, {'x': [3, 1, 2]}, score_x, 1)):
        best, results = search(cls, grid, score, repetitions=2, mode=ScoreMode.MIN_SUM)
        if best is not results[want] or [r['score'] for r in results] != [6, 2, 4]:
            problems.append(f'{getattr(cls, "__name__", cls)}')
    # a grid search issued from inside a running timestep of a model that is itself being searched
    best, results = search(NestedModel, {'x': [1, 2]}, score_inner, repetitions=1, mode=ScoreMode.MAX)
    if [r['records'] for r in results] != [[2], [1]] or best is not results[0]:
        problems.append(f'nested search: {results}')
    report('OK' if not problems else 'VIOLATION', 'every repetition runs (step counts via a collector) for step limits '
           'below / at / above completion; completed-in-constructor, __slots__ model, factory function, nested search',
           '; '.join(problems[:3]))


class NestedSystem(core.System):
    def execute(self):
        # x=1 -> inner MIN picks index 2 (score -1*..), x=2 -> inner MAX ...
        mode = ScoreMode.MIN if self.model.x == 1 else ScoreMode.MAX
        best, results = batching.grid_search(ParamModel, {'x': [5, 2, 0], 'y': [0]}, score_poly, mode=mode)
        self.model.inner = next(i for i, r in enumerate(results) if r is best)
        self.model.complete()


class NestedModel(core.Model):
    def __init__(self, x=0):
        super().__init__()
        self.x = x
        self.systems.add_system(NestedSystem('n', self))


def score_inner(model):
    return model.inner + 1 if model.x == 1 else model.inner + 1


def exp_score_types():
    """Aggregates for less common numeric types (Fraction, Decimal, small numpy ints that would wrap, float32)."""
    problems, notes = [], []
    F, D = fractions.Fraction, decimal.Decimal
    tables = {
        'Fraction': [(F(1, 3), F(1, 6)), (F(1, 4), F(1, 4)), (F(-1, 3), F(5, 6))],
        'Decimal': [(D('0.1'), D('0.2')), (D('0.15'), D('0.15')), (D('-0.3'), D('0.7'))],
        'int8 (sum would wrap)': [(np.int8(100), np.int8(100)), (np.int8(-100), np.int8(-100)), (np.int8(1), np.int8(2))],
        'uint64 > 2**63': [(np.uint64(2 ** 64 - 1), np.uint64(2 ** 64 - 1)), (np.uint64(1), np.uint64(2 ** 63))],
        'float32': [(np.float32(0.1), np.float32(0.2)), (np.float32(1.5), np.float32(-2.5))],
        'ints 10**400': [(10 ** 400, 10 ** 400 + 2), (-10 ** 400, -10 ** 400 + 4), (5, 7)],
    }
    for name, table in tables.items():
        for mode in MODES:
            try:
                best, results = search(TableModel, {'scores': table}, score_value, repetitions=2, mode=mode)
            except Exception as e:
                problems.append(f'{name} {mode.name}: {type(e).__name__}: {e}')
                continue
            combos = [{'scores': row} for row in table]
            problems += [f'{name}: {p}' for p in check_outcome(best, results, combos, 2, mode, lambda c: c['scores'])]
    report('OK' if not problems else 'VIOLATION', 'score types: Fraction, Decimal, numpy int8 / uint64 (no wrap-around), '
           'float32, Python ints around 10**400 with integral aggregates - all modes', '; '.join(problems[:3]))
    # outside the scope / unspecified, only recorded
    for name, table, mode in (('numpy.bool_', [(np.True_, np.False_), (np.True_, np.True_)], ScoreMode.MIN_MEAN),
                              ('0-d numpy array', [(np.array(1.5), np.array(2.5))] * 2, ScoreMode.MIN_VARIANCE)):
        try:
            search(TableModel, {'scores': table}, score_value, repetitions=2, mode=mode)
        except TypeError as e:
            notes.append(f'{name} scores with {mode.name}: TypeError ({e})')
    try:
        search(TableModel, {'scores': [(1e200, -1e200), (1.0, 2.0)]}, score_value, repetitions=2,
               mode=ScoreMode.MIN_VARIANCE)
    except OverflowError as e:
        notes.append(f'variance of (1e200, -1e200) is 2e400: OverflowError ({e}) - same family as the known float '
                     f'overflow of sum / mean')
    best, results = search(TableModel, {'scores': [(2 ** 60 + 100, 2 ** 60 + 100), (2 ** 60 + 100, 2 ** 60 + 101)]},
                           score_value, repetitions=2, mode=ScoreMode.MIN_MEAN)
    if best is results[1]:
        notes.append(f'means of integer scores above 2**53: an integral mean stays an exact int ({results[0]["score"]}) '
                     f'but a fractional one is rounded to float ({results[1]["score"]!r}, exact value 2**60+100.5), so '
                     f'MIN_MEAN prefers the truly larger combination - consistent with the reported aggregates, float '
                     f'precision only')
    if notes:
        report('NOTE', 'numeric corner cases outside the stated scope / unspecified (not counted)', '\n            '.join(notes))


# ---------------------------------------------------------------------------------------------------------------------
# child side (real multiprocessing)
# ---------------------------------------------------------------------------------------------------------------------
def parallel_cases():
    rng = random.Random(7)
    cases = []
    for pool in POOLS:
        for reps, n_combos in ((2, 7), (3, 12)):
            for mode in MODES:
                cases.append(('table', pool, reps, mode, random_table(rng, pool, n_combos, reps)))
    for mode in MODES:
        cases.append(('pure', 'poly', 2, mode, None))
    return cases


def run_case(case, processes):
    kind, pool, reps, mode, table = case
    if kind == 'table':
        grid = {'scores': table, 'tag': ['a', 'b']}
        return search(TableModel, grid, score_value, repetitions=reps, mode=mode, processes=processes), grid
    grid = {'x': [3, 0, 1, 2, 4, 1], 'y': [0, 2, -1, 2]}
    return search(ParamModel, grid, score_poly, repetitions=reps, mode=mode, processes=processes), grid


def child_main(name, args):
    if name == 'parallel_identical':
        faulthandler.dump_traceback_later(400, exit=True)
        counts = sorted({2, 3, max(2, NCPU // 2), NCPU}) + [None]
        bad = []
        n = 0
        for case in parallel_cases():
            (best, results), grid = run_case(case, 1)
            ref = canon((best, results))
            ref_index = next(i for i, r in enumerate(results) if r is best)
            combos = product(grid)
            if case[0] == 'table':
                bad += check_outcome(best, results, combos, case[2], case[3], lambda c: c['scores'])
            for procs in counts:
                (b2, r2), _ = run_case(case, procs)
                n += 1
                index = next((i for i, r in enumerate(r2) if r is b2), None)
                if canon((b2, r2)) != ref or index != ref_index:
                    bad.append(f'{case[1]} reps={case[2]} {case[3].name} processes={procs}: outcome differs from '
                               f'processes=1 (best #{index} vs #{ref_index})')
        print('RESULT', 'OK' if not bad else 'BAD ' + '; '.join(bad[:4]), '|', n, 'parallel searches')

    elif name == 'start_method':
        import multiprocessing as mp
        mp.set_start_method(args[0])
        faulthandler.dump_traceback_later(200, exit=True)
        bad = []
        for case in parallel_cases()[::9]:
            (best, results), grid = run_case(case, 1)
            (b2, r2), _ = run_case(case, 3)
            if canon((best, results)) != canon((b2, r2)):
                bad.append(f'{case[1]} {case[3].name}')
        print('RESULT', 'OK' if not bad else 'BAD ' + '; '.join(bad[:4]))

    elif name == 'stress_success_path':
        # many short parallel searches: does leaving the `with Pool` block ever dead-lock when nothing fails?
        n, procs = int(args[0]), int(args[1])
        faulthandler.dump_traceback_later(int(args[2]), exit=True)
        grid = {'x': list(range(40)), 'y': [1, 2]}
        ref = canon(search(ParamModel, grid, score_poly, repetitions=2, mode=ScoreMode.MIN_SUM))
        bad = 0
        for _ in range(n):
            if canon(search(ParamModel, grid, score_poly, repetitions=2, mode=ScoreMode.MIN_SUM, processes=procs)) != ref:
                bad += 1
        print('RESULT', 'OK' if not bad else f'BAD {bad} differing outcomes', '|', n, 'searches')

    elif name == 'big_parameters':
        faulthandler.dump_traceback_later(200, exit=True)
        blob = np.zeros(4_000_000, dtype=np.uint8)          # 4 MB travelling to the worker and back with every result
        grid = {'blob': [blob], 'x': list(range(24))}
        ref = search(BigParamModel, grid, score_big, repetitions=2, mode=ScoreMode.MAX_MEAN)
        got = search(BigParamModel, grid, score_big, repetitions=2, mode=ScoreMode.MAX_MEAN, processes=NCPU)
        same = [r['score'] for r in ref[1]] == [r['score'] for r in got[1]] and \
            all(np.array_equal(r['blob'], blob) for r in got[1]) and got[0] is got[1][23] and ref[0] is ref[1][23]
        print('RESULT', 'OK' if same else 'BAD')

    elif name == 'mutable_param':
        for procs in (1, 2):
            initial = [0, 0, 0, 0]
            best, results = search(StateModel, {'initial': [initial], 'rate': [1, 2, 3]}, score_state, repetitions=2,
                                   mode=ScoreMode.MIN_MEAN, processes=procs)
            print('MUT', procs, '|', [r['records'] for r in results], '|', [r['score'] for r in results], '|',
                  [r['initial'] for r in results], '|', initial, '|',
                  next(i for i, r in enumerate(results) if r is best))
        # MAX mode: the best combination itself depends on the process count
        for procs in (1, 2):
            best, results = search(StateModel, {'initial': [[0, 0]], 'rate': [3, 2, 1]}, score_state, repetitions=1,
                                   mode=ScoreMode.MAX, processes=procs)
            print('MUTBEST', procs, '|', best['rate'], '|', [r['score'] for r in results])

    elif name == 'stochastic':
        import multiprocessing as mp
        if args[0] != 'fork':
            mp.set_start_method(args[0])
        faulthandler.dump_traceback_later(200, exit=True)
        grid = {'seed': [11, 5, 7, 5], 'n': [1, 4], 'agent_cls': [Walker, Runner]}
        bad = []
        for mode in (ScoreMode.MIN_MEAN, ScoreMode.MAX_VARIANCE, ScoreMode.MAX):
            ref = search(WalkModel, grid, score_walk, repetitions=3, mode=mode)
            # identical seeds -> identical repetitions and identical duplicate combinations
            if any(len(set(r['records'])) != 1 for r in ref[1]) or len({r['records'][0] for r in ref[1]}) < 4:
                bad.append('the model is not a deterministic function of its seed / is degenerate')
            for procs in (2, NCPU):
                got = search(WalkModel, grid, score_walk, repetitions=3, mode=mode, processes=procs)
                if canon(got) != canon(ref) or [i for i, r in enumerate(got[1]) if r is got[0]] != \
                        [i for i, r in enumerate(ref[1]) if r is ref[0]]:
                    bad.append(f'{mode.name} processes={procs} differs')
        print('RESULT', 'OK' if not bad else 'BAD ' + '; '.join(bad[:4]))

    elif name == 'hashseed':
        grid = {'x': [3, 0, 1, 2], 'y': [0, 2, -1]}
        out = search(ParamModel, grid, score_poly, repetitions=2, mode=ScoreMode.MIN_VARIANCE, processes=2)
        print('RESULT', canon(out))
    else:
        raise SystemExit(f'unknown child {name}')


# ---------------------------------------------------------------------------------------------------------------------
# experiments, parallel part (parent side)
# ---------------------------------------------------------------------------------------------------------------------
def exp_parallel_identical():
    hung, rc, out = run_child('parallel_identical', timeout=460)
    res = child_lines(out, 'RESULT')
    if hung or not res:
        report('VIOLATION', 'parallel: outcome identical for every process count', f'hung={hung} rc={rc} {out[-400:]}')
    else:
        report('OK' if res[0].startswith('OK') else 'VIOLATION',
               f'parallel: best (by position) and the complete result list identical (values, types, key order) for '
               f'processes 1 vs {{2,3,{max(2, NCPU // 2)},{NCPU},None}}: all kinds of scores x 8 modes '
               f'({res[0].split("|")[-1].strip()})', '' if res[0].startswith('OK') else res[0])


def exp_start_methods():
    problems = []
    for method in ('spawn', 'forkserver'):
        hung, rc, out = run_child('start_method', method, timeout=240)
        res = child_lines(out, 'RESULT')
        if hung or res != ['OK']:
            problems.append(f'{method}: hung={hung} {res or out[-300:]}')
    report('OK' if not problems else 'VIOLATION', 'parallel: spawn and forkserver start methods give the serial outcome',
           '; '.join(problems))


def exp_stress_success_path():
    hung, rc, out = run_child('stress_success_path', 120, NCPU, 150, timeout=170)
    res = child_lines(out, 'RESULT')
    if hung:
        report('VIOLATION', 'parallel: a search in which nothing fails never returned', out[-600:])
    else:
        report('OK' if res and res[0].startswith('OK') else 'VIOLATION',
               f'parallel: 120 consecutive searches with {NCPU} processes - none hung, all identical to the serial '
               f'outcome', '' if res and res[0].startswith('OK') else (res or [out[-300:]])[0])
    hung, rc, out = run_child('big_parameters', timeout=230)
    res = child_lines(out, 'RESULT')
    report('OK' if res == ['OK'] and not hung else 'VIOLATION', 'parallel: 4 MB parameter value travelling to the workers '
           f'and back with every result ({NCPU} processes): no hang, same outcome', '' if res == ['OK'] else out[-300:])


def exp_mutable_param():
    hung, rc, out = run_child('mutable_param', timeout=60)
    lines = [l.split('|') for l in child_lines(out, 'MUT ')]
    bests = [l.split('|') for l in child_lines(out, 'MUTBEST')]
    if hung or len(lines) != 2 or len(bests) != 2:
        report('VIOLATION', 'mutable parameter value', f'hung={hung} {out[-400:]}')
        return
    serial, pool = lines
    differs = [s.strip() for s in serial[1:]] != [p.strip() for p in pool[1:]]
    modified = serial[3].strip() != '[[0, 0, 0, 0], [0, 0, 0, 0], [0, 0, 0, 0]]' or \
        pool[3].strip() != '[[0, 0, 0, 0], [0, 0, 0, 0], [0, 0, 0, 0]]'
    if differs or modified:
        report('VIOLATION', 'a parameter value object is shared by all repetitions and combinations (processes=1) / is '
               'sent back as the model left it (processes>1): scores depend on the process count and the reported '
               'parameters are modified',
               "repro: grid_search(StateModel, {'initial': [[0, 0, 0, 0]], 'rate': [1, 2, 3]}, score_state, "
               "repetitions=2, mode=ScoreMode.MIN_MEAN, processes=p)   # the model updates `initial` in place, "
               "score = sum(state)\n"
               f"            processes=1: records {serial[1].strip()} scores {serial[2].strip()} reported 'initial' "
               f"{serial[3].strip()} caller's list afterwards {serial[4].strip()} best #{serial[5].strip()}\n"
               f"            processes=2: records {pool[1].strip()} scores {pool[2].strip()} reported 'initial' "
               f"{pool[3].strip()} caller's list afterwards {pool[4].strip()} best #{pool[5].strip()}\n"
               f"            expected    : records [[12, 12], [24, 24], [36, 36]], 'initial' reported as [0, 0, 0, 0]\n"
               f"            and the best itself changes:  grid_search(StateModel, {{'initial': [[0, 0]], 'rate': "
               f"[3, 2, 1]}}, score_state, mode=ScoreMode.MAX, processes=p) -> best rate {bests[0][1].strip()} "
               f"(scores {bests[0][2].strip()}) with 1 process, best rate {bests[1][1].strip()} (scores "
               f"{bests[1][2].strip()}) with 2")
    else:
        report('OK', 'mutable parameter value: identical outcome and unmodified parameters')


def exp_stochastic_world():
    problems = []
    for method in ('fork', 'spawn'):
        hung, rc, out = run_child('stochastic', method, timeout=240)
        res = child_lines(out, 'RESULT')
        if hung or res != ['OK']:
            problems.append(f'{method}: hung={hung} {res or out[-400:]}')
    report('OK' if not problems else 'VIOLATION', 'seeded stochastic GridWorld model (model.random, shuffle, '
           'get_random_agent, move / move_to, Agent classes as parameter values): same outcome with 1, 2 and '
           f'{NCPU} processes, fork and spawn (workers with other hash seeds)', '; '.join(problems))


def exp_hashseed():
    outs = set()
    for seed in ('0', '1', '2'):
        hung, rc, out = run_child('hashseed', timeout=60, env_extra={'PYTHONHASHSEED': seed})
        outs.add(tuple(child_lines(out, 'RESULT')))
    report('OK' if len(outs) == 1 and outs != {()} else 'VIOLATION', 'hash-seed independence (PYTHONHASHSEED 0..2)',
           '' if len(outs) == 1 else str(outs)[:300])


def exp_not_counted():
    class MyList(batching.ParameterList):
        pass
    try:
        search(ParamModel, MyList({'x': [1, 2]}), score_x)
    except TypeError as e:
        report('NOTE', 'grid_search rejects an instance of a ParameterList subclass',
               f'TypeError: {e} (Batching.py:476 uses type(parameters) == ParameterList). Loud, not counted.')
    plist = batching.ParameterList()
    plist.add_parameter('x', (i for i in range(3)))
    first = len(search(ParamModel, plist, score_x)[1])
    try:
        second = len(search(ParamModel, plist, score_x)[1])
    except IndexError as e:
        second = f'IndexError: {e}'
    if first == 3 and second != 3:
        report('NOTE', 'a ParameterList holding a one-shot iterable is empty the second time it is used',
               f'first search: {first} combinations, second: {second} (empty grid -> results[-1]); empty grids are '
               f'outside the scope, not counted.')
    try:
        search(ParamModel, {'x': [1, 2]}, lambda m: m.x, processes=2)
        report('OK', 'lambda score function with processes=2')
    except Exception as e:
        report('NOTE', 'a lambda / local score function cannot be used with processes > 1',
               f'{type(e).__name__}: {str(e)[:100]} - loud limitation of pickling the partial, not counted.')


EXPERIMENTS = [
    exp_differential_serial,
    exp_optimum_position_and_ties,
    exp_grid_and_params,
    exp_modes_and_argument_types,
    exp_models_and_limits,
    exp_score_types,
    exp_parallel_identical,
    exp_start_methods,
    exp_stress_success_path,
    exp_stochastic_world,
    exp_mutable_param,
    exp_hashseed,
    exp_not_counted,
]


def main():
    import ECAgent
    print('ECAgent under test:', os.path.dirname(ECAgent.__file__), '| cores:', NCPU, '| python', sys.version.split()[0])
    for exp in EXPERIMENTS:
        try:
            exp()
        except Exception as e:
            import traceback
            traceback.print_exc()
            report('VIOLATION', exp.__name__, f'experiment crashed: {type(e).__name__}: {e}')
    n_viol = sum(1 for status, _ in RESULTS if status == 'VIOLATION')
    n_note = sum(1 for status, _ in RESULTS if status == 'NOTE')
    print(f'\n{n_viol} genuine violation(s), {n_note} note(s) outside the stated scope, '
          f'{sum(1 for s, _ in RESULTS if s == "OK")} angle(s) OK')
    return 1 if n_viol else 0


if __name__ == '__main__':
    if len(sys.argv) > 2 and sys.argv[1] == '--child':
        child_main(sys.argv[2], sys.argv[3:])
    else:
        sys.exit(main())
