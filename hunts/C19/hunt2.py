"""Second-pass bug hunt for property C19: "Tag libraries keep a stable name<->id bijection and cannot be corrupted".

Run with:  cd /tmp/wt-C19-i && PYTHONPATH=/tmp/wt-C19-i /venv/bin/python hunt.py
Exit status 1 iff at least one genuine in-scope violation was found, else 0.  Public API only (ECAgent.Tags).
Histories on the module-level (global) library run in a fresh interpreter each (hunt.py --child-global SEED).
"""
import builtins
import keyword
import os
import random
import subprocess
import sys
import types

import ECAgent.Tags as Tags

VIOLATIONS = []


def report(name, problem=None):
    if problem is None:
        print(f"[OK]        {name}")
    else:
        print(f"[VIOLATION] {name}: {problem}")
        VIOLATIONS.append(name)


def note(name, text):
    print(f"[NOTE]      {name}: {text}")


# ---------------------------------------------------------------------------------------------------------------------
# Name pools
# ---------------------------------------------------------------------------------------------------------------------
ORDINARY = ['PREY', 'PREDATOR', 'Sheep', 'wolf', 'tag1', 'TAG_2', 'a', 'B', 'x' * 300, 'None', 'none', 'NONE_', 'nONE']
LIB_NAMES = ['NONE', '_tag_counter', '_tag_names', 'add_tag', 'get_tag_name', 'itemize', '__len__', '__init__',
             '__dict__', '__class__', '__module__', '__doc__', '__weakref__']
MODULE_NAMES = ['TagLibrary', 'DuplicateTagError', 'TagNotFoundError', '_module_library', '_ModuleType', '__getattr__',
                '__name__', '__file__', '__spec__', '__loader__', '__package__', '__builtins__', '__cached__',
                '__annotations__', '__dir__', '__path__', '__all__', '__wrapped__', '__warningregistry__',
                '__qualname__', '__version__', '__test__', '__signature__']
ALL_DUNDERS = sorted({n for o in (object, type, int, str, list, dict, types.ModuleType, types.FunctionType, property,
                                  BaseException, float, set, bytes, range, classmethod, memoryview)
                      for n in dir(o) if n.startswith('__')}
                     | {'__getattr__', '__getattribute__', '__setattr__', '__delattr__', '__bool__', '__iter__',
                        '__next__', '__contains__', '__getitem__', '__setitem__', '__call__', '__copy__',
                        '__deepcopy__', '__getstate__', '__setstate__', '__getnewargs__', '__getnewargs_ex__',
                        '__reduce__', '__reduce_ex__', '__slots__', '__set_name__', '__get__', '__set__',
                        '__index__', '__int__', '__hash__', '__eq__', '__repr__', '__str__', '__enter__', '__exit__',
                        '__missing__', '__mro_entries__', '__class_getitem__', '__instancecheck__', '__fspath__',
                        '__length_hint__', '__isabstractmethod__', '__objclass__', '__main__', '__debug__'})
ARBITRARY = ['', ' ', 'a b', 'a.b', '1', '0', '-1', 'é', 'ﬁ', 'fi', '中文', '\U0001F600', 'a\x00b', '\x00', '\n',
             'a\r\nb', '\ud800', 'NONE\x00', 'NONE ', ' NONE', "'", '"', '\\', '{}', '%s', '__', '_', '___',
             'tag_name', 'self', 'cls', 'tag_id', 'message', 'args', 'lambda', 'class', 'import', 'None', 'True',
             'mro', '__mro__', '__bases__', '__subclasses__', '__name__', 'print', 'len', 'id', 'type', 'hash']
POOL = (ORDINARY * 3 + LIB_NAMES + MODULE_NAMES + ALL_DUNDERS + ARBITRARY + keyword.kwlist[:10]
        + [n for n in dir(builtins)][:40])


class S(str):
    """An ordinary str subclass (no overridden hashing / equality)."""


# ---------------------------------------------------------------------------------------------------------------------
# Full invariant check of one library against a reference list of names
# ---------------------------------------------------------------------------------------------------------------------
def check_library(lookup, get_tag_name, itemize, length, names, unknown_exc, probe_unknown):
    """names: reference list, names[i] is the tag with id i (names[0] == 'NONE')."""
    if length is not None and length() != len(names):
        return f"len == {length()} but {len(names)} tags exist"
    items = itemize()
    if items != [(n, i) for i, n in enumerate(names)]:
        return f"itemize() == {items!r}, expected {[(n, i) for i, n in enumerate(names)]!r}"
    for i, n in enumerate(names):
        try:
            got = lookup(n)
        except Exception as e:
            return f"lookup by name {n!r} raised {type(e).__name__}: {e}"
        if type(got) is not int or got != i:
            return f"lookup by name {n!r} gave {got!r}, expected id {i}"
        try:
            back = get_tag_name(i)
        except Exception as e:
            return f"get_tag_name({i}) raised {type(e).__name__}: {e}"
        if back != n or type(back) is not type(n):
            return f"get_tag_name({i}) == {back!r}, expected {n!r}"
    if lookup('NONE') != 0:
        return "NONE is not 0"
    for bad in (-1, -2, len(names), len(names) + 1, 10 ** 30, -10 ** 30, sys.maxsize, -sys.maxsize - 1):
        try:
            r = get_tag_name(bad)
            return f"get_tag_name({bad}) returned {r!r} instead of raising TagNotFoundError"
        except Tags.TagNotFoundError as e:
            if e.tag_id != bad:
                return f"TagNotFoundError.tag_id == {e.tag_id!r} for id {bad}"
        except Exception as e:
            return f"get_tag_name({bad}) raised {type(e).__name__} instead of TagNotFoundError"
    for u in probe_unknown:
        if u in names:
            continue
        try:
            r = lookup(u)
            return f"lookup of unknown name {u!r} returned {r!r}"
        except unknown_exc:
            pass
        except Exception as e:
            return f"lookup of unknown name {u!r} raised {type(e).__name__}, expected {unknown_exc.__name__}"
    return None


UNKNOWN_PROBES = ['NOPE', 'nope', '', 'é', 'PREY2', '__nope__', 'x y']


# ---------------------------------------------------------------------------------------------------------------------
# 1. Random histories on fresh local libraries (several alive at once)
# ---------------------------------------------------------------------------------------------------------------------
def local_history(seed):
    rng = random.Random(seed)
    libs = [Tags.TagLibrary() for _ in range(rng.choice([1, 2, 3]))]
    refs = [['NONE'] for _ in libs]
    for step in range(rng.randrange(5, 60)):
        k = rng.randrange(len(libs))
        lib, ref = libs[k], refs[k]
        name = rng.choice(POOL)
        if rng.random() < 0.15:
            name = S(name)
        before = (dict(lib.__dict__), list(lib._tag_names)) if False else None  # (private state is not inspected)
        try:
            lib.add_tag(name)
            accepted = True
        except Tags.DuplicateTagError as e:
            accepted = False
            if e.tag_name != name:
                return f"seed {seed}: DuplicateTagError.tag_name {e.tag_name!r} != {name!r}"
        except Exception as e:
            return f"seed {seed}: add_tag({name!r}) raised {type(e).__name__}: {e}"
        if accepted:
            if name in ref:
                return f"seed {seed}: duplicate name {name!r} accepted (history {ref!r})"
            ref.append(name)
        # a rejected name changes nothing / every library still matches its own reference (no cross influence)
        for j, (l2, r2) in enumerate(zip(libs, refs)):
            problem = check_library(lambda n, l2=l2: getattr(l2, n), l2.get_tag_name, l2.itemize, lambda l2=l2: len(l2),
                                    r2, AttributeError, UNKNOWN_PROBES)
            if problem:
                return (f"seed {seed}: after add_tag({name!r}) on library {k} "
                        f"({'accepted' if accepted else 'rejected'}), library {j}: {problem}")
            # the library's own operations are still its methods
            if not (callable(l2.add_tag) and callable(l2.get_tag_name) and callable(l2.itemize)):
                return f"seed {seed}: a method of library {j} was shadowed after add_tag({name!r})"
            if type(l2) is not Tags.TagLibrary or not isinstance(l2.__dict__, dict):
                return f"seed {seed}: library {j} lost its class / __dict__"
    # ordinary names must always be accepted when new
    lib = Tags.TagLibrary()
    for i, n in enumerate(ORDINARY, start=1):
        lib.add_tag(n)
        if getattr(lib, n) != i:
            return f"ordinary name {n!r} got id {getattr(lib, n)} instead of {i}"
    return None


def run_local_histories():
    for seed in range(600):
        problem = local_history(seed)
        if problem:
            report("random histories on local libraries", problem)
            return
    report("random histories on 1-3 simultaneous local libraries (600 seeds; identifiers, duplicates, NONE, own "
           "attribute/method names, ~200 dunder names, arbitrary strings incl. '', NUL, lone surrogate, str subclass)")


# ---------------------------------------------------------------------------------------------------------------------
# 2. Every single pool name on its own fresh library, plus every dunder: deterministic sweep
# ---------------------------------------------------------------------------------------------------------------------
def sweep_local():
    accepted_reserved = []
    for name in dict.fromkeys(POOL):
        lib = Tags.TagLibrary()
        lib.add_tag('FIRST')
        ref = ['NONE', 'FIRST']
        try:
            lib.add_tag(name)
            ref.append(name)
        except Tags.DuplicateTagError:
            pass
        except Exception as e:
            return f"add_tag({name!r}) raised {type(e).__name__}: {e}"
        try:
            lib.add_tag('LAST')
            ref.append('LAST')
        except Exception as e:
            return f"after add_tag({name!r}): add_tag('LAST') raised {type(e).__name__}: {e}"
        problem = check_library(lambda n: getattr(lib, n), lib.get_tag_name, lib.itemize, lambda: len(lib), ref,
                                AttributeError, UNKNOWN_PROBES)
        if problem:
            return f"name {name!r}: {problem}"
        # implicit protocol operations on the library keep working whatever the name was
        try:
            if len(lib) != len(ref) or bool(lib) is not True or repr(lib) == '' or hash(lib) is None:
                return f"name {name!r}: len/bool/repr/hash misbehave"
            lib == lib
            str(lib)
            dir(lib)
            vars(lib)
        except Exception as e:
            return f"name {name!r}: basic operation raised {type(e).__name__}: {e}"
        if name in ref and name.startswith('__') and name.endswith('__'):
            accepted_reserved.append(name)
    return None


# ---------------------------------------------------------------------------------------------------------------------
# 3. Subclass of TagLibrary with extra attributes / methods: they are protected as well
# ---------------------------------------------------------------------------------------------------------------------
def exp_subclass():
    class MyLib(Tags.TagLibrary):
        colour = 'red'

        def __init__(self):
            super().__init__()
            self.extra = 42

        def names(self):
            return [n for n, _ in self.itemize()]

        @property
        def size(self):
            return len(self)

    lib = MyLib()
    for reserved in ('colour', 'extra', 'names', 'size', 'add_tag', 'NONE'):
        try:
            lib.add_tag(reserved)
            return f"subclass attribute {reserved!r} accepted as a tag"
        except Tags.DuplicateTagError:
            pass
    lib.add_tag('OK')
    if lib.OK != 1 or lib.names() != ['NONE', 'OK'] or lib.size != 2 or lib.extra != 42 or lib.colour != 'red':
        return "subclass state disturbed"
    return None


# ---------------------------------------------------------------------------------------------------------------------
# 4. ids: bool / numpy / huge ints, boundaries
# ---------------------------------------------------------------------------------------------------------------------
def exp_ids():
    lib = Tags.TagLibrary()
    lib.add_tag('A')
    lib.add_tag('B')
    if lib.get_tag_name(True) != 'A' or lib.get_tag_name(False) != 'NONE':
        return "bool ids"
    try:
        import numpy
        for typ in (numpy.int8, numpy.int64, numpy.uint8, numpy.uint64):
            if lib.get_tag_name(typ(2)) != 'B':
                return f"{typ.__name__}(2)"
            try:
                lib.get_tag_name(typ(3))
                return f"{typ.__name__}(3) did not raise"
            except Tags.TagNotFoundError:
                pass
        try:
            lib.get_tag_name(numpy.int64(-1))
            return "numpy.int64(-1) did not raise"
        except Tags.TagNotFoundError:
            pass
    except ImportError:  # pragma: no cover
        pass
    return None


# ---------------------------------------------------------------------------------------------------------------------
# 5. Global library: a child process per history (fresh interpreter), local libraries alive next to it
# ---------------------------------------------------------------------------------------------------------------------
def child_global(seed):
    rng = random.Random(seed)
    import ECAgent.Core as Core          # the package itself relies on Tags.NONE; keep it loaded
    ref = ['NONE']
    local = Tags.TagLibrary()
    local_ref = ['NONE']
    module_funcs = {n: getattr(Tags, n) for n in ('add_tag', 'get_tag_name', 'itemize', 'TagLibrary',
                                                  'DuplicateTagError', 'TagNotFoundError')}
    pool = POOL if seed % 3 else MODULE_NAMES + LIB_NAMES + ALL_DUNDERS + ORDINARY
    for step in range(rng.randrange(5, 80)):
        name = rng.choice(pool)
        target_global = rng.random() < 0.7
        try:
            (Tags.add_tag if target_global else local.add_tag)(name)
            (ref if target_global else local_ref).append(name)
            if (ref if target_global else local_ref).count(name) > 1:
                return f"duplicate {name!r} accepted"
        except Tags.DuplicateTagError:
            pass
        except Exception as e:
            return f"add_tag({name!r}) raised {type(e).__name__}: {e}"
        problem = check_library(lambda n: getattr(Tags, n), Tags.get_tag_name, Tags.itemize, None, ref,
                                Tags.TagNotFoundError, UNKNOWN_PROBES + ['_tag_counter', '_tag_names', '_nope'])
        if problem:
            return f"global library after add_tag({name!r}) ({'global' if target_global else 'local'}): {problem}"
        problem = check_library(lambda n: getattr(local, n), local.get_tag_name, local.itemize, lambda: len(local),
                                local_ref, AttributeError, UNKNOWN_PROBES)
        if problem:
            return f"local library after add_tag({name!r}) ({'global' if target_global else 'local'}): {problem}"
        for n, f in module_funcs.items():
            if getattr(Tags, n) is not f:
                return f"module attribute {n} changed after add_tag({name!r})"
        if Tags.__name__ != 'ECAgent.Tags' or not isinstance(Tags.__dict__, dict) or type(Tags) is not types.ModuleType:
            return f"module identity disturbed after add_tag({name!r})"
    # the rest of the package still works with the global library in this state
    Tags.NONE
    m = Core.Model()
    a = Core.Agent('a', m)
    if a.tag != 0:
        return "default tag is not NONE"
    if len(ref) > 1:
        b = Core.Agent('b', m, tag=getattr(Tags, ref[-1]))
        m.environment.add_agent(a)
        m.environment.add_agent(b)
        if m.environment.get_agents(tag=getattr(Tags, ref[-1])) != [b]:
            return "get_agents(tag=...) broken"
    return None


def run_global_histories():
    env = dict(os.environ, PYTHONPATH=os.pathsep.join(sys.path))
    procs = []
    for seed in range(24):
        procs.append((seed, subprocess.Popen([sys.executable, os.path.abspath(__file__), '--child-global', str(seed)],
                                             env=env, stdout=subprocess.PIPE, stderr=subprocess.PIPE, text=True)))
    for seed, p in procs:
        try:
            out, err = p.communicate(timeout=300)
        except subprocess.TimeoutExpired:
            p.kill()
            report("random histories on the global library", f"seed {seed} timed out")
            return
        if p.returncode != 0 or out.strip() != 'CLEAN':
            report("random histories on the global library", f"seed {seed}: {out.strip()[-600:]} {err.strip()[-400:]}")
            return
    report("random histories on the global library (24 fresh interpreters, a local library alive alongside, module "
           "functions / identity re-checked after every step, Core still usable afterwards)")


# ---------------------------------------------------------------------------------------------------------------------
# 6. Global library: deterministic sweep of every reserved-looking name in ONE fresh interpreter per name group
# ---------------------------------------------------------------------------------------------------------------------
SWEEP_CHILD = r"""
import sys, types
import ECAgent.Tags as Tags
names = eval(sys.argv[1])
ref = ['NONE']
for name in names:
    try:
        Tags.add_tag(name)
        ref.append(name)
    except Tags.DuplicateTagError:
        pass
    # every accepted name must resolve to its id through the module, and the module must stay intact
    for i, n in enumerate(ref):
        v = getattr(Tags, n)
        assert type(v) is int and v == i, (name, n, v, i)
        assert Tags.get_tag_name(i) == n
    assert Tags.itemize() == [(n, i) for i, n in enumerate(ref)], name
    assert callable(Tags.add_tag) and callable(Tags.get_tag_name) and callable(Tags.itemize), name
    assert isinstance(Tags.TagLibrary, type) and issubclass(Tags.TagNotFoundError, Exception), name
    assert Tags.__name__ == 'ECAgent.Tags' and Tags.__spec__ is not None and Tags.__file__, name
import ECAgent.Core, ECAgent.Collectors          # later imports of the package still work
import importlib
assert importlib.import_module('ECAgent.Tags') is Tags
print('CLEAN', len(ref))
"""


def exp_global_sweep():
    env = dict(os.environ, PYTHONPATH=os.pathsep.join(sys.path))
    names = list(dict.fromkeys(MODULE_NAMES + LIB_NAMES + ALL_DUNDERS + ARBITRARY + ORDINARY))
    out = subprocess.run([sys.executable, '-c', SWEEP_CHILD, repr(names)], env=env, capture_output=True, text=True,
                         timeout=300)
    if out.returncode != 0 or not out.stdout.startswith('CLEAN'):
        return f"rc={out.returncode} {out.stdout[-300:]} {out.stderr[-600:]}"
    return None


# ---------------------------------------------------------------------------------------------------------------------
# 7. Hash-seed independence and import-order independence of the global library
# ---------------------------------------------------------------------------------------------------------------------
ORDER_CHILD = r"""
import sys
if sys.argv[1] == 'core-first':
    import ECAgent.Core
    import ECAgent.Tags as Tags
else:
    import ECAgent.Tags as Tags
    import ECAgent.Core
for n in ['B', 'A', 'B', 'NONE', 'é', 'itemize', 'C']:
    try:
        Tags.add_tag(n)
    except Tags.DuplicateTagError:
        pass
print(Tags.itemize(), Tags.A, Tags.C, ECAgent.Core.Agent.tag)
"""


def exp_order_and_seed():
    outs = set()
    for order in ('core-first', 'tags-first'):
        for hs in ('0', '7', 'random'):
            env = dict(os.environ, PYTHONPATH=os.pathsep.join(sys.path), PYTHONHASHSEED=hs)
            out = subprocess.run([sys.executable, '-c', ORDER_CHILD, order], env=env, capture_output=True, text=True,
                                 timeout=120)
            if out.returncode != 0:
                return out.stderr[-400:]
            outs.add(out.stdout)
    if len(outs) != 1:
        return f"differs: {outs}"
    return None


# ---------------------------------------------------------------------------------------------------------------------
# 8. Notes (unspecified / already decided; never counted)
# ---------------------------------------------------------------------------------------------------------------------
def notes():
    lib = Tags.TagLibrary()
    try:
        lib.NOPE
    except AttributeError:
        note("unknown NAME on a local library",
             "raises AttributeError (plain attribute access; only the module-level __getattr__ documents "
             "TagNotFoundError). No error is documented for this case - unspecified, not counted.")
    lib.add_tag('ﬁ')
    lib.add_tag('fi')
    note("non-NFKC names", "'ﬁ' (ligature) and 'fi' are two tags via getattr(); the source form `lib.ﬁ` is normalised "
                            "by the Python parser to 'fi'. Parser behaviour, not the library's - not counted.")
    for bad in (5, None, 1.5, b'x', ('a',)):
        l2 = Tags.TagLibrary()
        try:
            l2.add_tag(bad)
            note("non-str name", f"{bad!r} accepted")
        except TypeError:
            if l2.itemize() != [('NONE', 0)] or len(l2) != 1:
                report("non-str name leaves the library unchanged", f"{bad!r} changed the library")
        except Tags.DuplicateTagError:
            pass
    note("non-str names", "raise TypeError from hasattr() and change nothing (outside the scope, which is strings).")
    # module-protocol dunders that the import system reads through the module __getattr__
    note("global tags named '__path__' / '__all__' / '__wrapped__' ...",
         "accepted (neither module globals nor ModuleType attributes); bijection and all library operations stay "
         "intact (see the global sweep). They only matter to `from ECAgent.Tags import ...`, which already fails in a "
         "fresh interpreter because the module __getattr__ answers the import system's '__path__' probe with "
         "TagNotFoundError - the known, out-of-scope root cause. Not counted.")
    l1 = Tags.TagLibrary()
    try:
        l1.add_tag('__annotations__')
        first = 'accepted'
    except Tags.DuplicateTagError:
        first = 'rejected'
    Tags.TagLibrary.__annotations__          # CPython creates the class attribute lazily on first access
    l2 = Tags.TagLibrary()
    try:
        l2.add_tag('__annotations__')
        second = 'accepted'
    except Tags.DuplicateTagError:
        second = 'rejected'
    if first != second:
        note("local tag named '__annotations__'",
             f"{first} before and {second} after somebody evaluates TagLibrary.__annotations__ (CPython materialises "
             f"that class attribute lazily, hasattr() then sees it). Either way the library it was offered to stays "
             f"consistent (l1 still maps '__annotations__' <-> 1); no library influences another. Not counted.")


def main():
    run_local_histories()
    report("deterministic sweep: every pool name alone on a fresh local library, protocol operations afterwards",
           sweep_local())
    report("TagLibrary subclass: its own attributes, methods and properties are protected too", exp_subclass())
    report("ids: bool / numpy ints / boundaries / huge ints", exp_ids())
    run_global_histories()
    report("deterministic sweep of ~300 reserved-looking names on the global library in a fresh interpreter",
           exp_global_sweep())
    report("global library independent of import order and hash seed", exp_order_and_seed())
    notes()
    print()
    print(f"{len(VIOLATIONS)} genuine violation(s) found" if VIOLATIONS else "no genuine violation found")
    return 1 if VIOLATIONS else 0


if __name__ == '__main__':
    if len(sys.argv) == 3 and sys.argv[1] == '--child-global':
        problem = child_global(int(sys.argv[2]))
        print('CLEAN' if problem is None else problem)
        sys.exit(0)
    sys.exit(main())
