"""Bug hunt for the property
    "Tag libraries keep a stable name<->id bijection and cannot be corrupted".

Run with:  cd /tmp/wt-C19-h && PYTHONPATH=/tmp/wt-C19-h /venv/bin/python hunt.py

Every experiment prints OK, VIOLATION (counted, exit code 1) or NOTE (an observation that is outside the stated
scope or merely unspecified; never counted).  Experiments about the module-level (global) library are executed in
fresh child interpreters, one per history.
"""
import json
import os
import random
import subprocess
import sys
import textwrap

import ECAgent.Tags as Tags

VIOLATIONS = []
NOTES = []


def report(title, violations=(), notes=()):
    if violations:
        for v in violations:
            print(f'VIOLATION [{title}]: {v}')
            VIOLATIONS.append((title, v))
    else:
        print(f'OK        [{title}]')
    for n in notes:
        print(f'   NOTE   [{title}]: {n}')
        NOTES.append((title, n))


def child(code, env_extra=None, timeout=120):
    """Runs ``code`` in a fresh interpreter, returns the object it printed as JSON on its last stdout line."""
    env = dict(os.environ)
    env.update(env_extra or {})
    p = subprocess.run([sys.executable, '-c', textwrap.dedent(code)], env=env, capture_output=True, text=True,
                       timeout=timeout)
    if p.returncode != 0:
        return {'crash': p.stderr.strip().splitlines()[-1] if p.stderr.strip() else f'exit {p.returncode}'}
    return json.loads(p.stdout.strip().splitlines()[-1])


# ---------------------------------------------------------------------------------------------------------------------
# Generic invariant checker for a local library
# ---------------------------------------------------------------------------------------------------------------------

def invariant_errors(lib, expected_names):
    errs = []
    try:
        items = lib.itemize()
        if [n for n, _ in items] != expected_names:
            errs.append(f'itemize names {[n for n, _ in items]!r:.80} != expected {expected_names!r:.80}')
        if [v for _, v in items] != list(range(len(items))):
            errs.append('itemize ids are not 0..n-1 in order')
        if len(lib) != len(expected_names):
            errs.append(f'len {len(lib)} != {len(expected_names)}')
        for i, n in enumerate(expected_names):
            if lib.get_tag_name(i) != n:
                errs.append(f'get_tag_name({i}) = {lib.get_tag_name(i)!r:.40}, expected {n!r:.40}')
            if getattr(lib, n) != i or type(getattr(lib, n)) is not int:
                errs.append(f'getattr(lib, {n!r:.40}) = {getattr(lib, n)!r:.40}, expected {i}')
        for bad in (-1, len(expected_names), len(expected_names) + 7, 10 ** 40, -10 ** 40):
            try:
                r = lib.get_tag_name(bad)
                errs.append(f'get_tag_name({bad}) returned {r!r:.40} instead of raising TagNotFoundError')
            except Tags.TagNotFoundError as e:
                if e.tag_id != bad:
                    errs.append(f'TagNotFoundError.tag_id = {e.tag_id!r} for id {bad}')
        if lib.NONE != 0:
            errs.append('NONE is not 0')
    except Exception as e:  # the library's own operations broke
        errs.append(f'library operation raised {type(e).__name__}: {e}')
    return errs


def drive(lib, names, others=()):
    """Adds every name; checks ids, rejection-changes-nothing and all invariants after every step."""
    errs = []
    expected = ['NONE']
    other_snap = [(o.itemize(), len(o)) for o in others]
    for n in names:
        before = (lib.itemize(), len(lib), {k: (v if not isinstance(v, list) else list(v))
                                            for k, v in vars(lib).items()})
        try:
            lib.add_tag(n)
        except Tags.DuplicateTagError as e:
            after = (lib.itemize(), len(lib), {k: (v if not isinstance(v, list) else list(v))
                                               for k, v in vars(lib).items()})
            if before != after:
                errs.append(f'rejected name {n!r:.40} changed the library')
            if e.tag_name != n:
                errs.append(f'DuplicateTagError.tag_name {e.tag_name!r:.40} != {n!r:.40}')
        except Exception as e:
            errs.append(f'add_tag({n!r:.40}) raised undocumented {type(e).__name__}: {e}')
        else:
            if n in expected:
                errs.append(f'duplicate {n!r:.40} accepted')
            expected.append(n)
            if getattr(lib, n) != len(expected) - 1:
                errs.append(f'{n!r:.40} got id {getattr(lib, n)!r:.40}, expected next unused id {len(expected) - 1}')
        errs += invariant_errors(lib, expected)
        if len(errs) > 5:
            break
    for o, snap in zip(others, other_snap):
        if (o.itemize(), len(o)) != snap:
            errs.append('another library was influenced')
    return errs, expected


NASTY = (['', ' ', '\0', 'a b', '1', '-1', '0', 'NONE', 'none', 'None', 'x', 'x', 'X', 'self', 'cls', 'lib',
          'a' * 100000, '\ud800', '\U0001F600', 'ﬁ', 'fi', 'é', 'é', 'a\r\nb', 'a.b', 'a[0]', '__x', '_TagLibrary__x',
          '_tag_counter', '_tag_names', 'add_tag', 'get_tag_name', 'itemize', 'TagLibrary', 'DuplicateTagError',
          'TagNotFoundError', '_module_library', '_ModuleType', 'Tags', 'ECAgent',
          'dir', 'globals', 'hasattr', 'enumerate', 'len', 'int', 'str', 'list', 'super', 'print', 'Exception',
          '__getattr__', '__setattr__', '__delattr__', '__getattribute__', '__bool__', '__len__', '__iter__',
          '__next__', '__contains__', '__getitem__', '__setitem__', '__call__', '__index__', '__int__', '__lt__',
          '__gt__', '__hash__', '__eq__', '__deepcopy__', '__copy__', '__setstate__', '__getstate__', '__reduce__',
          '__reduce_ex__', '__getnewargs__', '__getnewargs_ex__', '__slots__', '__annotations__', '__path__',
          '__all__', '__name__', '__qualname__', '__wrapped__', '__set__', '__get__', '__delete__', '__set_name__',
          '__mro_entries__', '__class_getitem__', '__instancecheck__', '__abstractmethods__', '__dictoffset__',
          '__base__', '__bases__', '__mro__', 'mro', '__subclasses__', '__text_signature__', '__type_params__',
          '__warningregistry__', '__builtins__', '__spec__', '__file__', '__loader__', '__package__', '__cached__',
          '__doc__', '__dict__', '__class__', '__module__', '__weakref__', '__init__', '__new__', '__del__',
          '__test__', '__signature__', '__code__', '__orig_class__', '__isabstractmethod__', '__fspath__',
          '__format__', '__sizeof__', '__dir__', '__repr__', '__str__', '__init_subclass__', '__subclasshook__',
          '__await__', '__enter__', '__exit__', '__match_args__', '__objclass__', '__self__', '__func__']
         + dir(object) + dir(type) + dir(Tags.TagLibrary()))


# ---------------------------------------------------------------------------------------------------------------------
# Experiments on local libraries
# ---------------------------------------------------------------------------------------------------------------------

def exp_local_nasty_names():
    other = Tags.TagLibrary()
    other.add_tag('KEEP')
    lib = Tags.TagLibrary()
    errs, expected = drive(lib, NASTY, others=[other])
    # the library's own operations and plain builtins on it still work
    try:
        bool(lib), repr(lib), str(lib), hash(lib), lib == lib, dir(lib), len(lib)
    except Exception as e:
        errs.append(f'builtin on library raised {type(e).__name__}: {e}')
    report('local: reserved / dunder / arbitrary names', errs)


def exp_local_random_histories():
    rng = random.Random(12345)
    pool = NASTY + [f'T{i}' for i in range(30)]
    errs = []
    for h in range(150):
        libs = [Tags.TagLibrary() for _ in range(3)]
        seqs = [[rng.choice(pool) for _ in range(rng.randrange(0, 25))] for _ in libs]
        exps = []
        for lib, seq in zip(libs, seqs):
            e, expected = drive(lib, seq, others=[o for o in libs if o is not lib])
            errs += e
            exps.append(expected)
        for lib, expected in zip(libs, exps):  # still intact after the siblings were filled
            errs += invariant_errors(lib, expected)
        if errs:
            break
    report('local: 150 random histories over 3 interleaved libraries', errs)


def exp_local_str_subclass_and_reuse():
    class S(str):
        pass

    class Loud(str):
        def __str__(self):
            return 'loud'

        def __repr__(self):
            return 'loud'

        def __format__(self, spec):
            return 'loud'
    errs = []
    a, b = Tags.TagLibrary(), Tags.TagLibrary()
    shared = S('SHARED')
    for lib in (a, b):
        e, _ = drive(lib, [shared, 'SHARED', S('SHARED'), Loud('Q'), 'Q', Loud('add_tag'), S('NONE'), S('')],
                     others=[x for x in (a, b) if x is not lib])
        errs += e
    if a.SHARED != 1 or a.get_tag_name(1) != 'SHARED' or a.Q != 2:
        errs.append('str-subclass names are not looked up like their plain value')
    report('local: str subclasses, same name object reused in two libraries', errs)


def exp_local_subclass_of_library():
    class MyLib(Tags.TagLibrary):
        extra = 5

        def helper(self):
            return 1

        @property
        def prop(self):
            return 2

        def __init__(self):
            super().__init__()
            self.own = 'x'
    lib = MyLib()
    errs, _ = drive(lib, ['extra', 'helper', 'prop', 'own', 'A', 'add_tag', 'B', 'NONE'])
    if (lib.extra, lib.helper(), lib.prop, lib.own) != (5, 1, 2, 'x'):
        errs.append('a tag name shadowed a subclass attribute')
    report('local: subclass of TagLibrary with extra attributes / property / method', errs)


def exp_local_ids():
    import enum
    lib = Tags.TagLibrary()
    lib.add_tag('A')
    lib.add_tag('B')
    errs, notes = [], []

    class E(enum.IntEnum):
        ONE = 1
        NINE = 9
    good = [(0, 'NONE'), (-0, 'NONE'), (False, 'NONE'), (True, 'A'), (2, 'B'), (E.ONE, 'A')]
    bad = [-1, 3, E.NINE, 2 ** 63, 2 ** 64, -2 ** 64, 10 ** 100]
    try:
        import numpy as np
        good += [(np.int64(2), 'B'), (np.uint8(1), 'A'), (np.int8(0), 'NONE')]
        bad += [np.int8(-1), np.int64(3), np.uint64(2 ** 63)]
        floats = [np.float64(1.0), np.bool_(True)]
    except ImportError:
        floats = []
    for i, n in good:
        try:
            if lib.get_tag_name(i) != n:
                errs.append(f'get_tag_name({i!r}) = {lib.get_tag_name(i)!r}, expected {n!r}')
        except Exception as e:
            errs.append(f'get_tag_name({i!r}) raised {type(e).__name__}')
    for i in bad:
        try:
            errs.append(f'get_tag_name({i!r}) returned {lib.get_tag_name(i)!r}')
        except Tags.TagNotFoundError:
            pass
        except Exception as e:
            errs.append(f'get_tag_name({i!r}) raised {type(e).__name__} instead of TagNotFoundError')
    # non-integer "ids": unspecified (ids are ints) - only noted
    odd = []
    for i in [0.0, 1.0, -0.0, 0.5, 2.5, float('nan'), float('inf')] + floats:
        try:
            odd.append(f'{i!r}->{lib.get_tag_name(i)!r}')
        except Exception as e:
            odd.append(f'{i!r}->{type(e).__name__}')
    notes.append('non-integer ids are unspecified (not counted); in-range floats give TypeError, out-of-range floats '
                 'TagNotFoundError: ' + ', '.join(odd))
    report('local: id lookups (bool, -0, IntEnum, numpy ints, huge ints)', errs, notes)


def exp_local_results_are_not_live():
    lib = Tags.TagLibrary()
    lib.add_tag('A')
    items = lib.itemize()
    items.append(('EVIL', 2))
    items[0] = ('X', 99)
    del items[:]
    errs = invariant_errors(lib, ['NONE', 'A'])
    if lib.itemize() is lib.itemize():
        errs.append('itemize hands out a shared list')
    report('local: mutating the list returned by itemize() does not touch the library', errs)


def exp_local_copy_pickle():
    import copy
    import pickle
    errs, notes = [], []
    lib = Tags.TagLibrary()
    for n in ('A', '__setstate__', '__copy__', '__getnewargs__', 'B'):
        lib.add_tag(n)
    names = ['NONE', 'A', '__setstate__', '__copy__', '__getnewargs__', 'B']
    for label, f in (('deepcopy', copy.deepcopy), ('pickle', lambda x: pickle.loads(pickle.dumps(x)))):
        try:
            c = f(lib)
            c.add_tag('ONLY_IN_COPY')
            errs += [f'{label}: {e}' for e in invariant_errors(c, names + ['ONLY_IN_COPY'])]
            errs += [f'{label} (original): {e}' for e in invariant_errors(lib, names)]
        except Exception as e:
            errs.append(f'{label} raised {type(e).__name__}: {e}')
    # out of scope: copying is not an operation of the library
    lib2 = Tags.TagLibrary()
    lib2.add_tag('__deepcopy__')
    try:
        copy.deepcopy(lib2)
    except TypeError as e:
        notes.append(f'copy.deepcopy of a library holding a tag named "__deepcopy__" raises TypeError ({e}); '
                     'copying is not one of the library\'s own operations - not counted')
    s = copy.copy(Tags.TagLibrary())
    notes.append('copy.copy(lib) shares the internal name list with the original (shallow copy semantics) - '
                 'not counted')
    report('local: deepcopy / pickle round trip give an independent, intact library', errs, notes)


def exp_many_tags():
    lib = Tags.TagLibrary()
    names = [f't{i}' for i in range(20000)]
    for n in names:
        lib.add_tag(n)
    errs = []
    if len(lib) != 20001 or lib.t19999 != 20000 or lib.get_tag_name(20000) != 't19999' \
            or lib.itemize()[-1] != ('t19999', 20000):
        errs.append('20000 tags not numbered consecutively')
    report('local: 20000 tags', errs)


# ---------------------------------------------------------------------------------------------------------------------
# Experiments on the global library (fresh interpreter per history)
# ---------------------------------------------------------------------------------------------------------------------

GLOBAL_DRIVER = r'''
import json, sys, types
import ECAgent.Tags as T
NAMES = json.loads(sys.argv[1]) if len(sys.argv) > 1 else None
def inv(expected):
    errs = []
    try:
        items = T.itemize()
        if [n for n, _ in items] != expected: errs.append('itemize names differ from the accepted names')
        if [v for _, v in items] != list(range(len(items))): errs.append('ids not 0..n-1')
        for i, n in enumerate(expected):
            if T.get_tag_name(i) != n: errs.append('get_tag_name(%d) != %r' % (i, n))
            try:
                v = getattr(T, n)
            except Exception as e:
                errs.append('getattr(Tags, %r) raised %s' % (n, type(e).__name__)); continue
            if v != i or type(v) is not int: errs.append('getattr(Tags, %r) = %r, expected %d' % (n, v, i))
        for bad in (-1, len(expected), 10 ** 30):
            try: T.get_tag_name(bad); errs.append('get_tag_name(%d) did not raise' % bad)
            except T.TagNotFoundError: pass
    except Exception as e:
        errs.append('operation raised %s: %s' % (type(e).__name__, e))
    return errs
def drive(names):
    errs, expected = [], ['NONE']
    g0 = dict(vars(T))
    local = T.TagLibrary(); local.add_tag('LOCAL_ONLY')
    for n in names:
        before = T.itemize()
        try:
            T.add_tag(n)
        except T.DuplicateTagError:
            if T.itemize() != before: errs.append('rejected %r changed the library' % n)
        except Exception as e:
            errs.append('add_tag(%r) raised %s' % (n, type(e).__name__))
        else:
            if n in expected: errs.append('duplicate %r accepted' % n)
            expected.append(n)
        errs += inv(expected)
        if len(errs) > 5: break
    g1 = dict(vars(T))
    if set(g0) != set(g1) or any(g0[k] is not g1[k] for k in g0): errs.append('module namespace was modified')
    if local.itemize() != [('NONE', 0), ('LOCAL_ONLY', 1)]: errs.append('local library influenced')
    if 'LOCAL_ONLY' not in expected:
        try: T.LOCAL_ONLY; errs.append('local tag visible in global library')
        except T.TagNotFoundError: pass
    return errs, expected
'''


def exp_global_nasty_names():
    code = GLOBAL_DRIVER + r'''
names = NAMES + list(vars(T)) + dir(types.ModuleType)
errs, expected = drive(names)
print(json.dumps({'errs': errs, 'n': len(expected)}))
'''
    names = [n for n in NASTY if '\ud800' not in n and len(n) < 1000]
    env = dict(os.environ)
    p = subprocess.run([sys.executable, '-c', code, json.dumps(names)], env=env, capture_output=True, text=True,
                       timeout=300)
    if p.returncode != 0:
        report('global: reserved / dunder / module / builtin names', [f'child crashed: {p.stderr[-300:]}'])
        return
    out = json.loads(p.stdout.strip().splitlines()[-1])
    report('global: reserved / dunder / module / builtin names (1 fresh interpreter)', out['errs'])


def exp_global_random_histories():
    rng = random.Random(777)
    pool = [n for n in NASTY if '\ud800' not in n and len(n) < 1000] + [f'G{i}' for i in range(20)]
    errs = []
    code = GLOBAL_DRIVER + r'''
errs, expected = drive(NAMES)
print(json.dumps({'errs': errs}))
'''
    for h in range(12):
        seq = [rng.choice(pool) for _ in range(rng.randrange(1, 40))]
        for seed in (str(h), 'random'):
            env = dict(os.environ, PYTHONHASHSEED=seed)
            p = subprocess.run([sys.executable, '-c', code, json.dumps(seq)], env=env, capture_output=True,
                               text=True, timeout=120)
            if p.returncode != 0:
                errs.append(f'history {seq!r:.100} crashed: {p.stderr[-200:]}')
            else:
                errs += json.loads(p.stdout.strip().splitlines()[-1])['errs']
        if errs:
            break
    report('global: 12 random histories x 2 hash seeds, fresh interpreter each', errs)


def exp_global_with_core_imported():
    out = child(GLOBAL_DRIVER + r'''
import ECAgent.Core as Core
errs, expected = drive(['SHEEP', 'Agent', 'Model', 'Core', 'tag', '_tag', 'NONE', 'WOLF'])
m = Core.Model()
a = Core.Agent('a', m, tag=T.WOLF)
m.environment.add_agent(a)
if a.tag != expected.index('WOLF') or T.get_tag_name(a.tag) != 'WOLF': errs.append('agent tag wrong')
if m.environment.get_agents(tag=T.WOLF) != [a]: errs.append('tag search wrong')
b = Core.Agent('b', m)
m.environment.add_agent(b)
if b.tag != 0 or T.get_tag_name(b.tag) != 'NONE': errs.append('default tag not NONE')
print(json.dumps({'errs': errs, 'expected': expected}))
''')
    errs = [out['crash']] if 'crash' in out else out['errs']
    report('global: together with ECAgent.Core (agent default tag, names of Core objects)', errs)


def exp_global_unknown_name_lookup():
    """Clause: unknown names raise the documented error (TagNotFoundError for the global library) and name lookup is
    the inverse of id lookup."""
    out = child(r'''
    import json
    import ECAgent.Tags as T
    T.add_tag('A'); T.add_tag('B')
    res = {}
    for name in ('UNKNOWN', 'none', '', '_tag_counter', '_tag_names'):
        try:
            res[name] = ['returned', repr(getattr(T, name))]
        except T.TagNotFoundError:
            res[name] = ['TagNotFoundError']
        except Exception as e:
            res[name] = [type(e).__name__]
    res['itemize'] = T.itemize()
    # the value handed out for '_tag_names' is the live internal list of the global library
    try:
        res['live'] = getattr(T, '_tag_names') is getattr(T, '_tag_names')
    except Exception:
        res['live'] = False
    try:
        res['inverse'] = T.get_tag_name(getattr(T, '_tag_counter'))
    except Exception as e:
        res['inverse'] = type(e).__name__
    print(json.dumps(res))
    ''')
    errs = []
    if 'crash' in out:
        errs.append(out['crash'])
    else:
        for name in ('UNKNOWN', 'none', '', '_tag_counter', '_tag_names'):
            if out[name] != ['TagNotFoundError']:
                errs.append(
                    f'fresh interpreter: Tags.add_tag("A"); Tags.add_tag("B"); getattr(Tags, {name!r}) '
                    f'{" ".join(out[name])} although {name!r} is not a tag (itemize() = {out["itemize"]}); expected '
                    f'TagNotFoundError.'
                    + (f' get_tag_name of that "id" -> {out["inverse"]}, so lookup by name is not the inverse of '
                       f'lookup by id.' if name == '_tag_counter' else '')
                    + (' The returned object is the library\'s live internal name list.'
                       if name == '_tag_names' and out['live'] else ''))
    report('global: looking up names that are not tags raises TagNotFoundError', errs)


def exp_from_import_note():
    out = child(r'''
    import json
    try:
        from ECAgent.Tags import TagLibrary
        print(json.dumps({'ok': True}))
    except Exception as e:
        print(json.dumps({'ok': False, 'err': '%s: %s' % (type(e).__name__, e)}))
    ''')
    out2 = child(r'''
    import json
    import ECAgent.Tags as T
    T.add_tag('__path__')
    try:
        from ECAgent.Tags import TagLibrary
        print(json.dumps({'ok': True}))
    except Exception as e:
        print(json.dumps({'ok': False, 'err': '%s: %s' % (type(e).__name__, e)}))
    ''')
    notes = []
    if not out.get('ok'):
        notes.append(f'`from ECAgent.Tags import TagLibrary` in a fresh interpreter fails with {out.get("err")!r} '
                     f'(module __getattr__ raises a non-AttributeError for "__path__"); after '
                     f'Tags.add_tag("__path__") the same statement '
                     f'{"succeeds" if out2.get("ok") else "fails: " + str(out2.get("err"))}. Real defect of the '
                     f'public API, but the property does not speak about import forms - not counted')
    report('observation: from-import of the Tags module', [], notes)


def exp_exception_pickling_note():
    import pickle
    notes = []
    for e in (Tags.TagNotFoundError(5), Tags.DuplicateTagError('A')):
        r = pickle.loads(pickle.dumps(e))
        if str(r) != str(e):
            notes.append(f'{type(e).__name__}: str() after a pickle round trip is {str(r)!r} (was {str(e)!r}); '
                         f'attributes tag_id/tag_name/message survive. Pickling is outside the stated scope - '
                         f'not counted')
    # real process boundary, with a timeout
    try:
        import concurrent.futures as cf
        with cf.ProcessPoolExecutor(2) as ex:
            fut = ex.submit(_raise_in_worker)
            try:
                fut.result(timeout=60)
            except Tags.TagNotFoundError as e:
                if str(e) != 'Tag with id "7" does not exist.':
                    notes.append(f'worker process -> parent: TagNotFoundError arrives with str() = {str(e)!r}')
            except Exception as e:
                notes.append(f'worker process -> parent: got {type(e).__name__} instead of TagNotFoundError')
    except Exception as e:  # pragma: no cover
        notes.append(f'process pool experiment could not run: {type(e).__name__}: {e}')
    report('observation: tag exceptions crossing a pickle / process boundary', [], notes)


def _raise_in_worker():
    Tags.TagLibrary().get_tag_name(7)


def exp_threads_note():
    import threading
    old = sys.getswitchinterval()
    sys.setswitchinterval(1e-6)
    bad = 0
    try:
        for _ in range(10):
            lib = Tags.TagLibrary()

            def w(k):
                for i in range(200):
                    lib.add_tag(f't{k}_{i}')
            ts = [threading.Thread(target=w, args=(k,)) for k in range(6)]
            [t.start() for t in ts]
            [t.join() for t in ts]
            items = lib.itemize()
            if not (len(lib) == len(items) == 1201 and all(getattr(lib, n) == i for n, i in items)):
                bad += 1
    finally:
        sys.setswitchinterval(old)
    notes = [f'{bad}/10 concurrent-thread trials produced an inconsistent library (concurrency is outside the '
             f'stated scope - not counted)'] if bad else []
    report('observation: 6 threads adding distinct tags concurrently', [], notes)


if __name__ == '__main__':
    assert os.path.dirname(os.path.abspath(Tags.__file__)).startswith(os.path.dirname(os.path.abspath(__file__))), \
        'run with PYTHONPATH=/tmp/wt-C19-h so that this copy of ECAgent is exercised'
    exp_local_nasty_names()
    exp_local_random_histories()
    exp_local_str_subclass_and_reuse()
    exp_local_subclass_of_library()
    exp_local_ids()
    exp_local_results_are_not_live()
    exp_local_copy_pickle()
    exp_many_tags()
    exp_global_nasty_names()
    exp_global_random_histories()
    exp_global_with_core_imported()
    exp_global_unknown_name_lookup()
    exp_from_import_note()
    exp_exception_pickling_note()
    exp_threads_note()
    print()
    print(f'{len(VIOLATIONS)} genuine violation(s), {len(NOTES)} out-of-scope note(s)')
    sys.exit(1 if VIOLATIONS else 0)
