"""Bug hunt for the property

    "Agents stay inside the world; moves are exactly modular or saturating"

Run with:   cd /tmp/wt-C08-h && PYTHONPATH=/tmp/wt-C08-h /venv/bin/python hunt.py

Every experiment prints either  OK  /  VIOLATION (counted, in scope)  /  NOTE (observed, but out of the
stated scope or unspecified - not counted).  Exit status is 1 iff at least one VIOLATION was printed.
Only the public API of ECAgent is used.
"""
import copy
import itertools
import math
import pickle
import random
import signal
import sys
import warnings

from ECAgent.Core import Model, Agent, Component, System
from ECAgent.Environments import SpaceWorld, DiscreteWorld, LineWorld, GridWorld, PositionComponent
from ECAgent.Collectors import Collector
from ECAgent.Batching import batch_run

P = PositionComponent
VIOLATIONS = []
NOTES = []


def report(name, problems, kind='VIOLATION'):
    """problems: list of str.  kind: 'VIOLATION' (counted) or 'NOTE' (not counted)."""
    if not problems:
        print(f'[OK]        {name}')
        return
    print(f'[{kind}] {name}')
    for p in problems[:6]:
        print(f'            - {p}')
    if len(problems) > 6:
        print(f'            ... and {len(problems) - 6} more')
    (VIOLATIONS if kind == 'VIOLATION' else NOTES).append(name)


def experiment(name, kind='VIOLATION'):
    def deco(fn):
        try:
            problems = fn()
        except Exception as e:  # an experiment that crashes is itself suspicious
            problems = [f'experiment crashed: {type(e).__name__}: {e}']
        report(name, problems, kind)
        return fn
    return deco


# ----------------------------------------------------------------------------------------------------------------------
# helpers / independent oracle
# ----------------------------------------------------------------------------------------------------------------------

def make_world(kind, ext, wrap, model=None):
    m = Model() if model is None else model
    if kind == 'space':
        return SpaceWorld(m, ext[0], ext[1], ext[2], wrap_env=wrap), 0
    if kind == 'disc':
        return DiscreteWorld(m, ext[0], ext[1], ext[2], wrap_env=wrap), 1
    if kind == 'line':
        return LineWorld(m, ext[0], wrap_env=wrap), 1
    return GridWorld(m, ext[0], ext[1], wrap_env=wrap), 1


def top(e, off):  # largest legal coordinate on an axis of positive extent
    return e - off


def in_world(pos, dims, off):
    return all(e <= 0 or 0 <= v <= top(e, off) for v, e in zip(pos, dims))


def oracle_move(old, delta, e, off, wrap):
    s = old + delta
    if wrap:
        if isinstance(s, float) or isinstance(e, float):
            r = math.fmod(s, e)           # independent of the % operator
            if r < 0:
                r += e
            return r
        return s - (s // e) * e
    if s < 0:
        return 0
    if s > top(e, off):
        return top(e, off)
    return s


def world_dims(w):
    return w.width, w.height, w.depth


def positions(agents):
    return {k: a[P].xyz() for k, a in agents.items()}


# ----------------------------------------------------------------------------------------------------------------------
# E1  differential fuzz over the whole stated scope
# ----------------------------------------------------------------------------------------------------------------------

@experiment('E1  random histories of add/move/move_to/remove, all world kinds x extents x wrap, several agents')
def e1():
    rng = random.Random(20260927)
    bad = []

    def val(kind, e):
        if kind == 'space':
            c = rng.choice(['in', 'zero', 'edge', 'far', 'neg', 'tiny', 'negzero'])
            if c == 'in':
                return rng.uniform(0, e) if e else rng.uniform(-5, 5)
            if c == 'zero':
                return 0.0
            if c == 'edge':
                return float(e)
            if c == 'far':
                return rng.choice([1e6, 1e18, 1e300, 12345.678, 1.7976931348623157e308])
            if c == 'neg':
                return -rng.choice([1e-9, 0.5, 1.0, 3.25, 1e6, 1e300, 1.7976931348623157e308])
            if c == 'tiny':
                return rng.choice([1e-300, -1e-300, 5e-324, -5e-324, 1e-17, -1e-17])
            return -0.0
        c = rng.choice(['in', 'zero', 'last', 'extent', 'far', 'neg'])
        if c == 'in':
            return rng.randrange(0, e) if e else rng.randrange(-5, 5)
        if c == 'zero':
            return 0
        if c == 'last':
            return e - 1
        if c == 'extent':
            return e
        if c == 'far':
            return rng.choice([10 ** 6, 10 ** 30, 2 ** 63, 2 ** 64 + 1])
        return -rng.choice([1, 2, 10 ** 6, 10 ** 30, 2 ** 63])

    configs = []
    configs += [('space', e) for e in itertools.product([0, 1, 1.0, 1.5, 7, 10.25], repeat=3)]
    configs += [('disc', e) for e in itertools.product([0, 1, 2, 7], repeat=3)]
    configs += [('line', (e, 0, 0)) for e in [1, 2, 7, 50]]
    configs += [('grid', (a, b, 0)) for a in [1, 2, 7] for b in [1, 2, 7]]
    steps = 0
    for kind, ext in configs:
        for wrap in (False, True):
            w, off = make_world(kind, ext, wrap)
            dims = world_dims(w)
            agents = {}
            for _ in range(50):
                steps += 1
                op = rng.choice(['add', 'move', 'move', 'move_to', 'remove'])
                before = positions(agents)
                ctx = f'{kind}{ext} wrap={wrap}'
                if op == 'add':
                    aid = rng.choice(['a', 'b', 'c', 0, ''])
                    ag = Agent(aid, w.model)
                    p = tuple(val(kind, e) for e in dims)
                    expect_ok = aid not in agents and in_world(p, dims, off)
                    try:
                        w.add_agent(ag, *p)
                        ok = True
                    except Exception:
                        ok = False
                    if ok != expect_ok:
                        bad.append(f'{ctx}: add_agent{p} accepted={ok}, expected accepted={expect_ok}')
                    if ok:
                        agents[aid] = ag
                        before[aid] = p
                    elif P in ag or (aid not in agents and aid in w.agents):
                        bad.append(f'{ctx}: rejected add_agent{p} left traces')
                elif op == 'move' and agents:
                    aid = rng.choice(list(agents))
                    d = [val(kind, e) for e in dims]
                    if rng.random() < 0.3:
                        d[rng.randrange(3)] = 0
                    old = before[aid]
                    w.move(agents[aid], *d)
                    got = agents[aid][P].xyz()
                    new = list(got)
                    for i, e in enumerate(dims):
                        if e > 0:
                            exp = oracle_move(old[i], d[i], e, off, wrap)
                            new[i] = exp
                            if not got[i] == exp:
                                bad.append(f'{ctx}: move axis {i} old={old[i]!r} delta={d[i]!r} -> {got[i]!r}, '
                                           f'expected {exp!r}')
                    before[aid] = tuple(got[i] if dims[i] <= 0 else new[i] for i in range(3))
                elif op == 'move_to' and agents:
                    aid = rng.choice(list(agents))
                    p = tuple(val(kind, e) for e in dims)
                    expect_ok = in_world(p, dims, off)
                    try:
                        w.move_to(agents[aid], *p)
                        ok = True
                    except IndexError:
                        ok = False
                    if ok != expect_ok:
                        bad.append(f'{ctx}: move_to{p} accepted={ok}, expected {expect_ok}')
                    if ok:
                        before[aid] = p
                elif op == 'remove' and agents:
                    aid = rng.choice(list(agents))
                    w.remove_agent(aid)
                    ag = agents.pop(aid)
                    before.pop(aid)
                    if P in ag or aid in w.agents:
                        bad.append(f'{ctx}: remove_agent left the position / the agent behind')
                # every agent (not only the one touched) is where the oracle says, and inside the world
                now = positions(agents)
                for k in agents:
                    if not all(a == b for a, b in zip(now[k], before[k])):
                        bad.append(f'{ctx}: after {op} agent {k!r} is at {now[k]}, expected {before[k]}')
                    if not in_world(now[k], dims, off):
                        bad.append(f'{ctx}: after {op} agent {k!r} at {now[k]} is outside the world')
                if set(w.agents) != set(agents):
                    bad.append(f'{ctx}: membership differs from the oracle')
    return bad


# ----------------------------------------------------------------------------------------------------------------------
# E2  exhaustive small grids
# ----------------------------------------------------------------------------------------------------------------------

@experiment('E2  exhaustive: every start cell x every delta in [-3w, 3w] on small line/grid/generic worlds')
def e2():
    bad = []
    for width in (1, 2, 3, 5):
        for wrap in (False, True):
            for kind, ext in (('line', (width, 0, 0)), ('grid', (width, 2, 0)), ('disc', (width, 0, 3))):
                w, off = make_world(kind, ext, wrap)
                a = Agent('a', w.model)
                w.add_agent(a)
                for start in range(width):
                    for delta in range(-3 * width - 1, 3 * width + 2):
                        w.move_to(a, start, 0, 0)
                        w.move(a, delta)
                        exp = (start + delta) % width if wrap else min(max(start + delta, 0), width - 1)
                        if a[P].x != exp or a[P].y != 0 or a[P].z != 0:
                            bad.append(f'{kind}{ext} wrap={wrap}: {start}+{delta} -> {a[P].xyz()} expected x={exp}')
                # boundary placements
                for x, ok in ((-1, False), (0, True), (width - 1, True), (width, False)):
                    b = Agent('b', w.model)
                    try:
                        w.add_agent(b, x)
                        got = True
                        w.remove_agent('b')
                    except Exception:
                        got = False
                    if got != ok:
                        bad.append(f'{kind}{ext}: add_agent(x={x}) accepted={got}')
    return bad


# ----------------------------------------------------------------------------------------------------------------------
# E3  float corner cases in continuous worlds
# ----------------------------------------------------------------------------------------------------------------------

@experiment('E3  continuous worlds: negative zero, denormals, tiny negative deltas, edges, 1e300 deltas')
def e3():
    bad = []
    for wrap in (False, True):
        for ext in (1, 1.0, 5.0, 7, 1e6, 1e300):
            w = SpaceWorld(Model(), ext, ext, ext, wrap_env=wrap)
            a = Agent('a', w.model)
            w.add_agent(a, 0.0, float(ext), -0.0)
            if a[P].xyz() != (0.0, float(ext), 0.0):
                bad.append(f'placement at the edges of extent {ext} not exact')
            for d in (-0.0, 5e-324, -5e-324, 1e-300, -1e-300, 1e-17, -1e-17, float(ext), -float(ext), 1e300, -1e300,
                      1.7976931348623157e308, -1.7976931348623157e308):
                for start in (0.0, ext / 2, float(ext)):
                    w.move_to(a, start, start, start)
                    with warnings.catch_warnings():
                        warnings.simplefilter('ignore')
                        w.move(a, d, 0.0, -d)
                    for got, dd in ((a[P].x, d), (a[P].z, -d)):
                        if wrap and math.isinf(start + dd):
                            continue  # the float sum overflows: see E15
                        exp = oracle_move(start, dd, ext, 0, wrap)
                        if not (got == exp and 0 <= got <= ext):
                            bad.append(f'extent {ext} wrap={wrap}: {start!r}+{dd!r} -> {got!r}, expected {exp!r}')
                    if a[P].y != (start % ext if wrap else start):
                        bad.append(f'extent {ext} wrap={wrap}: zero delta changed y {start!r} -> {a[P].y!r}')
            for x in (-5e-324, math.nextafter(float(ext), math.inf), -1e300, 1.7976931348623157e308):
                before = a[P].xyz()
                try:
                    w.move_to(a, x, 0.0, 0.0)
                    bad.append(f'extent {ext}: move_to(x={x!r}) accepted')
                except IndexError:
                    pass
                if a[P].xyz() != before:
                    bad.append(f'extent {ext}: rejected move_to changed the position')
                b = Agent('b', w.model)
                try:
                    w.add_agent(b, 0.0, x, 0.0)
                    bad.append(f'extent {ext}: add_agent(y={x!r}) accepted')
                except Exception:
                    pass
                if 'b' in w.agents or P in b:
                    bad.append(f'extent {ext}: rejected add_agent left traces')
    return bad


# ----------------------------------------------------------------------------------------------------------------------
# E4  huge Python ints, bools
# ----------------------------------------------------------------------------------------------------------------------

@experiment('E4  grid worlds: huge Python ints (2**63, 10**30, 10**400) and bool coordinates')
def e4():
    bad = []
    for wrap in (False, True):
        w = GridWorld(Model(), 7, 3, wrap_env=wrap)
        a = Agent('a', w.model)
        w.add_agent(a, True, False)
        if a[P].xy() != (1, 0):
            bad.append('bool placement')
        for d in (2 ** 63, -2 ** 63, 10 ** 30, -10 ** 30, 10 ** 400, -10 ** 400, 2 ** 64 + 1, True):
            w.move_to(a, 3, 1)
            w.move(a, d, -d)
            ex = (3 + d) % 7 if wrap else min(max(3 + d, 0), 6)
            ey = (1 - d) % 3 if wrap else min(max(1 - d, 0), 2)
            if a[P].xyz() != (ex, ey, 0):
                bad.append(f'wrap={wrap} delta={d}: {a[P].xyz()} expected {(ex, ey, 0)}')
            for args in ((d, 0), (0, d)):
                if d is True:
                    continue
                try:
                    w.move_to(a, *args)
                    bad.append(f'move_to{args} accepted')
                except IndexError:
                    pass
    return bad


# ----------------------------------------------------------------------------------------------------------------------
# E5  falsy / truthy wrap flags, falsy ids, str-subclass ids, falsy agents, subclasses of the package's classes
# ----------------------------------------------------------------------------------------------------------------------

class _HashOnlyStr(str):
    """a str subclass id"""


class _EmptyAgent(Agent):
    """falsy agent: len(agent) == 0 -> bool(agent) is False while it has no components"""
    def __bool__(self):
        return False


class _MyGrid(GridWorld):
    pass


class _MySpace(SpaceWorld):
    def __init__(self, model):
        super().__init__(model, 4.0, 4.0, wrap_env=True)


@experiment('E5  falsy/truthy wrap flags, falsy & str-subclass ids, falsy agents, subclasses of worlds')
def e5():
    bad = []
    for flag, wraps in ((0, False), ('', False), (None, False), ([], False), (1, True), ('x', True), ([0], True)):
        w = LineWorld(Model(), 4, wrap_env=flag)
        a = Agent('a', w.model)
        w.add_agent(a, 3)
        w.move(a, 2)
        if a[P].x != (1 if wraps else 3):
            bad.append(f'wrap_env={flag!r}: 3+2 in width 4 -> {a[P].x}')
    w = _MyGrid(Model(), 3, 3, wrap_env=True)
    ids = [0, '', _HashOnlyStr('s'), 's2', False and 1, None, (), 0.5]
    agents = []
    for i in ids:
        ag = _EmptyAgent(i, w.model)
        try:
            w.add_agent(ag, 2, 2)
            agents.append(ag)
        except Exception as e:
            if i in (0, False) and any(x.id == 0 for x in agents):
                continue  # False == 0: legitimately a duplicate id
            bad.append(f'id {i!r}: add_agent raised {type(e).__name__}')
    for k, ag in enumerate(agents):
        w.move(ag, k, -k)
        if ag[P].xyz() != ((2 + k) % 3, (2 - k) % 3, 0):
            bad.append(f'id {ag.id!r}: wrong position {ag[P].xyz()}')
    for ag in agents:
        w.remove_agent(ag.id)
        if P in ag:
            bad.append(f'id {ag.id!r}: position kept after remove')
    if len(w) != 0:
        bad.append('agents left in the world')
    w = _MySpace(Model())
    a = Agent('a', w.model)
    w.add_agent(a, 4.0, 0.0)
    w.move(a, 0.5, -0.5)
    if a[P].xyz() != (0.5, 3.5, 0):
        bad.append(f'SpaceWorld subclass: {a[P].xyz()}')
    return bad


# ----------------------------------------------------------------------------------------------------------------------
# E6  several worlds / models alive at once do not share state; world not model.environment; replaced env;
#     model None; completed model; wrap flag flipped
# ----------------------------------------------------------------------------------------------------------------------

@experiment('E6  several models/worlds alive at once, world != model.environment, replaced env, completed model')
def e6():
    bad = []
    m1, m2 = Model(), Model()
    worlds = [GridWorld(m1, 3, 3), GridWorld(m1, 9, 9, id='second', wrap_env=True), LineWorld(m2, 5),
              SpaceWorld(m2, 2.5, 2.5, wrap_env=True), DiscreteWorld(m2, 2, 2, 2)]
    m1.set_environment(worlds[1])
    ags = []
    for i, w in enumerate(worlds):
        a = Agent('same-id', w.model)
        w.add_agent(a, 1, 0 if i == 2 else 1)
        ags.append(a)
    m1.set_environment(worlds[0])          # replace the environment afterwards
    m2.complete()                          # completed model
    for w, a in zip(worlds, ags):
        w.move(a, 7, 7)
    exp = [(2, 2, 0), (8, 8, 0), (4, 0, 0), (0.5, 0.5, 0), (1, 1, 0)]
    for w, a, e in zip(worlds, ags, exp):
        if a[P].xyz() != e:
            bad.append(f'{type(w).__name__}: {a[P].xyz()} expected {e}')
    w = SpaceWorld(None, 5, 5)             # no model at all
    a = Agent('a', None)
    w.add_agent(a, 1.0, 1.0)
    w.move(a, 9.0, -9.0)
    if a[P].xy() != (5, 0):
        bad.append(f'model None: {a[P].xy()}')
    w.remove_agent('a')
    if P in a:
        bad.append('model None: position kept')
    w = GridWorld(Model(), 3, 3, wrap_env=True)   # flag flipped between moves
    a = Agent('a', w.model)
    w.add_agent(a, 2, 2)
    w.move(a, 5, 5)
    w.wrap_env = False
    w.move(a, 5, -5)
    if a[P].xy() != (2, 0):
        bad.append(f'flipped wrap flag: {a[P].xy()}')
    return bad


# ----------------------------------------------------------------------------------------------------------------------
# E7  operations issued from inside a running timestep
# ----------------------------------------------------------------------------------------------------------------------

class _Mover(System):
    def __init__(self, model, world, log):
        super().__init__('mover', model)
        self.world, self.log = world, log

    def execute(self):
        t = self.model.timestep
        for a in list(self.world):
            self.world.move(a, 2, -1)
        if t == 1:
            self.world.remove_agent('a0')
        if t == 2:
            self.world.add_agent(Agent('late', self.model), 0, 2)
            try:
                self.world.move_to(self.world.get_agent('a1'), 3, 0)
            except IndexError:
                self.log.append('rejected')
        self.log.append(sorted((a.id, a[P].xyz()) for a in self.world))


@experiment('E7  add/move/move_to/remove issued by a System while the timestep is running')
def e7():
    bad = []
    for wrap in (False, True):
        m = Model()
        w = GridWorld(m, 3, 3, wrap_env=wrap)
        m.set_environment(w)
        for i in range(3):
            w.add_agent(Agent(f'a{i}', m), i, i)
        log = []
        m.systems.add_system(_Mover(m, w, log))
        m.execute(4)
        ref = {f'a{i}': (i, i) for i in range(3)}
        exp_log = []
        for t in range(4):
            for k in ref:
                x, y = ref[k]
                ref[k] = ((x + 2) % 3, (y - 1) % 3) if wrap else (min(x + 2, 2), max(y - 1, 0))
            if t == 1:
                del ref['a0']
            if t == 2:
                ref['late'] = (0, 2)
                exp_log.append('rejected')
            exp_log.append(sorted((k, (v[0], v[1], 0)) for k, v in ref.items()))
        if log != exp_log:
            bad.append(f'wrap={wrap}: log {log} expected {exp_log}')
    return bad


# ----------------------------------------------------------------------------------------------------------------------
# E8  deepcopy / pickle round trips give independent worlds with the same semantics
# ----------------------------------------------------------------------------------------------------------------------

@experiment('E8  deepcopy and pickle round trip of a populated world (offset, wrap flag, positions survive)')
def e8():
    bad = []
    for wrap in (False, True):
        w = GridWorld(Model(), 5, 5, wrap_env=wrap)
        a = Agent('a', w.model)
        w.add_agent(a, 1, 1)
        for clone in (copy.deepcopy(w), pickle.loads(pickle.dumps(w))):
            c = clone.agents['a']
            clone.move(c, 7, -7)
            if c[P].xy() != (((1 + 7) % 5, (1 - 7) % 5) if wrap else (4, 0)):
                bad.append(f'clone wrap={wrap}: {c[P].xy()}')
            try:
                clone.move_to(c, 5, 0)
                bad.append('clone accepts x == width')
            except IndexError:
                pass
        if a[P].xy() != (1, 1):
            bad.append('original disturbed by its clones')
    return bad


# ----------------------------------------------------------------------------------------------------------------------
# E9  real multiprocessing: the same spatial model gives the same in-world trajectories with 1 and 3 processes
# ----------------------------------------------------------------------------------------------------------------------

class _PosCollector(Collector):
    def __init__(self, model):
        super().__init__('pos', model)
        self.records = []

    def collect(self):
        self.records.append(tuple(a[P].xyz() for a in self.model.environment))


class _Walk(System):
    def __init__(self, model):
        super().__init__('walk', model, priority=5)

    def execute(self):
        env = self.model.environment
        for a in list(env):
            env.move(a, self.model.random.randint(-9, 9), self.model.random.randint(-9, 9))
        if self.model.timestep == 7:
            self.model.complete()


class WalkModel(Model):
    def __init__(self, size, wrap, seed):
        super().__init__(seed=seed)
        self.set_environment(GridWorld(self, size, size, wrap_env=wrap))
        for i in range(4):
            self.environment.add_agent(Agent(i, self), i % size, 0)
        self.systems.add_system(_Walk(self))
        self.systems.add_system(_PosCollector(self))


def _alarm(signum, frame):
    raise TimeoutError('multiprocessing experiment timed out')


@experiment('E9  batch_run with processes=3 vs processes=1 (60 s alarm): same trajectories, all inside the world')
def e9():
    bad = []
    params = {'size': [1, 4], 'wrap': [False, True], 'seed': [1, 2]}
    signal.signal(signal.SIGALRM, _alarm)
    signal.alarm(60)
    try:
        seq = batch_run(WalkModel, params, collectors='pos', processes=1)
        par = batch_run(WalkModel, params, collectors='pos', processes=3)
    finally:
        signal.alarm(0)
    if sorted(map(repr, seq)) != sorted(map(repr, par)) or len(seq) != 8:
        bad.append('parallel and sequential runs differ')
    sizes = [1, 1, 1, 1, 4, 4, 4, 4]
    for rec, size in zip(seq, sizes):
        for snapshot in rec:
            for (x, y, z) in snapshot:
                if not (0 <= x < size and 0 <= y < size):
                    bad.append(f'size {size}: agent at {(x, y, z)}')
    return bad


# ----------------------------------------------------------------------------------------------------------------------
# E10  rejected operations change nothing (single world)
# ----------------------------------------------------------------------------------------------------------------------

@experiment('E10 rejected operations in one world (duplicate id, out of range, unknown id, unplaced agent) change nothing')
def e10():
    bad = []
    for kind, ext in (('space', (3.0, 3.0, 0)), ('grid', (3, 3, 0)), ('line', (3, 0, 0)), ('disc', (3, 3, 3))):
        for wrap in (False, True):
            w, off = make_world(kind, ext, wrap)
            a, b = Agent('a', w.model), Agent('b', w.model)
            w.add_agent(a, 1, 0)
            w.add_agent(b, 2, 0)
            snap = (dict(w.agents), positions(w.agents), dict(w.model.systems.component_pools))
            attempts = [
                lambda: w.add_agent(Agent('a', w.model), 0, 0),          # duplicate id, other object
                lambda: w.add_agent(a, 0, 0),                              # same object again
                lambda: w.add_agent(Agent('c', w.model), 4, 0),          # out of range
                lambda: w.add_agent(Agent('c', w.model), -1, 0),
                lambda: w.move_to(a, 4, 0),
                lambda: w.move_to(a, 0, 0, 0) if False else w.move_to(a, -1),
                lambda: w.remove_agent('zzz'),
                lambda: w.move(Agent('ghost', w.model), 1),               # never placed
                lambda: w.move_to(Agent('ghost', w.model), 1),
            ]
            for i, attempt in enumerate(attempts):
                try:
                    attempt()
                    bad.append(f'{kind} wrap={wrap}: attempt #{i} was not rejected')
                except Exception:
                    pass
                if (dict(w.agents), positions(w.agents), dict(w.model.systems.component_pools)) != snap:
                    bad.append(f'{kind} wrap={wrap}: rejected attempt #{i} changed something')
            w.remove_agent('a')
            for call in (lambda: w.move(a, 1), lambda: w.move_to(a, 1)):
                try:
                    call()
                    bad.append(f'{kind}: an agent that left the world can still be moved')
                except Exception:
                    pass
            if P in a:
                bad.append(f'{kind}: position not dropped')
            w.add_agent(a, 0, 2 if ext[1] else 0)                          # re-entering works and is exact
            if a[P].xyz() != (0, 2 if ext[1] else 0, 0):
                bad.append(f'{kind}: re-entry position {a[P].xyz()}')
    return bad


# ----------------------------------------------------------------------------------------------------------------------
# E14  VIOLATION: a rejected placement of an agent that already carries a position half-completes
# ----------------------------------------------------------------------------------------------------------------------

@experiment('E14 rejected placement must change nothing: agent that already has a position offered to a 2nd world')
def e14():
    bad = []
    for same_model in (True, False):
        m = Model()
        big = GridWorld(m, 10, 10)
        small = GridWorld(m if same_model else Model(), 3, 3, id='small')
        a = Agent('a', m)
        big.add_agent(a, 9, 9)
        try:
            small.add_agent(a, 1, 1)
            bad.append('second placement was accepted?!')
        except Exception as e:
            err = type(e).__name__
            if 'a' in small.agents:
                bad.append(f'big=GridWorld(m,10,10); small=GridWorld({"m" if same_model else "Model()"},3,3); '
                           f'big.add_agent(a,9,9); small.add_agent(a,1,1) raises {err} (rejected) BUT a is now a '
                           f'member of small (len(small)={len(small)}) at {a[P].xyz()}, outside 0..2; '
                           f'small.get_agents_at(9,9) -> {[x.id for x in small.get_agents_at(9, 9)]}')
            if same_model and m.systems.component_pools:
                bad.append(f'   ... and the rejected call registered {list(m.systems.component_pools)} with '
                           f'model.systems')
    # same thing without a second world: the agent carries a PositionComponent of its own
    m = Model()
    w = SpaceWorld(m, 3.0, 3.0)
    a = Agent('a', m)
    a.add_component(P(a, m, 99.0, -5.0, 0.0))
    try:
        w.add_agent(a, 1.0, 1.0)
    except Exception as e:
        if 'a' in w.agents:
            bad.append(f'a.add_component(PositionComponent(a,m,99.,-5.)); SpaceWorld(m,3.,3.).add_agent(a,1.,1.) '
                       f'raises {type(e).__name__} but a stays in the world at {a[P].xyz()}')
    return bad


# ----------------------------------------------------------------------------------------------------------------------
# E15  VIOLATION (degenerate magnitudes): float overflow in the wrapping branch produces NaN
# ----------------------------------------------------------------------------------------------------------------------

@experiment('E15 wrapping continuous world, finite arguments whose sum overflows: coordinate becomes NaN')
def e15():
    bad = []
    w = SpaceWorld(Model(), 1.5e308, wrap_env=True)
    a = Agent('a', w.model)
    w.add_agent(a, 1e308)
    with warnings.catch_warnings():
        warnings.simplefilter('ignore')
        w.move(a, 1e308)
    x = a[P].x
    if not (0 <= x <= 1.5e308):
        bad.append(f'SpaceWorld(m,1.5e308,wrap_env=True); add_agent(a,1e308); move(a,1e308) -> x={x!r}; the exact '
                   f'answer 2e308 mod 1.5e308 = 5e307 is representable; the non-wrapping twin saturates correctly')
    w = SpaceWorld(Model(), 1.5e308, wrap_env=False)
    a = Agent('a', w.model)
    w.add_agent(a, 1e308)
    w.move(a, 1e308)
    if a[P].x != 1.5e308:
        bad.append(f'non-wrapping twin: {a[P].x!r}')
    return bad


# ----------------------------------------------------------------------------------------------------------------------
# NOTES: observed, but outside the stated scope or unspecified -> not counted
# ----------------------------------------------------------------------------------------------------------------------

@experiment('N1  fixed-width numpy integers as coordinates/deltas overflow inside numpy', kind='NOTE')
def n1():
    import numpy as np
    out = []
    w = GridWorld(Model(), 200, 200)
    a = Agent('a', w.model)
    w.add_agent(a, 100, 100)
    with warnings.catch_warnings():
        warnings.simplefilter('ignore')
        w.move(a, np.int8(100), np.int64(2 ** 63 - 1))
    if a[P].xy() != (199, 199):
        out.append(f'GridWorld(200,200) at (100,100): move(np.int8(100), np.int64(2**63-1)) -> {a[P].xy()} instead of '
                   f'(199,199): numpy wraps around before the world saturates (fixed-width arithmetic is the '
                   f"caller's choice; the property speaks about integers)")
    w.move_to(a, np.int64(5), 5)
    try:
        w.move(a, 10 ** 30, 0)
    except OverflowError as e:
        out.append(f'after move_to(np.int64(5), 5): move(10**30) raises OverflowError ({e}); nothing changed: '
                   f'{a[P].xy()}')
    return out


@experiment('N2  axes of extent 0: non-wrapping move resets the coordinate to 0, wrapping move ignores the delta',
            kind='NOTE')
def n2():
    out = []
    for wrap in (False, True):
        w = DiscreteWorld(Model(), 0, 3, 0, wrap_env=wrap)
        a = Agent('a', w.model)
        w.add_agent(a, 7, 2, -4)
        w.move(a, 1, 0, 1)
        out.append(f'DiscreteWorld(0,3,0,wrap={wrap}): (7,2,-4) move(1,0,1) -> {a[P].xyz()} '
                   f'(the property only constrains axes of positive extent)')
    return out


class _C(Component):
    pass


@experiment('N3  half-completed add/remove caused by component (de)registration errors of the base Environment',
            kind='NOTE')
def n3():
    out = []
    m = Model()
    w = GridWorld(m, 5, 5)
    a = Agent('a', m)
    w.add_agent(a, 1, 1)
    a.add_component(_C(a, m))          # added after entering, never registered
    try:
        w.remove_agent('a')
    except KeyError:
        out.append(f'component added after placement: remove_agent raises KeyError, agent still in world='
                   f'{"a" in w.agents} but position dropped={P not in a} (involves user components: out of scope)')
    m = Model()
    a = Agent('a', m)
    a.add_component(_C(a, m))
    m.environment.add_agent(a)          # the default void environment
    w = GridWorld(m, 5, 5)
    try:
        w.add_agent(a, 1, 1)
    except KeyError:
        out.append(f'agent already in model.environment: world.add_agent raises KeyError, in world={"a" in w.agents}, '
                   f'has position={P in a} (two environments + user components: out of scope)')
    return out


@experiment('N4  a world moves any agent that has a position, also one that lives in another world', kind='NOTE')
def n4():
    out = []
    m = Model()
    small, big = GridWorld(m, 3, 3), GridWorld(m, 100, 100, id='big')
    a = Agent('a', m)
    small.add_agent(a, 1, 1)
    big.move(a, 50, 50)
    if a[P].xy() != (1, 1):
        out.append(f'small=GridWorld(3,3) holds a at (1,1); big.move(a,50,50) -> {a[P].xy()} (caller addressed the '
                   f'wrong world: unspecified)')
    return out


@experiment('N5  Python ints too large for a float in a continuous world half-complete a move', kind='NOTE')
def n5():
    out = []
    w = SpaceWorld(Model(), 10.0, 10.0, wrap_env=True)
    a = Agent('a', w.model)
    w.add_agent(a, 5.0, 5.0)
    try:
        w.move(a, 1.0, 10 ** 400)
    except OverflowError:
        out.append(f'move(a, 1.0, 10**400) raises OverflowError after x was already updated: {a[P].xy()} '
                   f'(continuous worlds are specified for finite floats only: out of scope)')
    return out


if __name__ == '__main__':
    print()
    print(f'{len(VIOLATIONS)} violation(s) in scope, {len(NOTES)} note(s) out of scope')
    for v in VIOLATIONS:
        print('  VIOLATION:', v)
    sys.exit(1 if VIOLATIONS else 0)
