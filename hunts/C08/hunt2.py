"""Second-pass bug hunt for the property

    "Agents stay inside the world; moves are exactly modular or saturating"

Run with:  cd /tmp/wt-C08-i && PYTHONPATH=/tmp/wt-C08-i /venv/bin/python hunt.py

Public API only.  Every experiment prints OK, or the violations it found.  Lines starting with NOTE describe
behaviour that is outside the stated scope / unspecified and are NOT counted.  Exit status 1 iff at least one
genuine in-scope violation was found.
"""
import copy
import hashlib
import math
import os
import pickle
import random
import subprocess
import sys

import numpy as np

from ECAgent.Core import Agent, Component, Model, System, ComponentNotFoundError, DuplicateAgentError, \
    AgentNotFoundError
from ECAgent.Environments import SpaceWorld, DiscreteWorld, LineWorld, GridWorld, PositionComponent

VIOLATIONS = []
NOTES = []


def report(name, problems):
    if problems:
        print(f'[{name}] VIOLATION(S):')
        for p in problems[:8]:
            print('    ' + p)
        if len(problems) > 8:
            print(f'    ... and {len(problems) - 8} more')
        VIOLATIONS.extend((name, p) for p in problems)
    else:
        print(f'[{name}] OK')


def note(text):
    NOTES.append(text)
    print('NOTE (not counted): ' + text)


# ----------------------------------------------------------------------------------------------------------------------
# Independent reference model
# ----------------------------------------------------------------------------------------------------------------------

class Ref:
    """Straight transcription of the property statement.  Axes of extent 0 are 'absent': the statement says nothing
    about them (modulo 0 is undefined, there are no edges), so the reference adopts whatever the package did there
    (``sync_free_axes``) and only checks the axes of positive extent."""

    def __init__(self, grid, dims, wrap):
        self.grid, self.dims, self.wrap = grid, dims, wrap
        self.pos = {}

    def hi(self, i):
        return self.dims[i] - (1 if self.grid else 0)

    def inside(self, p):
        return all(self.dims[i] <= 0 or 0 <= p[i] <= self.hi(i) for i in range(3))

    def add(self, aid, p):
        if aid in self.pos:
            # a duplicate placement is rejected either way; which of the two errors wins is not specified
            return 'dup' if self.inside(p) else 'dup|reject'
        if not self.inside(p):
            return 'reject'
        self.pos[aid] = list(p)
        return 'ok'

    def move(self, aid, d):
        if aid not in self.pos:
            return 'nocomp'
        cur = self.pos[aid]
        for i in range(3):
            if self.dims[i] > 0:
                if self.wrap:
                    cur[i] = (cur[i] + d[i]) % self.dims[i]
                else:
                    s = cur[i] + d[i]
                    cur[i] = 0 if s < 0 else (self.hi(i) if s > self.hi(i) else s)
        return 'ok'

    def move_to(self, aid, p):
        if aid not in self.pos:
            return 'nocomp'
        if not self.inside(p):
            return 'reject'
        self.pos[aid] = list(p)
        return 'ok'

    def remove(self, aid):
        if aid not in self.pos:
            return 'missing'
        del self.pos[aid]
        return 'ok'


def make_world(kind, model, dims, wrap, wid='ENVIRONMENT'):
    if kind == 'cont':
        return SpaceWorld(model, dims[0], dims[1], dims[2], id=wid, wrap_env=wrap)
    if kind == 'grid3':
        return DiscreteWorld(model, dims[0], dims[1], dims[2], id=wid, wrap_env=wrap)
    if kind == 'line':
        return LineWorld(model, dims[0], id=wid, wrap_env=wrap)
    if kind == 'grid2':
        return GridWorld(model, dims[0], dims[1], id=wid, wrap_env=wrap)
    raise ValueError(kind)


def same(a, b):
    """Exact numeric equality (NaN never equal)."""
    return a == b


def check_state(env, ref, agents, where):
    """Compares the whole observable state of the world against the reference."""
    out = []
    if list(env.agents.keys()) != list(ref.pos.keys()):
        out.append(f'{where}: residents {list(env.agents.keys())} != expected {list(ref.pos.keys())}')
        return out
    for aid, agent in agents.items():
        has = PositionComponent in agent
        if aid in ref.pos:
            if not has:
                out.append(f'{where}: resident {aid!r} has no PositionComponent')
                continue
            got = agent[PositionComponent].xyz()
            for i, axis in enumerate('xyz'):
                if ref.dims[i] > 0:
                    if not same(got[i], ref.pos[aid][i]):
                        out.append(f'{where}: agent {aid!r} {axis}={got[i]!r} expected {ref.pos[aid][i]!r}')
                    if not (0 <= got[i] <= ref.hi(i)):
                        out.append(f'{where}: agent {aid!r} {axis}={got[i]!r} outside 0..{ref.hi(i)}')
                    if ref.grid and (isinstance(got[i], float) or not float(got[i]).is_integer()):
                        out.append(f'{where}: agent {aid!r} {axis}={got[i]!r} is not an integer cell')
                else:
                    ref.pos[aid][i] = got[i]  # extent-0 axis: unspecified, adopt
        elif has:
            out.append(f'{where}: non-resident {aid!r} still carries a PositionComponent {agent[PositionComponent].xyz()}')
    return out


def apply_op(env, ref, agents, op):
    """Applies op to both implementations, returns (problems, description)."""
    kind, aid, vec = op
    agent = agents[aid]
    out = []
    if kind == 'add':
        expected = ref.add(aid, vec)
        try:
            env.add_agent(agent, *vec)
            got = 'ok'
        except DuplicateAgentError:
            got = 'dup'
        except Exception as e:  # the package raises a bare Exception for out-of-world placements
            got = 'reject' if type(e) is Exception else f'{type(e).__name__}: {e}'
    elif kind == 'move':
        expected = ref.move(aid, vec)
        try:
            env.move(agent, *vec)
            got = 'ok'
        except ComponentNotFoundError:
            got = 'nocomp'
        except Exception as e:
            got = f'{type(e).__name__}: {e}'
    elif kind == 'move_to':
        expected = ref.move_to(aid, vec)
        try:
            env.move_to(agent, *vec)
            got = 'ok'
        except ComponentNotFoundError:
            got = 'nocomp'
        except IndexError:
            got = 'reject'
        except Exception as e:
            got = f'{type(e).__name__}: {e}'
    else:
        expected = ref.remove(aid)
        try:
            env.remove_agent(aid)
            got = 'ok'
        except AgentNotFoundError:
            got = 'missing'
        except Exception as e:
            got = f'{type(e).__name__}: {e}'
    if got not in expected.split('|'):
        out.append(f'{op}: outcome {got!r}, expected {expected!r}')
    return out


INT_POOL = [0, 1, 2, 3, -1, -2, 5, 6, 7, 8, -7, -8, 13, 10 ** 6, -10 ** 6, 2 ** 70, -2 ** 70 + 1, True, False]


def int_value(rng, extent):
    r = rng.random()
    if r < 0.45 and extent > 0:
        return rng.choice([0, extent - 1, extent, extent + 1, -1, extent // 2, -extent, -extent - 1, 2 * extent,
                           2 * extent - 1, -2 * extent])
    if r < 0.55:
        return 0
    return rng.choice(INT_POOL)


FLOAT_POOL = [0.0, -0.0, 0.5, 1.0, -1.0, 1.5, -1.5, 1e-300, -1e-300, 5e-324, -5e-324, 1e-17, -1e-17, 0.1, -0.1, 0.3,
              1e6, -1e6, 1e17 + 2, -1e17, 1e308, -1e308, 1.7976931348623157e308, -1.7976931348623157e308, 3, -3, 7]


def float_value(rng, extent):
    r = rng.random()
    if r < 0.4 and extent > 0:
        e = float(extent)
        return rng.choice([0.0, e, e / 2, math.nextafter(e, math.inf), math.nextafter(e, 0.0), -e, 2 * e, -2 * e,
                           math.nextafter(0.0, -1.0), e + 1e-9, e - 1e-9, -1e-9, e * 0.1, e * 0.7, -e * 0.3, 3 * e])
    if r < 0.5:
        return rng.uniform(-3 * (extent or 1), 3 * (extent or 1))
    return rng.choice(FLOAT_POOL)


def run_history(kind, dims, wrap, seed, steps=120, n_agents=4, digest=None):
    rng = random.Random(seed)
    grid = kind != 'cont'
    model = Model()
    env = make_world(kind, model, dims, wrap)
    ref = Ref(grid, dims, wrap)
    agents = {f'a{i}': Agent(f'a{i}', model) for i in range(n_agents)}
    value = int_value if grid else float_value
    problems = []
    trace = []
    for step in range(steps):
        aid = rng.choice(list(agents))
        resident = aid in ref.pos
        r = rng.random()
        if not resident:
            k = 'add' if r < 0.8 else rng.choice(['move', 'move_to', 'remove'])
        else:
            k = 'move' if r < 0.5 else 'move_to' if r < 0.8 else 'remove' if r < 0.9 else 'add'
        vec = tuple(value(rng, dims[i]) for i in range(3))
        if k == 'remove':
            vec = ()
        op = (k, aid, vec)
        trace.append(op)
        where = f'{kind} dims={dims} wrap={wrap} seed={seed} step={step} op={op}'
        problems += [f'{where}: {p}' for p in apply_op(env, ref, agents, op)]
        problems += check_state(env, ref, agents, where)
        if problems:
            break
    if digest is not None:
        digest.update(repr([(a, agents[a][PositionComponent].xyz() if PositionComponent in agents[a] else None)
                            for a in agents]).encode())
    return problems


def world_configs():
    cfgs = []
    for w in (0, 1, 2, 3, 7):
        for h in (0, 1, 2, 5):
            for d in (0, 1, 3):
                cfgs.append(('grid3', (w, h, d)))
    for w in (1, 2, 3, 8):
        cfgs.append(('line', (w, 0, 0)))
        for h in (1, 2, 5):
            cfgs.append(('grid2', (w, h, 0)))
    for w in (0, 1, 1.0, 1.5, 2, 7.25, 10.0, 1e6):
        for h in (0, 0.0, 1.0, 3, 2.5):
            for d in (0, 1, 4.5):
                cfgs.append(('cont', (w, h, d)))
    return cfgs


# ----------------------------------------------------------------------------------------------------------------------
# Experiments
# ----------------------------------------------------------------------------------------------------------------------

def exp_differential(seeds=3, digest=None):
    problems = []
    for kind, dims in world_configs():
        for wrap in (False, True):
            for seed in range(seeds):
                problems += run_history(kind, dims, wrap, seed, digest=digest)
                if len(problems) > 20:
                    return problems
    return problems


def exp_boundaries_exhaustive():
    """Exhaustive small-world check: every (old, delta) pair in a grid world and every placement / move_to."""
    problems = []
    for kind, dims in (('line', (1, 0, 0)), ('line', (4, 0, 0)), ('grid2', (3, 2, 0)), ('grid3', (2, 3, 2)),
                       ('grid3', (1, 1, 1)), ('grid3', (0, 3, 0)), ('grid3', (0, 0, 2))):
        for wrap in (False, True):
            for axis in range(3):
                ext = dims[axis]
                if ext <= 0:
                    continue
                for old in range(ext):
                    for delta in list(range(-3 * ext - 1, 3 * ext + 2)) + [10 ** 9 + 7, -(10 ** 9 + 7), 2 ** 64, -2 ** 64]:
                        model = Model()
                        env = make_world(kind, model, dims, wrap)
                        a = Agent('a', model)
                        p = [0, 0, 0]
                        p[axis] = old
                        env.add_agent(a, *p)
                        d = [0, 0, 0]
                        d[axis] = delta
                        env.move(a, *d)
                        got = a[PositionComponent].xyz()
                        want = list(p)
                        want[axis] = (old + delta) % ext if wrap else max(0, min(ext - 1, old + delta))
                        if list(got) != want or any(type(g) is not int for g in got):
                            problems.append(f'{kind}{dims} wrap={wrap}: add{tuple(p)} move{tuple(d)} -> {got}, '
                                            f'expected {tuple(want)}')
                for target in list(range(-2, ext + 3)) + [10 ** 12, -10 ** 12]:
                    for via in ('add', 'move_to'):
                        model = Model()
                        env = make_world(kind, model, dims, wrap)
                        a = Agent('a', model)
                        p = [0, 0, 0]
                        p[axis] = target
                        ok = 0 <= target <= ext - 1
                        try:
                            if via == 'add':
                                env.add_agent(a, *p)
                            else:
                                env.add_agent(a)
                                env.move_to(a, *p)
                            accepted = True
                        except (IndexError, Exception) as e:
                            accepted = False
                        if accepted != ok:
                            problems.append(f'{kind}{dims} wrap={wrap}: {via}{tuple(p)} accepted={accepted}, expected {ok}')
                        elif accepted and list(a[PositionComponent].xyz()) != p:
                            problems.append(f'{kind}{dims} wrap={wrap}: {via}{tuple(p)} landed at {a[PositionComponent].xyz()}')
                        elif not accepted:
                            if via == 'add' and ('a' in env.agents or PositionComponent in a or len(a.components)):
                                problems.append(f'{kind}{dims} wrap={wrap}: rejected add{tuple(p)} left traces')
                            if via == 'move_to' and a[PositionComponent].xyz() != (0, 0, 0):
                                problems.append(f'{kind}{dims} wrap={wrap}: rejected move_to{tuple(p)} changed position')
    return problems


def exp_continuous_edges():
    """Hand-picked float edge cases in continuous worlds (extent < 1e300)."""
    problems = []
    big = 1.7976931348623157e308
    for ext in (1, 1.0, 1.5, 10, 10.0, 7.25, 1e6, 1e15, 3):
        for wrap in (False, True):
            for old in (0, 0.0, -0.0, ext, ext / 2, math.nextafter(float(ext), 0.0), 5e-324, ext * 0.1):
                for delta in (0, 0.0, -0.0, 5e-324, -5e-324, 1e-20, -1e-20, ext, -ext, 2 * ext, -2 * ext, ext / 3,
                              -ext / 3, 1e17, -1e17, 1e308, -1e308, big, -big, 0.1, -0.1, 1, -1, 10 ** 30, -10 ** 30):
                    model = Model()
                    env = SpaceWorld(model, ext, ext, ext, wrap_env=wrap)
                    a, b = Agent('a', model), Agent('b', model)
                    env.add_agent(a, old, old, old)
                    env.add_agent(b, ext / 4, ext / 4, ext / 4)
                    env.move(a, delta, 0, -delta if delta else 0)
                    got = a[PositionComponent].xyz()
                    wants = []
                    for dl, o in ((delta, old), (0, old), (-delta if delta else 0, old)):
                        s = o + dl
                        wants.append(s % ext if wrap else (0 if s < 0 else ext if s > ext else s))
                    for g, w, axis in zip(got, wants, 'xyz'):
                        if not (g == w) or not (0 <= g <= ext):
                            problems.append(f'SpaceWorld({ext!r} cubed, wrap={wrap}): add at {old!r}, move delta '
                                            f'{delta!r} on {axis}: got {g!r}, expected {w!r} within 0..{ext!r}')
                    if b[PositionComponent].xyz() != (ext / 4, ext / 4, ext / 4):
                        problems.append(f'bystander moved: ext={ext} wrap={wrap}')
            # placements / absolute moves
            for target, ok in ((0, True), (-0.0, True), (ext, True), (math.nextafter(float(ext), math.inf), False),
                               (-5e-324, False), (ext + 1, False), (-1, False), (big, False), (-big, False),
                               (ext / 2, True), (math.nextafter(float(ext), 0.0), True)):
                for via in ('add', 'move_to'):
                    for axis in range(3):
                        model = Model()
                        env = SpaceWorld(model, ext, ext, ext, wrap_env=wrap)
                        a = Agent('a', model)
                        p = [ext / 2, ext / 2, ext / 2]
                        p[axis] = target
                        try:
                            if via == 'add':
                                env.add_agent(a, *p)
                            else:
                                env.add_agent(a, 0.25, 0.5, 0.75)
                                env.move_to(a, *p)
                            accepted = True
                        except Exception:
                            accepted = False
                        if accepted != ok:
                            problems.append(f'SpaceWorld({ext!r}^3, wrap={wrap}) {via}{tuple(p)}: accepted={accepted}, '
                                            f'expected {ok}')
                        elif accepted and a[PositionComponent].xyz() != tuple(p):
                            problems.append(f'SpaceWorld({ext!r}^3) {via}{tuple(p)} landed {a[PositionComponent].xyz()}')
                        elif not accepted and via == 'add' and ('a' in env.agents or len(a.components)):
                            problems.append(f'SpaceWorld({ext!r}^3) rejected add{tuple(p)} left traces')
                        elif not accepted and via == 'move_to' and a[PositionComponent].xyz() != (0.25, 0.5, 0.75):
                            problems.append(f'SpaceWorld({ext!r}^3) rejected move_to{tuple(p)} changed the position')
    return problems


def exp_rejections_change_nothing():
    problems = []
    for kind, dims in (('cont', (10.0, 5.0, 2.0)), ('grid3', (4, 3, 2)), ('grid2', (4, 3, 0)), ('line', (4, 0, 0))):
        for wrap in (False, True):
            model = Model()
            env = make_world(kind, model, dims, wrap)
            a, b = Agent('a', model), Agent('b', model)
            env.add_agent(a, 1, 1 if dims[1] else 0, 1 if dims[2] else 0)
            comp = a[PositionComponent]
            before = comp.xyz()
            pools = {k: list(v) for k, v in model.systems.component_pools.items()}
            # (1) x good / y bad / z bad permutations: no axis may be committed before the rejection
            for bad in ((2, 99, 0), (2, 0, 99), (99, 0, 0), (2, -1, 0), (-1, 0, 0), (2, 0, -1)):
                if all(dims[i] == 0 or 0 <= bad[i] <= dims[i] - (kind != 'cont') for i in range(3)):
                    continue  # not actually bad in this world (absent axis)
                try:
                    env.move_to(a, *bad)
                    problems.append(f'{kind}{dims}: move_to{bad} accepted')
                except IndexError:
                    pass
                if a[PositionComponent] is not comp or comp.xyz() != before:
                    problems.append(f'{kind}{dims}: rejected move_to{bad} changed position to {comp.xyz()}')
                try:
                    env.add_agent(b, *bad)
                    problems.append(f'{kind}{dims}: add_agent{bad} accepted')
                    env.remove_agent('b')
                except Exception as e:
                    if type(e) is not Exception:
                        problems.append(f'{kind}{dims}: add_agent{bad} raised {type(e).__name__}')
                if 'b' in env.agents or len(b.components) or list(env.agents) != ['a']:
                    problems.append(f'{kind}{dims}: rejected add_agent{bad} left traces')
            # (2) duplicates: same object and a different object with the same id
            twin = Agent('a', model)
            for dup in (a, twin):
                try:
                    env.add_agent(dup, 2, 0, 0)
                    problems.append(f'{kind}{dims}: duplicate add accepted')
                except DuplicateAgentError:
                    pass
                if a[PositionComponent] is not comp or comp.xyz() != before or len(twin.components) \
                        or env.agents['a'] is not a:
                    problems.append(f'{kind}{dims}: duplicate add changed something')
            if {k: list(v) for k, v in model.systems.component_pools.items()} != pools:
                problems.append(f'{kind}{dims}: component pools changed by rejected operations')
            # (3) operations on a non-resident change nothing
            for f in (env.move, env.move_to):
                try:
                    f(b, 1, 0, 0)
                    problems.append(f'{kind}{dims}: {f.__name__} on a non-resident did not raise')
                except ComponentNotFoundError:
                    pass
                if len(b.components) or 'b' in env.agents:
                    problems.append(f'{kind}{dims}: {f.__name__} on a non-resident changed something')
            try:
                env.remove_agent('b')
                problems.append('remove of unknown id did not raise')
            except AgentNotFoundError:
                pass
            if comp.xyz() != before or list(env.agents) != ['a']:
                problems.append('remove of unknown id changed something')
    return problems


def exp_leave_and_rejoin():
    problems = []
    for kind, dims in (('cont', (10.0, 5.0, 0)), ('grid3', (4, 3, 2)), ('grid2', (4, 3, 0)), ('line', (4, 0, 0))):
        for wrap in (False, True):
            model = Model()
            env = make_world(kind, model, dims, wrap)
            agents = [Agent(i, model) for i in ('', 0, 'x', None, 'y')]  # falsy ids are legal dict keys
            for n, a in enumerate(agents):
                env.add_agent(a, n % dims[0], 0, 0)
            for a in (agents[0], agents[1], agents[3]):
                old = a[PositionComponent]
                env.remove_agent(a.id)
                if PositionComponent in a or a.id in env.agents or a.components:
                    problems.append(f'{kind}: agent id={a.id!r} kept its position after leaving')
                if PositionComponent in model.systems.component_pools:
                    problems.append(f'{kind}: PositionComponent pool after removal')
                env.add_agent(a, 1 % dims[0], 0, 0)
                if a[PositionComponent] is old or a[PositionComponent].xyz() != (1 % dims[0], 0, 0):
                    problems.append(f'{kind}: agent id={a.id!r} rejoined with a stale position')
            for n, a in enumerate(agents):
                if n in (2, 4) and a[PositionComponent].xyz() != (n % dims[0], 0, 0):
                    problems.append(f'{kind}: bystander {a.id!r} disturbed: {a[PositionComponent].xyz()}')
            # the ordering of residents after rejoin is insertion order; everybody still inside
            for a in env:
                x = a[PositionComponent].x
                if not 0 <= x <= dims[0] - (kind != 'cont'):
                    problems.append(f'{kind}: {a.id!r} outside')
    return problems


def exp_number_types():
    """bool, numpy scalars (in range, so no numpy overflow), Fraction / Decimal-free: realistic types only."""
    problems = []
    # grid worlds with numpy integers and bools
    for wrap in (False, True):
        model = Model()
        env = GridWorld(model, 5, 4, wrap_env=wrap)
        a = Agent('a', model)
        env.add_agent(a, np.int64(4), np.int32(3))
        env.move(a, np.int64(3), np.int8(-5))
        want = ((4 + 3) % 5, (3 - 5) % 4) if wrap else (4, 0)
        if tuple(int(v) for v in a[PositionComponent].xy()) != want:
            problems.append(f'GridWorld(5,4,wrap={wrap}) numpy ints: got {a[PositionComponent].xy()}, expected {want}')
        env.move(a, True, False)
        want = ((want[0] + 1) % 5, want[1]) if wrap else (min(4, want[0] + 1), want[1])
        if tuple(int(v) for v in a[PositionComponent].xy()) != want:
            problems.append(f'GridWorld bool delta: got {a[PositionComponent].xy()}, expected {want}')
        for bad in (np.int64(5), np.int64(-1)):
            try:
                env.move_to(a, bad, 0)
                problems.append(f'GridWorld move_to({bad!r}) accepted')
            except IndexError:
                pass
            b = Agent('b', model)
            try:
                env.add_agent(b, 0, bad)
                problems.append(f'GridWorld add_agent(y={bad!r}) accepted' if bad != 5 or True else '')
            except Exception:
                pass
            if 'b' in env.agents or b.components:
                problems.append('rejected numpy placement left traces')
        env.move_to(a, True, np.int16(3))
        if a[PositionComponent].xy() != (1, 3):
            problems.append('move_to(True, int16(3)) did not land')
    # continuous worlds with numpy floats
    for wrap in (False, True):
        model = Model()
        env = SpaceWorld(model, np.float64(10.0), 5, 0, wrap_env=wrap)
        a = Agent('a', model)
        env.add_agent(a, np.float64(10.0), 2)
        env.move(a, np.float64(0.5), np.float64(-2.5))
        want = (0.5, 4.5) if wrap else (10.0, 0)
        if a[PositionComponent].xy() != want:
            problems.append(f'SpaceWorld numpy floats wrap={wrap}: got {a[PositionComponent].xy()}, expected {want}')
        env.move(a, np.float64(-1e-20), 0)  # tiny step over the seam
        x = a[PositionComponent].x
        if not 0 <= x <= 10.0:
            problems.append(f'SpaceWorld numpy tiny step: x={x!r}')
        try:
            env.move_to(a, np.nextafter(np.float64(10.0), np.inf), 0)
            problems.append('SpaceWorld move_to(nextafter(10)) accepted')
        except IndexError:
            pass
        # float32 world extents / deltas (value representable exactly)
        env2 = SpaceWorld(model, np.float32(8.0), np.float32(8.0), 0, id='w2', wrap_env=wrap)
        b = Agent('b', model)
        env2.add_agent(b, np.float32(7.5), 0.25)
        env2.move(b, np.float32(1.0), np.float32(-0.5))
        want = (0.5, 7.75) if wrap else (8.0, 0)
        if tuple(float(v) for v in b[PositionComponent].xy()) != want:
            problems.append(f'float32 world wrap={wrap}: got {b[PositionComponent].xy()}, expected {want}')
    return problems


def exp_negative_zero_and_seam():
    problems = []
    for ext in (1.0, 10.0, 3):
        model = Model()
        env = SpaceWorld(model, ext, ext, ext, wrap_env=True)
        a = Agent('a', model)
        env.add_agent(a, -0.0, 0.0, ext)
        for delta in (-0.0, 0.0, -ext, ext, -5e-324, 5e-324, -1e-300):
            env.move(a, delta, delta, delta)
            for v in a[PositionComponent].xyz():
                if not (0 <= v <= ext) or v != v:
                    problems.append(f'wrap world ext={ext}: after move {delta!r}: {a[PositionComponent].xyz()}')
    model = Model()
    env = SpaceWorld(model, 10.0, 10.0, 0, wrap_env=False)
    a = Agent('a', model)
    env.add_agent(a, -0.0, 10.0)
    env.move(a, -0.0, 0.0)
    if a[PositionComponent].xy() != (0, 10.0):
        problems.append(f'clamp world -0.0: {a[PositionComponent].xy()}')
    return problems


def exp_inside_timestep_and_complete():
    problems = []

    class Walker(System):
        def __init__(self, model, env, log):
            super().__init__('walker', model)
            self.env, self.log, self.n = env, log, 0

        def execute(self):
            rng = self.model.random
            for agent in list(self.env):
                dx, dy = rng.randint(-9, 9), rng.randint(-9, 9)
                old = agent[PositionComponent].xy()
                self.env.move(agent, dx, dy)
                self.log.append((agent.id, old, (dx, dy), agent[PositionComponent].xy()))
            # join and leave from inside the timestep
            self.n += 1
            new = Agent(f'n{self.n}', self.model)
            self.env.add_agent(new, self.n % 5, self.n % 4)
            if self.n % 3 == 0:
                victim = next(iter(self.env))
                self.env.remove_agent(victim.id)
                self.log.append(('left', victim))
            try:
                self.env.move_to(new, 5, 0)
                self.log.append(('accepted-bad', new.id))
            except IndexError:
                pass

    for wrap in (False, True):
        for standalone in (False, True):
            model = Model(seed=3)
            env = GridWorld(model, 5, 4, wrap_env=wrap)
            if not standalone:
                model.set_environment(env)
            log = []
            model.systems.add_system(Walker(model, env, log))
            for i in range(3):
                env.add_agent(Agent(f's{i}', model), i, i)
            model.execute(12)
            model.complete()
            model.execute(3)
            for rec in log:
                if rec[0] == 'left':
                    if PositionComponent in rec[1]:
                        problems.append('agent that left during a timestep kept its position')
                elif rec[0] == 'accepted-bad':
                    problems.append('out-of-range move_to accepted inside a timestep')
                else:
                    aid, old, d, new = rec
                    want = ((old[0] + d[0]) % 5, (old[1] + d[1]) % 4) if wrap else \
                        (max(0, min(4, old[0] + d[0])), max(0, min(3, old[1] + d[1])))
                    if new != want:
                        problems.append(f'in-timestep move {rec}: expected {want}')
            # completed model: world operations keep their semantics
            a = next(iter(env))
            env.move_to(a, 4, 3)
            env.move(a, 1, 1)
            want = (0, 0) if wrap else (4, 3)
            if a[PositionComponent].xy() != want:
                problems.append(f'completed model: move gave {a[PositionComponent].xy()} expected {want}')
            for ag in env:
                x, y = ag[PositionComponent].xy()
                if not (0 <= x <= 4 and 0 <= y <= 3):
                    problems.append(f'{ag.id} outside after run: {(x, y)}')
    return problems


def exp_several_worlds_and_models():
    """Several models / worlds alive at once, worlds that are not model.environment, replaced environments.
    Every agent lives in exactly one world (an agent in two worlds is out of scope)."""
    problems = []
    m1, m2 = Model(), Model()
    worlds = [GridWorld(m1, 3, 3, wrap_env=True), GridWorld(m1, 5, 5, id='second'), SpaceWorld(m2, 2.0, 2.0, 0),
              LineWorld(m2, 4, wrap_env=True), SpaceWorld(m1, 7.5, 0, 0, id='third', wrap_env=True)]
    m1.set_environment(worlds[0])
    m2.set_environment(worlds[2])
    agents = []
    for n, w in enumerate(worlds):
        for k in range(2):
            a = Agent(f'a{k}', w.model)  # same ids reused across worlds
            w.add_agent(a, 1, 1 if w.height else 0)
            agents.append((w, a))
    for w, a in agents:
        w.move(a, 7, -7)
    want = {0: (2, 0), 1: (4, 0), 2: (2.0, 0), 3: (0, 0), 4: (0.5, 0)}
    for w, a in agents:
        idx = worlds.index(w)
        got = a[PositionComponent].xy()
        exp = want[idx]
        if idx in (3, 4):
            got = (got[0], 0)  # y is an extent-0 axis there
        if got != exp:
            problems.append(f'world #{idx}: got {got}, expected {exp}')
    # replacing the model's environment does not disturb the old world
    m1.set_environment(worlds[1])
    w, a = agents[0]
    w.move(a, 1, 1)
    if a[PositionComponent].xy() != (0, 1):
        problems.append(f'replaced environment: {a[PositionComponent].xy()}')
    w.remove_agent(a.id)
    if PositionComponent in a:
        problems.append('replaced environment: position kept after leaving')
    return problems


def exp_subclasses():
    problems = []

    class Sheep(Agent):
        pass

    class Ranch(GridWorld):
        def __init__(self, model):
            super().__init__(model, 6, 2, wrap_env=True)

    class Lake(SpaceWorld):
        __slots__ = ['name']

        def __init__(self, model):
            super().__init__(model, 6.5, 2)
            self.name = 'lake'

    model = Model()
    ranch, lake = Ranch(model), Lake(model)
    Sheep.add_class_component(PositionComponent(Sheep, model, 99, 99, 99))  # class component must not interfere
    try:
        s, t = Sheep('s', model), Sheep('t', model)
        ranch.add_agent(s, 5, 1)
        lake.add_agent(t, 6.5, 2)
        ranch.move(s, 2, 1)
        lake.move(t, 0.5, -3)
        if s[PositionComponent].xy() != (1, 0):
            problems.append(f'Ranch: {s[PositionComponent].xy()}')
        if t[PositionComponent].xy() != (6.5, 0):
            problems.append(f'Lake: {t[PositionComponent].xy()}')
        ranch.remove_agent('s')
        if PositionComponent in s:
            problems.append('Sheep kept position after leaving')
        if Sheep[PositionComponent].xyz() != (99, 99, 99):
            problems.append('class component disturbed')
    finally:
        Sheep.remove_class_component(PositionComponent)
    return problems


def exp_copy_pickle():
    problems = []
    for wrap in (False, True):
        model = Model(seed=1)
        env = GridWorld(model, 4, 4, wrap_env=wrap)
        model.set_environment(env)
        for i in range(3):
            env.add_agent(Agent(f'a{i}', model), i, 3 - i)
        for clone in (copy.deepcopy(model), pickle.loads(pickle.dumps(model))):
            cenv = clone.environment
            a = cenv.get_agent('a2')
            cenv.move(a, 3, -3)
            want = (1, 2) if wrap else (3, 0)
            if a[PositionComponent].xy() != want:
                problems.append(f'clone wrap={wrap}: {a[PositionComponent].xy()} expected {want}')
            if env.get_agent('a2')[PositionComponent].xy() != (2, 1):
                problems.append('moving in the clone moved the original')
            try:
                cenv.move_to(a, 4, 0)
                problems.append('clone accepted out-of-range move_to')
            except IndexError:
                pass
            cenv.remove_agent('a2')
            if PositionComponent in a or PositionComponent not in env.get_agent('a2'):
                problems.append('clone removal wrong')
    return problems


def _worker(args):
    kind, dims, wrap, seed = args
    digest = hashlib.sha256()
    problems = run_history(kind, dims, wrap, seed, digest=digest)
    return problems, digest.hexdigest()


def exp_multiprocessing():
    """Real worker processes (spawned, with a timeout): same histories, same final positions as in-process."""
    import multiprocessing as mp
    jobs = [(k, d, w, s) for k, d in (('grid2', (3, 5, 0)), ('cont', (7.25, 2.5, 0)), ('grid3', (2, 0, 3)))
            for w in (False, True) for s in (11, 12)]
    local = [_worker(j) for j in jobs]
    problems = []
    ctx = mp.get_context('spawn')
    pool = ctx.Pool(3)
    try:
        remote = pool.map_async(_worker, jobs).get(timeout=120)
    except Exception as e:
        pool.terminate()
        note(f'multiprocessing experiment could not complete: {type(e).__name__}: {e}')
        return problems
    finally:
        pool.terminate()
    for j, l, r in zip(jobs, local, remote):
        problems += l[0] + r[0]
        if l[1] != r[1]:
            problems.append(f'history {j}: worker process ended in a different state than the parent')
    return problems


def exp_hash_seed():
    """Same histories under different PYTHONHASHSEEDs end in the same state."""
    problems = []
    digests = set()
    for hs in ('0', '1', '4242'):
        envv = dict(os.environ, PYTHONHASHSEED=hs)
        p = subprocess.run([sys.executable, os.path.abspath(__file__), '--digest'], env=envv, capture_output=True,
                           text=True, timeout=600)
        if p.returncode != 0:
            problems.append(f'PYTHONHASHSEED={hs}: child failed: {p.stdout[-300:]} {p.stderr[-300:]}')
        digests.add(p.stdout.strip().splitlines()[-1] if p.stdout.strip() else '')
    if len(digests) != 1:
        problems.append(f'final positions depend on the hash seed: {digests}')
    return problems


def exp_many_agents_shared_cell():
    """Coincident agents do not share a position object; moving one never moves another."""
    problems = []
    for kind, dims in (('grid2', (3, 3, 0)), ('cont', (3.0, 3.0, 0))):
        model = Model()
        env = make_world(kind, model, dims, True)
        agents = [Agent(i, model) for i in range(6)]
        for a in agents:
            env.add_agent(a, 1, 1)
        comps = {id(a[PositionComponent]) for a in agents}
        if len(comps) != 6:
            problems.append('position components shared between agents')
        env.move(agents[0], 1, 1)
        env.move_to(agents[1], 0, 2)
        env.remove_agent(2)
        for a in agents[3:]:
            if a[PositionComponent].xy() != (1, 1):
                problems.append(f'coincident agent {a.id} disturbed')
        if agents[0][PositionComponent].xy() != (2, 2) or agents[1][PositionComponent].xy() != (0, 2):
            problems.append('coincident movers wrong')
    return problems


def exp_extent_one():
    problems = []
    for wrap in (False, True):
        model = Model()
        env = DiscreteWorld(model, 1, 1, 1, wrap_env=wrap)
        a = Agent('a', model)
        env.add_agent(a)
        for d in (1, -1, 5, -5, 2 ** 80):
            env.move(a, d, -d, d)
            if a[PositionComponent].xyz() != (0, 0, 0):
                problems.append(f'1x1x1 grid wrap={wrap}: move {d} -> {a[PositionComponent].xyz()}')
        for bad in ((1, 0, 0), (0, 1, 0), (0, 0, 1), (-1, 0, 0)):
            try:
                env.move_to(a, *bad)
                problems.append(f'1x1x1 grid accepted move_to{bad}')
            except IndexError:
                pass
        cont = SpaceWorld(model, 1, 1.0, 1, id='c', wrap_env=wrap)
        b = Agent('b', model)
        cont.add_agent(b, 1, 1.0, 0)
        cont.move(b, 0.25, -0.25, 1.5)
        want = (0.25, 0.75, 0.5) if wrap else (1, 0.75, 1)
        if b[PositionComponent].xyz() != want:
            problems.append(f'unit continuous world wrap={wrap}: {b[PositionComponent].xyz()} expected {want}')
    return problems


def exp_out_of_scope_observations():
    """Behaviour that is unspecified / outside the stated scope.  Printed for the record, never counted."""
    model = Model()
    line = LineWorld(model, 5)
    a = Agent('a', model)
    line.add_agent(a, 1, 7, -3)
    line.move(a, 1)
    if a[PositionComponent].xyz() == (2, 0, 0):
        note('extent-0 axes: LineWorld(5).add_agent(a, 1, 7, -3) is accepted and a later move(a, 1) resets y and z to 0 '
             '(non-wrapping); a wrapping world ignores deltas on extent-0 axes.  The statement only speaks about axes '
             'of positive extent (modulo 0 / edges of an absent axis are undefined).')

    class Extra(Component):
        pass

    model = Model()
    w = SpaceWorld(model, 10, 10, 0)
    b = Agent('b', model)
    w.add_agent(b, 1, 2)
    b.add_component(Extra(b, model))
    try:
        w.remove_agent('b')
    except KeyError:
        if 'b' in w.agents and PositionComponent not in b:
            note('a component attached to a resident agent makes remove_agent fail half-way: KeyError, the agent stays '
                 'resident but its PositionComponent is already gone.  The history alphabet of this property is '
                 'add / move / move_to / remove only, so this belongs to the removal-atomicity property.')


def exp_overflow_threshold_note():
    big = 1.7976931348623157e308
    model = Model()
    for ext in (1e291, 1e292, 1e295):
        w = SpaceWorld(model, ext, 0, 0, id=str(ext), wrap_env=True)
        a = Agent(str(ext), model)
        w.add_agent(a, ext)
        w.move(a, big)
        x = a[PositionComponent].x
        if x != x:
            note(f'SpaceWorld({ext!r}, wrap_env=True): add at x={ext!r}, move(a, {big!r}) -> x=nan.  Same root cause as '
                 f'the recorded finding (old + delta overflows to inf, inf % extent = nan), but the real threshold is '
                 f'extent >= 2**970 (about 9.98e291), not 1e300.')
            break


EXPERIMENTS = [
    ('01 differential fuzz, all world kinds x extents x wrap', exp_differential),
    ('02 exhaustive small grid worlds (every old/delta/target)', exp_boundaries_exhaustive),
    ('03 continuous edge cases (ulp, denormals, 1e308 deltas)', exp_continuous_edges),
    ('04 rejected operations change nothing', exp_rejections_change_nothing),
    ('05 leave drops the position / rejoin / falsy ids', exp_leave_and_rejoin),
    ('06 bool and numpy scalar arguments', exp_number_types),
    ('07 negative zero and the seam', exp_negative_zero_and_seam),
    ('08 operations inside a timestep / completed model', exp_inside_timestep_and_complete),
    ('09 several models and worlds, replaced environment', exp_several_worlds_and_models),
    ('10 subclasses of Agent / GridWorld / SpaceWorld, class components', exp_subclasses),
    ('11 deepcopy and pickle round trips', exp_copy_pickle),
    ('12 coincident agents', exp_many_agents_shared_cell),
    ('13 extent-1 worlds', exp_extent_one),
    ('14 real multiprocessing (spawn, 3 workers)', exp_multiprocessing),
    ('15 hash-seed independence', exp_hash_seed),
]


def main():
    if '--digest' in sys.argv:
        digest = hashlib.sha256()
        problems = []
        for kind, dims in world_configs()[::7]:
            for wrap in (False, True):
                problems += run_history(kind, dims, wrap, 5, digest=digest)
        print(digest.hexdigest())
        return 1 if problems else 0
    for name, fn in EXPERIMENTS:
        try:
            report(name, fn())
        except Exception as e:  # an experiment crashing is itself worth a look
            import traceback
            traceback.print_exc()
            report(name, [f'experiment crashed: {type(e).__name__}: {e}'])
    exp_out_of_scope_observations()
    exp_overflow_threshold_note()
    print()
    print(f'{len(VIOLATIONS)} genuine in-scope violation(s); {len(NOTES)} out-of-scope note(s).')
    return 1 if VIOLATIONS else 0


if __name__ == '__main__':
    sys.exit(main())
