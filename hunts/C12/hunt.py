"""Bug hunt for the property

    "Positional queries return exactly the agents inside the leeway box"

Run with:  cd /tmp/wt-C12-h && PYTHONPATH=/tmp/wt-C12-h /venv/bin/python hunt.py

Every experiment prints one line starting with
    OK         - the property held for that angle
    VIOLATION  - genuine violation of the property inside its stated scope (counts for exit status 1)
    NOTE       - deviation that is outside the stated scope / float round-off / merely unspecified (not counted)
Only the public API of ECAgent is used.
"""
import copy
import multiprocessing as mp
import os
import pickle
import random
import subprocess
import sys
import warnings
from decimal import Decimal
from fractions import Fraction as F

import numpy as np

import ECAgent
from ECAgent.Core import Model, Agent, Component, System
from ECAgent.Environments import SpaceWorld, GridWorld, LineWorld, DiscreteWorld, PositionComponent

VIOLATIONS = []
NOTES = []


def ok(name, extra=''):
    print(f'OK         {name}{(" - " + extra) if extra else ""}')


def violation(name, text):
    VIOLATIONS.append(name)
    print(f'VIOLATION  {name}\n           ' + text.replace('\n', '\n           '))


def note(name, text):
    NOTES.append(name)
    print(f'NOTE       {name}\n           ' + text.replace('\n', '\n           '))


def ids(agents):
    return [a.id for a in agents]


def call(f):
    """Returns the value of f() or the repr of the exception it raised."""
    try:
        return f()
    except Exception as e:  # noqa
        return f'{type(e).__name__}: {e}'


def oracle(env, q, leeway, axl):
    """Exact (rational arithmetic) statement of the property."""
    out = []
    ext = (env.width, env.height, env.depth)
    for a in env.agents.values():
        p = a[PositionComponent]
        pos = (p.x, p.y, p.z)
        inside = True
        for i in range(3):
            lim = max(F(axl[i]), F(leeway))
            d = abs(F(pos[i]) - F(q[i]))
            if env.wrap_env and ext[i] > 0:
                d = d % F(ext[i])
                d = min(d, F(ext[i]) - d)
            if not d <= lim:
                inside = False
                break
        if inside:
            out.append(a)
    return out


def same(got, exp):
    return isinstance(got, list) and len(got) == len(exp) and all(g is e for g, e in zip(got, exp))


# ---------------------------------------------------------------------------------------------------------------------
# E1  differential fuzz with exactly representable numbers (dyadic rationals / ints / bools / -0.0)
# ---------------------------------------------------------------------------------------------------------------------
def e1_fuzz():
    rng = random.Random(20260927)

    def dy(lo, hi, den=4):
        return rng.randint(lo * den, hi * den) / den

    n = 0
    first = None
    bad = 0
    for trial in range(1500):
        kind = rng.choice(['space', 'space0', 'grid', 'line', 'disc'])
        wrap = rng.random() < 0.5
        m = Model()
        if kind == 'space':
            env = SpaceWorld(m, rng.choice([4, 5.5, 8]), rng.choice([0, 3, 6.25]), rng.choice([0.0, 2, 7]),
                             wrap_env=wrap)
        elif kind == 'space0':
            env = SpaceWorld(m, rng.choice([0, 5]), 0, 0, wrap_env=wrap)
        elif kind == 'grid':
            env = GridWorld(m, rng.randint(1, 6), rng.randint(1, 6), wrap_env=wrap)
        elif kind == 'line':
            env = LineWorld(m, rng.randint(1, 7), wrap_env=wrap)
        else:
            env = DiscreteWorld(m, rng.randint(1, 4), rng.randint(0, 4), rng.randint(0, 4), wrap_env=wrap)
        if rng.random() < 0.5:
            m.environment = env  # otherwise the world is NOT model.environment
        disc = isinstance(env, DiscreteWorld)
        off = 1 if disc else 0
        agents = []

        def coord(extent):
            if extent <= 0:
                return rng.choice([0, 0, 3, -2])
            hi = extent - off
            if disc:
                return rng.randint(0, int(hi))
            return rng.choice([0, hi, dy(0, int(hi)) if hi >= 1 else 0])

        for i in range(rng.randint(0, 8)):
            a = Agent(rng.choice([i, str(i), float(i) + .5]), m)
            env.add_agent(a, coord(env.width), coord(env.height), coord(env.depth))
            agents.append(a)
        for a in list(agents):  # agents moved / removed / re-added / teleported since placement
            r = rng.random()
            if r < 0.15:
                env.remove_agent(a.id)
                agents.remove(a)
                if rng.random() < 0.5:
                    env.add_agent(a, 0, 0, 0)
                    agents.append(a)
            elif r < 0.4:
                env.move(a, rng.randint(-9, 9) if disc else rng.choice([-7, -1, 0, 1, 2.5, 9]),
                         rng.randint(-3, 3), rng.randint(-3, 3))
            elif r < 0.5:
                a[PositionComponent].x = rng.choice([-3, 12, 2.75, 0])
        if rng.random() < 0.1:
            env.wrap_env = not env.wrap_env  # wrap flipped after placement
        for _ in range(20):
            q = tuple(rng.choice([dy(-12, 12), rng.randint(-3, 8), 0, -0.0, True]) for _ in range(3))
            lw = rng.choice([0, 0.0, -0.0, 1, 0.5, 2, -1, -0.25, 3.75, 100, True, False])
            axl = tuple(rng.choice([0, 0, 0.0, 1, 0.5, 2, -1, -2.5, 3, 50]) for _ in range(3))
            exp = oracle(env, q, lw, axl)
            got = call(lambda: env.get_agents_at(q[0], q[1], q[2], lw, axl[0], axl[1], axl[2]))
            n += 1
            if not same(got, exp):
                bad += 1
                if first is None:
                    first = (kind, env.wrap_env, (env.width, env.height, env.depth), q, lw, axl,
                             [(a.id, a[PositionComponent].xyz()) for a in env.agents.values()],
                             got if not isinstance(got, list) else ids(got), ids(exp))
    if bad:
        violation('E1 differential fuzz (exact numbers)', f'{bad}/{n} queries differ from the oracle, first: {first}')
    else:
        ok('E1 differential fuzz (exact numbers)',
           f'{n} queries: continuous/grid/line/3-d discrete, wrap and not, zero-extent axes, negative/zero/equal/'
           f'mixed leeways, bools, -0.0, points outside the world, moved/removed/re-added/teleported agents, '
           f'wrap flag flipped, world not model.environment')


# ---------------------------------------------------------------------------------------------------------------------
# E2  hand written cases: faces, coincident agents, joining order, documented seam example, empty result
# ---------------------------------------------------------------------------------------------------------------------
def e2_explicit():
    problems = []
    m = Model()
    env = SpaceWorld(m, 10, 10, 10)
    pts = {'c': (5, 5, 5), 'fx+': (8, 5, 5), 'fx-': (2, 5, 5), 'fy+': (5, 10, 5), 'corner': (8, 10, 8),
           'out': (8.25, 5, 5), 'c2': (5, 5, 5), 'fz-': (5, 5, 2)}
    for k, p in pts.items():
        env.add_agent(Agent(k, m), *p)
    got = ids(env.get_agents_at(5, 5, 5, leeway=3, y_leeway=5))  # the docstring's own example shape
    if got != ['c', 'fx+', 'fx-', 'fy+', 'corner', 'c2', 'fz-']:
        problems.append(f'faces/doc example: {got}')
    if ids(env.get_agents_at(5, 5, 5)) != ['c', 'c2']:
        problems.append('coincident agents')
    if ids(env.get_agents_at(5, 5, 5, leeway=-1, x_leeway=-1, y_leeway=-1, z_leeway=-1)) != []:
        problems.append('all-negative leeway must give []')
    if ids(env.get_agents_at(5, 5, 5, leeway=-1)) != ['c', 'c2']:
        problems.append('negative general leeway must lose against the 0 per-axis leeway')
    if ids(env.get_agents_at(5, 5, 5, leeway=3, x_leeway=-7, y_leeway=5, z_leeway=1)) != \
            ['c', 'fx+', 'fx-', 'fy+', 'corner', 'c2', 'fz-']:
        problems.append('larger of the two leeways per axis')
    # joining order after re-join
    env.remove_agent('c')
    env.add_agent(Agent('c', m), 5, 5, 5)
    if ids(env.get_agents_at(5, 5, 5)) != ['c2', 'c']:
        problems.append('joining order after re-join')
    r = env.get_agents_at(-40, 3, 3)
    if r != [] or type(r) is not list:
        problems.append(f'empty result {r!r}')
    r1 = env.get_agents_at(5, 5, 5)
    r1.clear()
    if ids(env.get_agents_at(5, 5, 5)) != ['c2', 'c']:
        problems.append('returned list aliases internal state')
    if SpaceWorld(Model(), 3).get_agents_at(1) != []:
        problems.append('empty world')
    # documented seam example (commit message / docstring): width 10, agent at 9.5, query 0.2 +- 1
    m = Model()
    env = SpaceWorld(m, 10, wrap_env=True)
    env.add_agent(Agent('s', m), 9.5)
    env.add_agent(Agent('t', m), 8.5)
    if ids(env.get_agents_at(0.25, leeway=1)) != ['s'] or ids(env.get_agents_at(0.5, leeway=2)) != ['s', 't'] \
            or ids(env.get_agents_at(-20.5, leeway=0)) != ['s'] or ids(env.get_agents_at(29.5)) != ['s'] \
            or ids(env.get_agents_at(4, leeway=5)) != ['s', 't'] or ids(env.get_agents_at(3.5, leeway=3.75)) != []:
        problems.append('seam cases')
    env.wrap_env = False
    if ids(env.get_agents_at(0.25, leeway=1)) != []:
        problems.append('non wrapping world must not look across the seam')
    # grid: 0 and width-1 are neighbours around the seam, fractional query points
    m = Model()
    g = GridWorld(m, 5, 4, wrap_env=True)
    for i, (x, y) in enumerate([(0, 0), (4, 3), (2, 2), (4, 0)]):
        g.add_agent(Agent(i, m), x, y)
    if ids(g.get_agents_at(0, 0, leeway=1)) != [0, 1, 3] or ids(g.get_agents_at(4.5, 0, x_leeway=0.5)) != [0, 3] \
            or ids(g.get_agents_at(2, 2, leeway=2)) != [0, 1, 2, 3]:
        problems.append('grid seam')
    if problems:
        violation('E2 explicit cases', '; '.join(problems))
    else:
        ok('E2 explicit cases', 'faces, coincident agents, joining order, []/fresh list, documented seam example, '
                                'grid seam, fractional query points')


# ---------------------------------------------------------------------------------------------------------------------
# E3  unusual ids and falsy agents
# ---------------------------------------------------------------------------------------------------------------------
def e3_ids():
    class SId(str):
        pass

    class Falsy(Agent):
        def __len__(self):
            return 0

        def __bool__(self):
            return False

    m = Model()
    env = GridWorld(m, 5, 5)
    idv = ['', 0, SId('x'), None, (), 0.5, 'x ']
    for i in idv:
        env.add_agent(Falsy(i, m), 1, 1)
    got = ids(env.get_agents_at(1, 1))
    if got != idv:
        violation('E3 falsy / str-subclass ids, falsy agents', f'{got}')
    else:
        ok('E3 falsy / str-subclass ids, falsy agents (__len__==0, __bool__ False)')


# ---------------------------------------------------------------------------------------------------------------------
# E4  several worlds / models alive, world replaced, world that is not model.environment
# ---------------------------------------------------------------------------------------------------------------------
def e4_worlds():
    problems = []
    m1, m2 = Model(), Model()
    w1 = GridWorld(m1, 5, 5)
    w1b = SpaceWorld(m1, 5, 5, id='second')
    w2 = LineWorld(m2, 5, wrap_env=True)
    m1.environment = w1
    a, b, c = Agent('a', m1), Agent('a', m1), Agent('a', m2)
    w1.add_agent(a, 1, 1)
    w1b.add_agent(b, 1.5, 1)
    w2.add_agent(c, 4)
    if not (same(w1.get_agents_at(1, 1, leeway=1), [a]) and same(w1b.get_agents_at(1, 1, leeway=1), [b])
            and same(w2.get_agents_at(0, leeway=1), [c])):
        problems.append('same id in three worlds')
    m1.environment = GridWorld(m1, 3, 3)  # replaced
    if not same(w1.get_agents_at(1, 1), [a]) or m1.environment.get_agents_at(1, 1) != []:
        problems.append('replaced world')
    if problems:
        violation('E4 several worlds', '; '.join(problems))
    else:
        ok('E4 several models/worlds alive, replaced world, world not model.environment')


# ---------------------------------------------------------------------------------------------------------------------
# E5  queries issued from inside a running timestep (with removals/moves in between), completed model
# ---------------------------------------------------------------------------------------------------------------------
def e5_timestep():
    class Hunter(System):
        def __init__(self, model):
            super().__init__('hunter', model)
            self.bad = []

        def execute(self):
            env = self.model.environment
            for ag in env.get_agents_at(2, 2, leeway=5):
                if ag.id not in env.agents:
                    continue
                p = ag[PositionComponent]
                q, lw, axl = p.xyz(), 1, (0, 0, 0)
                got, exp = env.get_agents_at(*q, leeway=lw), oracle(env, q, lw, axl)
                if not same(got, exp):
                    self.bad.append((ag.id, ids(got), ids(exp)))
                for o in got:
                    if o is not ag:
                        env.remove_agent(o.id)
                env.move(ag, 1, 1)

    m = Model()
    env = GridWorld(m, 5, 5, wrap_env=True)
    m.environment = env
    for i, (x, y) in enumerate([(0, 0), (1, 1), (2, 2), (4, 4), (3, 4), (2, 2)]):
        env.add_agent(Agent(f'a{i}', m), x, y)
    s = Hunter(m)
    m.systems.add_system(s)
    m.execute(3)
    m.complete()
    m.execute()
    q = (0, 0, 0)
    if s.bad or not same(env.get_agents_at(*q, leeway=2), oracle(env, q, 2, (0, 0, 0))):
        violation('E5 queries inside a timestep / completed model', f'{s.bad}')
    else:
        ok('E5 queries inside a running timestep with removals and moves, completed model')


# ---------------------------------------------------------------------------------------------------------------------
# E6  pickled / deep-copied worlds
# ---------------------------------------------------------------------------------------------------------------------
def e6_pickle():
    m = Model()
    env = GridWorld(m, 5, 5, wrap_env=True)
    m.environment = env
    for i, (x, y) in enumerate([(0, 0), (4, 4), (2, 2)]):
        env.add_agent(Agent(f'a{i}', m), x, y)
    r = [call(lambda: ids(copy.deepcopy(m).environment.get_agents_at(0, 0, leeway=1))),
         call(lambda: ids(pickle.loads(pickle.dumps(m)).environment.get_agents_at(0, 0, leeway=1))),
         call(lambda: ids(pickle.loads(pickle.dumps(env)).get_agents_at(0, 0, leeway=1)))]
    if r != [['a0', 'a1']] * 3:
        violation('E6 deepcopy / pickle', f'{r}')
    else:
        ok('E6 deep-copied and pickled worlds answer the same')


# ---------------------------------------------------------------------------------------------------------------------
# E7  Fraction / Decimal coordinates
# ---------------------------------------------------------------------------------------------------------------------
def e7_rationals():
    m = Model()
    env = SpaceWorld(m, 10, 10)
    env.add_agent(Agent('a', m), F(1, 3), F(1, 3))
    r1 = call(lambda: ids(env.get_agents_at(F(1, 3), F(1, 3), 0, 0)))
    r2 = call(lambda: ids(env.get_agents_at(F(2, 3), F(1, 3), 0, F(1, 3))))
    r3 = call(lambda: ids(env.get_agents_at(F(1, 3), F(1, 3))))
    if r1 != ['a'] or r2 != ['a']:
        violation('E7 Fraction coordinates', f'{r1} {r2}')
    elif r3 != ['a']:
        note('E7 Fraction coordinates',
             f'exact with int/Fraction leeways, but with the DEFAULT leeway=0.0 the Fraction query point is coerced '
             f'to float: agent at x=y=Fraction(1,3), get_agents_at(Fraction(1,3), Fraction(1,3)) -> {r3}. '
             f'Fractions are not a documented coordinate type, so not counted (same root cause as E10).')
    else:
        ok('E7 Fraction coordinates')


# ---------------------------------------------------------------------------------------------------------------------
# E8  numpy scalars
# ---------------------------------------------------------------------------------------------------------------------
def e8_numpy():
    problems = []
    for wrap in (False, True):
        m = Model()
        env = GridWorld(m, 10, 10, wrap_env=wrap)
        for i, x in enumerate([0, 1, 9]):
            env.add_agent(Agent(i, m), np.int64(x), np.int32(3))
        env.add_agent(Agent(3, m), np.float64(1.5), np.float32(3))
        exp = [0, 1, 2, 3] if wrap else [0, 1, 3]
        for q in [(0, 3, 0, 1.5), (np.int16(0), np.int8(3), np.int8(0), np.float32(1.5)),
                  (np.float64(0), np.float32(3), 0, np.float64(1.5)), (np.bool_(False), np.int64(3), 0.0, 1.5)]:
            got = call(lambda: ids(env.get_agents_at(q[0], q[1], q[2], leeway=q[3])))
            if got != exp:
                problems.append((wrap, q, got, exp))
    if problems:
        violation('E8 numpy signed int / float / bool scalars', f'{problems}')
    else:
        ok('E8 numpy signed int / float / bool scalars as positions, query points and leeways')
    # unsigned numpy scalars: arithmetic wraps around inside numpy
    with warnings.catch_warnings():
        warnings.simplefilter('ignore')
        m = Model()
        env = GridWorld(m, 10, 10, wrap_env=True)
        env.add_agent(Agent('u', m), np.uint8(0), np.uint8(3))
        got = call(lambda: ids(env.get_agents_at(1, 3, leeway=1)))
        env.wrap_env = False
        got2 = call(lambda: ids(env.get_agents_at(np.uint8(0), np.uint8(3), leeway=1)))
    if got != ['u'] or got2 != ['u']:
        note('E8b numpy UNSIGNED scalars',
             f'agent placed at (np.uint8(0), np.uint8(3)) in a wrapping 10x10 GridWorld: get_agents_at(1, 3, leeway=1) '
             f'-> {got} (expected [\'u\']); non-wrapping, query point np.uint8(0), leeway 1 -> {got2}. '
             f'Cause: numpy\'s own modular uint arithmetic in value-origin / x_pos-leeway (RuntimeWarning: overflow). '
             f'Unsigned numpy coordinates are not a documented input type; not counted.')
    else:
        ok('E8b numpy unsigned scalars')


# ---------------------------------------------------------------------------------------------------------------------
# E9  float round-off at the faces (arbitrary decimal floats) - informational
# ---------------------------------------------------------------------------------------------------------------------
def e9_float_faces():
    rng = random.Random(7)
    n = coarse = fine = 0
    ex = None
    for trial in range(300):
        m = Model()
        env = SpaceWorld(m, 10, 10, 0, wrap_env=rng.random() < .5)
        for i in range(6):
            env.add_agent(Agent(i, m), rng.randint(0, 100) / 10, rng.randint(0, 100) / 10)
        for _ in range(40):
            q = (rng.randint(-50, 150) / 10, rng.randint(-50, 150) / 10, 0)
            lw, axl = rng.randint(0, 30) / 10, (rng.randint(0, 30) / 10, 0, 0)
            got, exp = env.get_agents_at(*q, lw, *axl), oracle(env, q, lw, axl)
            n += 1
            if not same(got, exp):
                # is every disagreeing agent within 1e-9 of a face?  then it is pure float round-off
                tol = F(1, 10 ** 9)
                loose = oracle(env, q, lw + 1e-9, tuple(v + 1e-9 for v in axl))
                tight = oracle(env, q, lw - 1e-9, tuple(v - 1e-9 for v in axl))
                if all(a in loose for a in got) and all(a in got for a in tight):
                    fine += 1
                else:
                    coarse += 1
                    ex = ex or (env.wrap_env, q, lw, axl, ids(got), ids(exp))
    if coarse:
        violation('E9 arbitrary decimal floats', f'{coarse}/{n} queries are wrong by more than 1e-9: {ex}')
    elif fine:
        note('E9 arbitrary decimal floats',
             f'{fine}/{n} queries differ from the exact-rational oracle, every time for an agent whose distance is '
             f'within 1e-9 of a face (x_pos +/- leeway resp. value-origin are rounded to the nearest double). '
             f'Inherent float round-off; not counted.')
    else:
        ok('E9 arbitrary decimal floats')


# ---------------------------------------------------------------------------------------------------------------------
# E10  huge ints
# ---------------------------------------------------------------------------------------------------------------------
def e10_huge_ints():
    m = Model()
    env = SpaceWorld(m, 2 ** 60, 2 ** 60)
    env.add_agent(Agent('a', m), 2 ** 53 + 1, 0)
    env.add_agent(Agent('b', m), 2 ** 53, 0)
    default = call(lambda: ids(env.get_agents_at(2 ** 53 + 1)))
    flt = call(lambda: ids(env.get_agents_at(2 ** 53 + 1, 0, 0, 0.0, 0.0, 0.0, 0.0)))
    ints = call(lambda: ids(env.get_agents_at(2 ** 53 + 1, 0, 0, 0)))
    env.wrap_env = True
    wrapped = call(lambda: ids(env.get_agents_at(2 ** 53 + 1)))
    m2 = Model()
    unb = SpaceWorld(m2, 0)  # zero extent = no bound on the axis
    unb.add_agent(Agent('h', m2), 10 ** 400)
    over = call(lambda: ids(unb.get_agents_at(10 ** 400)))
    over_i = call(lambda: ids(unb.get_agents_at(10 ** 400, 0, 0, 0)))
    if default != ['a'] or flt != ['a'] or over != ['h']:
        violation('E10 huge int coordinates',
                  'm = Model(); env = SpaceWorld(m, 2**60, 2**60)\n'
                  'env.add_agent(Agent("a", m), 2**53 + 1, 0); env.add_agent(Agent("b", m), 2**53, 0)\n'
                  f'env.get_agents_at(2**53 + 1)                      -> {default}   expected [\'a\'] '
                  f'("b" is 1 away, leeway is 0)\n'
                  f'env.get_agents_at(2**53 + 1, 0, 0, 0.0, 0.0, 0.0, 0.0) -> {flt}   expected [\'a\'] '
                  f'(the agent AT the query point is missed)\n'
                  f'env.get_agents_at(2**53 + 1, 0, 0, 0)   (int leeway)  -> {ints}   (correct)\n'
                  f'same world with wrap_env=True, default leeway          -> {wrapped}   (correct: int arithmetic)\n'
                  f'SpaceWorld(m, 0) with an agent at 10**400: get_agents_at(10**400) -> {over}; '
                  f'with leeway=0 -> {over_i}\n'
                  'Cause: the default general leeway is the FLOAT 0.0, so x_pos - leeway / x_pos + leeway turn an '
                  'exact int query point into a rounded double (or overflow).')
    else:
        ok('E10 huge int coordinates')


# ---------------------------------------------------------------------------------------------------------------------
# E11  removal that fails half way leaves an agent without position in the world -> every query crashes
# ---------------------------------------------------------------------------------------------------------------------
def e11_half_removed():
    class Energy(Component):
        pass

    m = Model()
    env = GridWorld(m, 5, 5)
    m.environment = env
    a, b = Agent('a', m), Agent('b', m)
    env.add_agent(a, 1, 1)
    env.add_agent(b, 2, 2)
    a.add_component(Energy(a, m))  # component attached after joining (never registered with model.systems)
    r_remove = call(lambda: env.remove_agent('a'))
    still_there = 'a' in env.agents and len(env) == 2
    r_query = call(lambda: ids(env.get_agents_at(2, 2)))
    r_query2 = call(lambda: ids(env.get_agents_at(1, 1)))
    if r_query != ['b'] or r_query2 not in (['a'], []):
        violation('E11 removal that raises half way',
                  'class Energy(Component): pass\n'
                  'm = Model(); env = GridWorld(m, 5, 5); m.environment = env\n'
                  'a, b = Agent("a", m), Agent("b", m); env.add_agent(a, 1, 1); env.add_agent(b, 2, 2)\n'
                  'a.add_component(Energy(a, m))\n'
                  f'env.remove_agent("a")      -> {r_remove}\n'
                  f'"a" still in env.agents / len(env)==2: {still_there}; a[PositionComponent] is '
                  f'{a[PositionComponent]!r}\n'
                  f'env.get_agents_at(2, 2)    -> {r_query}   expected [\'b\']\n'
                  f'env.get_agents_at(1, 1)    -> {r_query2}   expected [\'a\'] (removal failed, agent still a member)\n'
                  'SpaceWorld.remove_agent strips the PositionComponent BEFORE the base-class removal, which can '
                  'raise; the agent then stays in the world without a position and every later positional query on '
                  'that world raises AttributeError instead of returning a list.')
    else:
        ok('E11 removal that raises half way')


# ---------------------------------------------------------------------------------------------------------------------
# E12  add_agent that fails half way (agent already owns a PositionComponent) - informational
# ---------------------------------------------------------------------------------------------------------------------
def e12_half_added():
    m = Model()
    w1, w2 = GridWorld(m, 5, 5), GridWorld(m, 5, 5, id='W2')
    a = Agent('a', m)
    w1.add_agent(a, 1, 1)
    r = call(lambda: w2.add_agent(a, 3, 3))
    member = 'a' in w2.agents
    q33, q11 = call(lambda: ids(w2.get_agents_at(3, 3))), call(lambda: ids(w2.get_agents_at(1, 1)))
    oob = call(lambda: w1.add_agent(Agent('z', m), 9, 9))
    dup = call(lambda: w1.add_agent(a, 4, 4))
    clean = 'z' not in w1.agents and ids(w1.get_agents_at(1, 1)) == ['a'] and w1.get_agents_at(4, 4) == []
    if not clean:
        violation('E12 rejected add_agent (out of range / duplicate)', f'{oob} {dup}')
    elif member:
        note('E12 add_agent of an agent that already owns a PositionComponent',
             f'w2.add_agent(a, 3, 3) for an agent already placed in w1 at (1,1) -> {r}, yet "a" is now a member of '
             f'w2: w2.get_agents_at(3, 3) -> {q33}, w2.get_agents_at(1, 1) -> {q11}. The query faithfully reports '
             f'the (shared) PositionComponent, so this is an add_agent atomicity problem, not a violation of the '
             f'query property; not counted. Out-of-range and duplicate adds are rejected cleanly.')
    else:
        ok('E12 rejected add_agent leaves no trace')


# ---------------------------------------------------------------------------------------------------------------------
# E13  query point of huge float magnitude in a wrapping world - informational
# ---------------------------------------------------------------------------------------------------------------------
def e13_big_float():
    m = Model()
    env = SpaceWorld(m, 10, wrap_env=True)
    env.add_agent(Agent('a', m), 3)
    f, i = ids(env.get_agents_at(1e20)), ids(env.get_agents_at(10 ** 20))
    if i != []:
        violation('E13 far-away int query point in a wrapping world', f'{i}')
    elif f != []:
        note('E13 far-away FLOAT query point in a wrapping world',
             f'width 10, agent at x=3: get_agents_at(1e20) -> {f} (1e20 is congruent to 0, so [] expected; the int '
             f'10**20 gives {i}). 3 - 1e20 is not representable in a double; inherent float round-off, not counted.')
    else:
        ok('E13 far-away query points in a wrapping world')


# ---------------------------------------------------------------------------------------------------------------------
# E14  real multiprocessing: workers build worlds and answer queries, compared with the parent's answers
# ---------------------------------------------------------------------------------------------------------------------
def _mp_job(seed):
    rng = random.Random(seed)
    m = Model(seed)
    env = GridWorld(m, 6, 6, wrap_env=bool(seed % 2))
    for i in range(12):
        env.add_agent(Agent(f'a{i}', m), rng.randint(0, 5), rng.randint(0, 5))
    for i in range(0, 12, 3):
        env.move(env.agents[f'a{i}'], rng.randint(-4, 4), rng.randint(-4, 4))
    env.remove_agent('a5')
    out = []
    for _ in range(30):
        q = (rng.randint(-2, 8), rng.randint(-2, 8), 0)
        lw, axl = rng.choice([0, 1, 2, -1]), (rng.choice([0, 1, 3]), 0, 0)
        got = env.get_agents_at(*q, lw, *axl)
        out.append((ids(got), ids(oracle(env, q, lw, axl))))
    return out


def e14_multiprocessing():
    seeds = list(range(8))
    serial = [_mp_job(s) for s in seeds]
    try:
        ctx = mp.get_context('spawn')
        with ctx.Pool(processes=3) as pool:
            par = pool.map_async(_mp_job, seeds).get(timeout=120)
    except Exception as e:  # noqa
        note('E14 multiprocessing', f'could not run the pool: {type(e).__name__}: {e}')
        return
    wrong = [s for s, res in zip(seeds, par) if any(g != e for g, e in res)]
    if par != serial or wrong:
        violation('E14 multiprocessing', f'workers disagree with parent/oracle for seeds {wrong}')
    else:
        ok('E14 real multiprocessing (spawn, 3 processes): workers agree with the parent and the oracle')


# ---------------------------------------------------------------------------------------------------------------------
# E15  hash seed independence
# ---------------------------------------------------------------------------------------------------------------------
def e15_hashseed():
    code = ("import random\n"
            "from ECAgent.Core import Model, Agent\n"
            "from ECAgent.Environments import GridWorld\n"
            "m = Model(); env = GridWorld(m, 4, 4, wrap_env=True); r = random.Random(3)\n"
            "for i in range(30): env.add_agent(Agent('ag%d' % (i * 7919 % 31), m), r.randint(0, 3), r.randint(0, 3))\n"
            "print([[a.id for a in env.get_agents_at(x, y, leeway=1)] for x in range(4) for y in range(4)])\n")
    root = os.path.dirname(os.path.dirname(os.path.abspath(ECAgent.__file__)))
    outs = set()
    try:
        for hs in ('0', '1', '4242'):
            env = dict(os.environ, PYTHONHASHSEED=hs, PYTHONPATH=root + os.pathsep + os.environ.get('PYTHONPATH', ''))
            outs.add(subprocess.run([sys.executable, '-c', code], env=env, capture_output=True, text=True,
                                    timeout=120, check=True).stdout)
    except Exception as e:  # noqa
        note('E15 hash seed', f'could not run: {type(e).__name__}: {e}')
        return
    if len(outs) != 1:
        violation('E15 hash seed dependence', 'results/order differ between PYTHONHASHSEED values')
    else:
        ok('E15 result and order independent of PYTHONHASHSEED')


if __name__ == '__main__':
    print('ECAgent imported from', ECAgent.__file__)
    for exp in (e1_fuzz, e2_explicit, e3_ids, e4_worlds, e5_timestep, e6_pickle, e7_rationals, e8_numpy,
                e9_float_faces, e10_huge_ints, e11_half_removed, e12_half_added, e13_big_float,
                e14_multiprocessing, e15_hashseed):
        try:
            exp()
        except Exception as e:  # an experiment itself blew up: report, do not count
            note(exp.__name__, f'experiment crashed: {type(e).__name__}: {e}')
    print()
    print(f'{len(VIOLATIONS)} genuine violation(s): {VIOLATIONS}')
    print(f'{len(NOTES)} note(s) (not counted): {NOTES}')
    sys.exit(1 if VIOLATIONS else 0)
