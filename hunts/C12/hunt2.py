"""Second-pass bug hunt for the property

    "Positional queries return exactly the agents inside the leeway box"

Run with:  cd /tmp/wt-C12-i && PYTHONPATH=/tmp/wt-C12-i /venv/bin/python hunt.py

Public API only.  Every experiment prints OK, or the violations it found.  Lines starting with NOTE describe
behaviour that is outside the stated scope / unspecified and are NOT counted.  Exit status 1 iff at least one
genuine in-scope violation was found.

All fuzzed coordinates, query points and leeways are integers or multiples of 1/4 of moderate size, so that every
float operation involved is exact and the comparison with the exact (Fraction) reference is meaningful.
"""
import copy
import hashlib
import os
import pickle
import random
import subprocess
import sys
from fractions import Fraction

import numpy as np

from ECAgent.Core import Agent, Component, Model, System
from ECAgent.Environments import SpaceWorld, DiscreteWorld, LineWorld, GridWorld, PositionComponent

VIOLATIONS = []
NOTES = []


def report(name, problems):
    if problems:
        print(f'[{name}] VIOLATION(S):')
        for p in problems[:8]:
            print('    ' + p)
        if len(problems) > 8:
            print(f'    ... and {len(problems) - 8} more')
        VIOLATIONS.extend((name, p) for p in problems)
    else:
        print(f'[{name}] OK')


def note(text):
    NOTES.append(text)
    print('NOTE (not counted): ' + text)


# ----------------------------------------------------------------------------------------------------------------------
# Exact reference
# ----------------------------------------------------------------------------------------------------------------------

def F(v):
    if isinstance(v, np.generic):
        v = v.item()
    return Fraction(v)


def expected_ids(env, point, leeway, axis_leeways):
    """Transcription of the statement, in exact arithmetic, from the world's public state."""
    dims = (env.width, env.height, env.depth)
    out = []
    for agent in env:  # joining order
        pos = agent[PositionComponent].xyz()
        ok = True
        for i in range(3):
            L = max(F(leeway), F(axis_leeways[i]))
            d = abs(F(pos[i]) - F(point[i]))
            if env.wrap_env and dims[i] > 0:
                d = d % F(dims[i])
                d = min(d, F(dims[i]) - d)
            if not d <= L:
                ok = False
                break
        if ok:
            out.append(agent.id)
    return out


def query_and_check(env, point, leeway, axis_leeways, where, style=0):
    if style == 0:
        got = env.get_agents_at(point[0], point[1], point[2], leeway, axis_leeways[0], axis_leeways[1], axis_leeways[2])
    else:
        got = env.get_agents_at(z_leeway=axis_leeways[2], y_pos=point[1], leeway=leeway, x_pos=point[0],
                                x_leeway=axis_leeways[0], z_pos=point[2], y_leeway=axis_leeways[1])
    out = []
    if type(got) is not list:
        out.append(f'{where}: result is a {type(got).__name__}, not a list')
    want = expected_ids(env, point, leeway, axis_leeways)
    got_ids = [a.id for a in got]
    if got_ids != want:
        out.append(f'{where}: get_agents_at{tuple(point)} leeway={leeway!r} axis={tuple(axis_leeways)} -> {got_ids}, '
                   f'expected {want};  positions='
                   f'{[(a.id, a[PositionComponent].xyz()) for a in env]}')
    if any(env.agents.get(a.id) is not a for a in got):
        out.append(f'{where}: returned objects are not the resident agents')
    return out


def make_world(kind, model, dims, wrap, wid='ENVIRONMENT'):
    if kind == 'cont':
        return SpaceWorld(model, dims[0], dims[1], dims[2], id=wid, wrap_env=wrap)
    if kind == 'grid3':
        return DiscreteWorld(model, dims[0], dims[1], dims[2], id=wid, wrap_env=wrap)
    if kind == 'line':
        return LineWorld(model, dims[0], id=wid, wrap_env=wrap)
    return GridWorld(model, dims[0], dims[1], id=wid, wrap_env=wrap)


def coord(rng, ext, grid):
    if ext <= 0:
        return rng.choice([0, 0, 0, 1, -2, 3]) if grid else rng.choice([0, 0.0, 0.5, -1.25, 3.0])
    if grid:
        return rng.randrange(ext)
    return rng.choice([0, 0.0, ext, ext / 2 if ext % 0.5 == 0 else 0.25, rng.randrange(int(ext * 4) + 1) / 4])


def qpoint(rng, ext, grid):
    e = ext if ext > 0 else 3
    r = rng.random()
    if r < 0.5:
        v = rng.randrange(int(e * 4) + 1) / 4
        return int(v) if grid and rng.random() < 0.7 else v
    if r < 0.8:
        return rng.choice([-1, -0.25, e, e + 1, e + 0.25, -e, 2 * e, -2 * e - 0.5, 3 * e + 1, 1000, -1000, -0.0])
    return rng.choice([0, e - 1 if grid else e, e / 2 if (e / 2) % 0.25 == 0 else 0])


def leeways(rng, ext):
    e = ext if ext > 0 else 3
    pool = [0, 0.0, 0, 0.25, 0.5, 1, 1.0, 1.5, 2, 3, -1, -0.5, -3, e / 2 if (e / 2) % 0.25 == 0 else 1, e, e + 1,
            (e - 1) / 2 if ((e - 1) / 2) % 0.25 == 0 else 2, True, False, -0.0, 100]
    return rng.choice(pool)


def run_history(kind, dims, wrap, seed, steps=60, n_agents=6, digest=None):
    rng = random.Random(seed)
    grid = kind != 'cont'
    model = Model()
    env = make_world(kind, model, dims, wrap)
    agents = {i: Agent(f'a{i}', model) for i in range(n_agents)}
    problems = []
    for step in range(steps):
        a = agents[rng.randrange(n_agents)]
        resident = a.id in env.agents
        r = rng.random()
        pos = [coord(rng, dims[i], grid) for i in range(3)]
        if not resident:
            if r < 0.85:
                # coincident placement with some probability
                others = list(env)
                if others and rng.random() < 0.3:
                    pos = list(rng.choice(others)[PositionComponent].xyz())
                env.add_agent(a, *pos)
        elif r < 0.35:
            delta = [rng.choice([0, 1, -1, 2, -3, 7]) if grid else rng.choice([0, 0.25, -0.5, 1, -1.75, 6.5])
                     for _ in range(3)]
            env.move(a, *delta)
        elif r < 0.6:
            env.move_to(a, *pos)
        elif r < 0.75:
            env.remove_agent(a.id)
        # queries
        for q in range(4):
            residents = list(env)
            if residents and rng.random() < 0.5:
                # aim at a face: query point = agent position shifted by exactly the leeway on one axis
                base = list(rng.choice(residents)[PositionComponent].xyz())
                L = rng.choice([0, 0.5, 1, 2, 1.25])
                ax = rng.randrange(3)
                base[ax] = base[ax] + rng.choice([-1, 1]) * L
                point = base
                if rng.random() < 0.5:
                    lw, axl = L, [rng.choice([0, -1, L]) for _ in range(3)]
                else:
                    lw, axl = rng.choice([0, -2, L]), [L, L, L]
                    axl[rng.randrange(3)] = rng.choice([L, L + 0.5])
            else:
                point = [qpoint(rng, dims[i], grid) for i in range(3)]
                lw = leeways(rng, max(dims))
                axl = [leeways(rng, dims[i]) if rng.random() < 0.6 else 0 for i in range(3)]
            where = f'{kind} dims={dims} wrap={wrap} seed={seed} step={step}'
            problems += query_and_check(env, point, lw, axl, where, style=q % 2)
            if digest is not None:
                digest.update(repr([x.id for x in env.get_agents_at(point[0], point[1], point[2], lw, *axl)]).encode())
        if problems:
            break
    return problems


def world_configs():
    cfgs = []
    for w in (0, 1, 2, 5, 8):
        for h in (0, 1, 4):
            for d in (0, 3):
                cfgs.append(('grid3', (w, h, d)))
    for w in (1, 2, 6, 9):
        cfgs.append(('line', (w, 0, 0)))
        for h in (1, 3, 6):
            cfgs.append(('grid2', (w, h, 0)))
    for w in (0, 1, 1.0, 2.5, 8, 10.0, 7.25):
        for h in (0, 1.0, 5, 3.5):
            for d in (0, 4.0):
                cfgs.append(('cont', (w, h, d)))
    return cfgs


# ----------------------------------------------------------------------------------------------------------------------
# Experiments
# ----------------------------------------------------------------------------------------------------------------------

def exp_differential(seeds=3):
    problems = []
    for kind, dims in world_configs():
        for wrap in (False, True):
            for seed in range(seeds):
                problems += run_history(kind, dims, wrap, seed)
                if len(problems) > 20:
                    return problems
    return problems


def exp_exhaustive_small():
    """Exhaustive: one agent on every cell of a small world, every query point in and around the world, all leeway
    combinations from a small set (zero, equal, one larger than the other, negative)."""
    problems = []
    lws = [0, 1, 2, -1, 0.5, 3]
    for kind, dims in (('line', (5, 0, 0)), ('grid2', (4, 3, 0)), ('cont', (4, 3, 0)), ('grid3', (3, 1, 2)),
                       ('cont', (2.5, 0, 2))):
        for wrap in (False, True):
            model = Model()
            env = make_world(kind, model, dims, wrap)
            n = 0
            xs = [i / 2 for i in range(int(dims[0] * 2) + 1)] if kind == 'cont' else range(dims[0])
            ys = ([i / 2 for i in range(int(dims[1] * 2) + 1)] if kind == 'cont' else range(dims[1])) if dims[1] else [0]
            zs = (range(int(dims[2]) + 1) if kind == 'cont' else range(dims[2])) if dims[2] else [0]
            for z in zs:
                for y in ys:
                    for x in xs:
                        env.add_agent(Agent(n, model), x, y, z)
                        n += 1
            for qx in [v / 2 for v in range(-6, int(dims[0] * 2) + 7)]:
                for qy in ([v / 2 for v in range(-3, int(dims[1] * 2) + 4)] if dims[1] else [0, 1]):
                    for qz in ([-1, 0, 1, dims[2], dims[2] + 1] if dims[2] else [0]):
                        for lw in lws:
                            for xl in lws:
                                problems += query_and_check(env, (qx, qy, qz), lw, (xl, 0, 0), f'{kind}{dims} wrap={wrap}')
                        problems += query_and_check(env, (qx, qy, qz), -1, (2, 1, 0.5), f'{kind}{dims} wrap={wrap}')
                        problems += query_and_check(env, (qx, qy, qz), 1, (-2, 1.5, 0), f'{kind}{dims} wrap={wrap}')
                        if len(problems) > 10:
                            return problems
    return problems


def exp_faces_and_seam():
    """Agents exactly on the faces of the box, across the seam, in every direction."""
    problems = []
    for wrap in (False, True):
        model = Model()
        env = SpaceWorld(model, 10.0, 10.0, 10.0, wrap_env=wrap)
        pts = {'c': (5, 5, 5), 'xlo': (3, 5, 5), 'xhi': (7, 5, 5), 'ylo': (5, 2, 5), 'yhi': (5, 8, 5), 'zlo': (5, 5, 4.5),
               'zhi': (5, 5, 5.5), 'out': (2.75, 5, 5), 'corner': (7, 8, 5.5), 'seam0': (0, 0, 0), 'seam10': (10, 10, 10),
               'near': (9.5, 0.5, 5)}
        for k, p in pts.items():
            env.add_agent(Agent(k, model), *p)
        for q, lw, axl in (((5, 5, 5), 2, (0, 3, 0.5)), ((5, 5, 5), 0.5, (2, 3, -1)), ((5, 5, 5), 0, (0, 0, 0)),
                           ((0, 0, 0), 0, (0, 0, 0)), ((10, 10, 10), 0, (0, 0, 0)), ((0.5, 9.5, 5), 1, (0, 0, 0)),
                           ((-0.5, 10.5, 5), 0, (0, 0, 0)), ((-0.5, 10.5, 15), 1, (1, 1, 1)), ((20, 20, 20), 0, (0, 0, 0)),
                           ((-10, 0, 30), 0, (0, 0, 0)), ((5, 5, 5), 5, (0, 0, 0)), ((5, 5, 5), 4.5, (0, 5, 0)),
                           ((9, 9, 9), 1.5, (0, 0, 0)), ((-25, 5, 5), 0, (2, 0, 0.5)), ((5, 5, 5), -1, (-2, -3, -1)),
                           ((5, 5, 5), -1, (2, 3, 0.5)), ((5, 5, 5), 100, (0, 0, 0)), ((5, 5, 5), 0, (100, 100, 100))):
            problems += query_and_check(env, q, lw, axl, f'SpaceWorld 10^3 wrap={wrap}')
        # grid: seam distance between cell 0 and cell width-1 is 1
        g = GridWorld(model, 6, 4, id='g', wrap_env=wrap)
        n = 0
        for y in range(4):
            for x in range(6):
                g.add_agent(Agent(n, model), x, y)
                n += 1
        for q in ((0, 0), (5, 3), (-1, -1), (6, 4), (0, 3), (12, -8), (2.5, 1.5)):
            for lw, axl in ((0, (0, 0, 0)), (1, (0, 0, 0)), (0, (1, 0, 0)), (0, (0, 2, 0)), (0.5, (0, 0, 0)),
                            (3, (0, 0, 0)), (2, (3, 1, 0)), (-1, (1, -1, 0)), (-1, (1, 0, 0))):
                problems += query_and_check(g, (q[0], q[1], 0), lw, axl, f'GridWorld 6x4 wrap={wrap}')
    return problems


def exp_order_and_history():
    """Joining order (not id order, not position order), re-joining goes to the back, moved / removed agents."""
    problems = []
    for wrap in (False, True):
        model = Model()
        env = GridWorld(model, 5, 5, wrap_env=wrap)
        ids = ['z', 'b', 10, 'a', 2, '', 0, 'm']
        agents = {i: Agent(i, model) for i in ids}
        for i in ids:
            env.add_agent(agents[i], 2, 2)
        if [a.id for a in env.get_agents_at(2, 2)] != ids:
            problems.append(f'joining order lost: {[a.id for a in env.get_agents_at(2, 2)]}')
        env.remove_agent('b')
        env.move(agents['a'], 1, 0)
        env.move_to(agents[2], 0, 0)
        env.add_agent(agents['b'], 2, 2)  # rejoins -> last
        env.move(agents['a'], -1, 0)  # back again, keeps its original rank
        want = ['z', 10, 'a', '', 0, 'm', 'b']
        got = [a.id for a in env.get_agents_at(2, 2)]
        if got != want:
            problems.append(f'after history: {got}, expected {want}')
        if [a.id for a in env.get_agents_at(0, 0)] != [2]:
            problems.append('moved agent not found at its new cell')
        if env.get_agents_at(4, 4) != [] or env.get_agents_at(4, 4) is env.get_agents_at(4, 4):
            problems.append('empty query is not a fresh empty list')
        res = env.get_agents_at(2, 2)
        res.clear()  # mutating the result must not disturb the world
        if [a.id for a in env.get_agents_at(2, 2)] != want:
            problems.append('mutating the result changed the world')
        for i in list(env.agents):
            env.remove_agent(i)
        if env.get_agents_at(2, 2, leeway=10) != []:
            problems.append('empty world does not give []')
    return problems


def exp_number_types():
    problems = []
    for wrap in (False, True):
        model = Model()
        env = GridWorld(model, 8, 8, wrap_env=wrap)
        env.add_agent(Agent('i', model), 3, 4)
        env.add_agent(Agent('n', model), np.int64(3), np.int32(5))
        env.add_agent(Agent('b', model), True, False)
        env.add_agent(Agent('e', model), 7, 7)
        for q, lw, axl in (((np.int64(3), np.int64(4), 0), np.int64(1), (0, 0, 0)),
                           ((np.float64(3.0), 4.5, 0), 0.5, (np.float32(0.0), 0, 0)),
                           ((True, False, False), False, (False, False, False)),
                           ((True, False, False), True, (2, 4, False)),
                           ((np.int8(-1), np.int8(-1), 0), 0, (0, 0, 0)),
                           ((3, 4, 0), np.float64(-1.0), (np.int64(0), np.int64(1), 0)),
                           ((Fraction(7, 2), Fraction(9, 2), 0), Fraction(1, 2), (0, 0, 0))):
            problems += query_and_check(env, [float(v) if isinstance(v, np.floating) else v for v in q], lw, axl,
                                        f'number types wrap={wrap}')
        cont = SpaceWorld(model, 8.0, np.float64(8.0), 0, id='c', wrap_env=wrap)
        cont.add_agent(Agent('f', model), np.float64(7.75), 0.25)
        cont.add_agent(Agent('g', model), 0, -0.0)
        cont.add_agent(Agent('h', model), 8, 8.0)
        for q, lw, axl in (((7.75, 0.25, 0), 0, (0, 0, 0)), ((-0.0, 0.0, 0), -0.0, (0, -0.0, 0)),
                           ((np.float64(0.0), 0, 0), np.float64(0.25), (0, 0, 0)), ((8, 8, 0), 0, (0, 0, 0)),
                           ((-0.25, 8.25, 0), 0, (0, 0, 0)), ((4, 4, 0), 4, (0, 0, 0)), ((4, 4, 0), 3.75, (0, 4, 0))):
            problems += query_and_check(cont, q, lw, axl, f'continuous number types wrap={wrap}')
    return problems


def exp_inside_timestep_and_complete():
    problems = []

    class Scout(System):
        def __init__(self, model, env, sink):
            super().__init__('scout', model, priority=5)
            self.env, self.sink, self.n = env, sink, 0

        def execute(self):
            rng = self.model.random
            for agent in list(self.env):
                self.env.move(agent, rng.randint(-2, 2), rng.randint(-2, 2))
                p = agent[PositionComponent]
                self.sink.extend(query_and_check(self.env, (p.x, p.y, 0), rng.choice([0, 1, -1]),
                                                 (rng.choice([0, 2]), 0, 0), 'inside timestep'))
                if agent not in self.env.get_agents_at(p.x, p.y):
                    self.sink.append('agent does not find itself at its own position')
            self.n += 1
            self.env.add_agent(Agent(f'n{self.n}', self.model), self.n % 6, 0)
            if self.n % 2 == 0:
                gone = next(iter(self.env))
                self.env.remove_agent(gone.id)
                if gone in self.env.get_agents_at(0, 0, leeway=100):
                    self.sink.append('removed agent still returned')

    for wrap in (False, True):
        for standalone in (False, True):
            model = Model(seed=9)
            env = GridWorld(model, 6, 5, wrap_env=wrap)
            if not standalone:
                model.set_environment(env)
            model.systems.add_system(Scout(model, env, problems))
            for i in range(4):
                env.add_agent(Agent(f's{i}', model), i, i)
            model.execute(10)
            model.complete()
            model.execute(2)
            problems += query_and_check(env, (2, 2, 0), 2, (0, 0, 0), 'completed model')
            problems += query_and_check(env, (0, 0, 0), 0, (1, 0, 0), 'completed model')
    return problems


def exp_several_worlds_models_subclasses():
    problems = []

    class Sheep(Agent):
        pass

    class Ranch(GridWorld):
        def __init__(self, model, wid):
            super().__init__(model, 6, 6, id=wid, wrap_env=True)

    class Lake(SpaceWorld):
        __slots__ = ['name']

    m1, m2 = Model(), Model()
    worlds = [Ranch(m1, 'r1'), Ranch(m2, 'r2'), Lake(m1, 6.0, 6.0, 0, id='l1'), GridWorld(m1, 6, 6)]
    m1.set_environment(worlds[3])
    Sheep.add_class_component(PositionComponent(Sheep, m1, 1, 1, 0))  # class component is not a position in a world
    try:
        for n, w in enumerate(worlds):
            for k in range(4):
                w.add_agent(Sheep(f's{k}', w.model), (k + n) % 6, k)  # same ids in every world
        for n, w in enumerate(worlds):
            for q in ((0, 0, 0), (5, 3, 0), (n, 0, 0), (-1, 0, 0)):
                problems += query_and_check(w, q, 1, (0, 0, 0), f'world #{n}')
        # replace the model environment: old world keeps answering from its own population
        m1.set_environment(worlds[0])
        problems += query_and_check(worlds[3], (3, 0, 0), 0, (0, 0, 0), 'replaced environment')
        worlds[3].remove_agent('s0')
        problems += query_and_check(worlds[3], (3, 0, 0), 3, (0, 0, 0), 'replaced environment')
        problems += query_and_check(worlds[0], (0, 0, 0), 0, (0, 0, 0), 'other world after removal elsewhere')
    finally:
        Sheep.remove_class_component(PositionComponent)
    return problems


def exp_copy_pickle():
    problems = []
    for wrap in (False, True):
        model = Model(seed=1)
        env = SpaceWorld(model, 4.0, 4.0, 0, wrap_env=wrap)
        model.set_environment(env)
        for i, p in enumerate(((0, 0), (4, 4), (2, 2), (3.75, 0.25), (2, 2))):
            env.add_agent(Agent(f'a{i}', model), *p)
        for clone in (copy.deepcopy(model), pickle.loads(pickle.dumps(model))):
            cenv = clone.environment
            for q in ((0, 0, 0), (2, 2, 0), (4.25, -0.25, 0)):
                problems += query_and_check(cenv, q, 0.25, (0, 0.5, 0), f'clone wrap={wrap}')
                a = [x.id for x in cenv.get_agents_at(*q, 0.25)]
                b = [x.id for x in env.get_agents_at(*q, 0.25)]
                if a != b:
                    problems.append(f'clone answers {a}, original {b}')
            cenv.remove_agent('a2')
            cenv.move(cenv.get_agent('a4'), 1, 1)
            problems += query_and_check(cenv, (2, 2, 0), 1, (0, 0, 0), 'clone after history')
            problems += query_and_check(env, (2, 2, 0), 1, (0, 0, 0), 'original after clone history')
    return problems


def _worker(args):
    kind, dims, wrap, seed = args
    digest = hashlib.sha256()
    problems = run_history(kind, dims, wrap, seed, digest=digest)
    return problems, digest.hexdigest()


def exp_multiprocessing():
    import multiprocessing as mp
    jobs = [(k, d, w, s) for k, d in (('grid2', (6, 3, 0)), ('cont', (7.25, 3.5, 0)), ('grid3', (5, 0, 3)))
            for w in (False, True) for s in (21, 22)]
    local = [_worker(j) for j in jobs]
    problems = []
    ctx = mp.get_context('spawn')
    pool = ctx.Pool(3)
    try:
        remote = pool.map_async(_worker, jobs).get(timeout=120)
    except Exception as e:
        note(f'multiprocessing experiment could not complete: {type(e).__name__}: {e}')
        return problems
    finally:
        pool.terminate()
    for j, l, r in zip(jobs, local, remote):
        problems += l[0] + r[0]
        if l[1] != r[1]:
            problems.append(f'history {j}: worker process answered differently from the parent')
    return problems


def exp_hash_seed():
    problems = []
    digests = set()
    for hs in ('0', '1', '4242'):
        envv = dict(os.environ, PYTHONHASHSEED=hs)
        p = subprocess.run([sys.executable, os.path.abspath(__file__), '--digest'], env=envv, capture_output=True,
                           text=True, timeout=600)
        if p.returncode != 0:
            problems.append(f'PYTHONHASHSEED={hs}: child failed: {p.stdout[-300:]} {p.stderr[-300:]}')
        digests.add(p.stdout.strip().splitlines()[-1] if p.stdout.strip() else '')
    if len(digests) != 1:
        problems.append(f'query results depend on the hash seed: {digests}')
    return problems


def exp_zero_extent_axes():
    """Worlds with absent axes (extent 0): the agent's stored coordinate on that axis still takes part in the box
    (plain distance, never wrapped)."""
    problems = []
    for wrap in (False, True):
        model = Model()
        env = LineWorld(model, 6, wrap_env=wrap)
        env.add_agent(Agent('p', model), 0)
        env.add_agent(Agent('q', model), 5)
        env.add_agent(Agent('r', model), 5, 3, -2)  # absent axes accept any coordinate
        for q, lw, axl in (((0, 0, 0), 0, (0, 0, 0)), ((5, 0, 0), 0, (0, 0, 0)), ((5, 3, -2), 0, (0, 0, 0)),
                           ((5, 0, 0), 0, (0, 3, 2)), ((-1, 0, 0), 0, (0, 0, 0)), ((-1, 0, 0), 3, (0, 0, 0)),
                           ((6, 9, 4), 0, (0, 6, 6)), ((0, 0, 0), -1, (1, 3, 2))):
            problems += query_and_check(env, q, lw, axl, f'LineWorld(6) wrap={wrap}')
        d = DiscreteWorld(model, 0, 4, 0, id='d', wrap_env=wrap)
        d.add_agent(Agent('u', model), 9, 0, 0)
        d.add_agent(Agent('v', model), 0, 3, 0)
        for q, lw, axl in (((9, 0, 0), 0, (0, 0, 0)), ((0, -1, 0), 0, (0, 0, 0)), ((0, 4, 0), 0, (9, 0, 0)),
                           ((5, 1, 0), 1, (4, 0, 0))):
            problems += query_and_check(d, q, lw, axl, f'DiscreteWorld(0,4,0) wrap={wrap}')
    return problems


def exp_defaults_and_keywords():
    problems = []
    model = Model()
    env = SpaceWorld(model, 5, 5, 5)
    env.add_agent(Agent('o', model))
    env.add_agent(Agent('p', model), 1, 1, 1)
    if [a.id for a in env.get_agents_at()] != ['o']:
        problems.append('get_agents_at() with defaults does not query the origin')
    if [a.id for a in env.get_agents_at(leeway=1)] != ['o', 'p']:
        problems.append('leeway keyword')
    if [a.id for a in env.get_agents_at(0, 0, z_leeway=1)] != ['o']:
        problems.append('z_leeway alone must not widen x/y')
    if [a.id for a in env.get_agents_at(1, 1, 0, z_leeway=1)] != ['p']:
        problems.append('z_leeway keyword')
    if [a.id for a in env.get_agents_at(0, 0, 0, 0, 1, 1, 1)] != ['o', 'p']:
        problems.append('positional per-axis leeways')
    if [a.id for a in env.get_agents_at(0, 0, 0, float('inf'))] != ['o', 'p']:
        problems.append('infinite leeway')
    return problems


def exp_out_of_scope_observations():
    # (1) one-ulp rounding at a face for non-dyadic floats: the two branches round differently
    res = {}
    for wrap in (False, True):
        model = Model()
        env = SpaceWorld(model, 10.0, 0, 0, wrap_env=wrap)
        env.add_agent(Agent('a', model), 0.4)
        res[wrap] = [a.id for a in env.get_agents_at(0.3, leeway=0.1)]
    if res[False] != res[True]:
        note(f'floating-point rounding at a box face: agent at x=0.4, get_agents_at(0.3, leeway=0.1) -> {res[False]} in '
             f'a non-wrapping SpaceWorld(10.0) (compares against fl(0.3+0.1)=0.4) but {res[True]} in the wrapping one '
             f'(compares |0.4-0.3|=0.10000000000000003 with 0.1).  In exact arithmetic the doubles are '
             f'0.1000000000000000333 apart (> 0.1), so the difference is below one ulp; the statement is silent about '
             f'floating-point rounding (cf. the decided 2**53 case).')

    # (2) half-failed removal leaves a resident without position: the query then crashes (other property)
    class Extra(Component):
        pass

    model = Model()
    env = SpaceWorld(model, 5, 5, 0)
    a = Agent('a', model)
    env.add_agent(a, 1, 1)
    a.add_component(Extra(a, model))
    try:
        env.remove_agent('a')
    except KeyError:
        try:
            env.get_agents_at(1, 1)
        except AttributeError:
            note('known / other property: after a removal that failed half-way the query raises AttributeError.')


EXPERIMENTS = [
    ('01 differential fuzz vs exact reference (histories, faces, coincident agents)', exp_differential),
    ('02 exhaustive small worlds: every cell x query point x leeway combination', exp_exhaustive_small),
    ('03 box faces, corners, seam, query points far outside', exp_faces_and_seam),
    ('04 joining order, rejoin, moved / removed agents, fresh result lists', exp_order_and_history),
    ('05 bool / numpy / Fraction arguments, negative zero', exp_number_types),
    ('06 queries from inside a timestep, standalone world, completed model', exp_inside_timestep_and_complete),
    ('07 several models / worlds, subclasses, class component, replaced environment', exp_several_worlds_models_subclasses),
    ('08 deepcopy and pickle round trips', exp_copy_pickle),
    ('09 absent (extent-0) axes', exp_zero_extent_axes),
    ('10 defaults, keywords, infinite leeway', exp_defaults_and_keywords),
    ('11 real multiprocessing (spawn, 3 workers)', exp_multiprocessing),
    ('12 hash-seed independence', exp_hash_seed),
]


def main():
    if '--digest' in sys.argv:
        digest = hashlib.sha256()
        problems = []
        for kind, dims in world_configs()[::5]:
            for wrap in (False, True):
                problems += run_history(kind, dims, wrap, 5, digest=digest)
        print(digest.hexdigest())
        return 1 if problems else 0
    for name, fn in EXPERIMENTS:
        try:
            report(name, fn())
        except Exception as e:
            import traceback
            traceback.print_exc()
            report(name, [f'experiment crashed: {type(e).__name__}: {e}'])
    exp_out_of_scope_observations()
    print()
    print(f'{len(VIOLATIONS)} genuine in-scope violation(s); {len(NOTES)} out-of-scope note(s).')
    return 1 if VIOLATIONS else 0


if __name__ == '__main__':
    sys.exit(main())
