"""Second-pass bug hunt for the property

    "Agent queries are exact filters; random picks stay within the filter"

Run with:   cd /tmp/wt-C13-i && PYTHONPATH=/tmp/wt-C13-i /venv/bin/python hunt.py

Every experiment prints OK, NOTE (observation outside the stated scope, not counted) or VIOLATION.
Exit status is 1 iff at least one genuine, in-scope violation was found.
"""
import copy
import hashlib
import itertools
import json
import os
import pickle
import random
import subprocess
import sys
import tempfile
import warnings

import numpy as np

import ECAgent.Core as core
import ECAgent.Tags as Tags
import ECAgent.Batching as batching
import ECAgent.Collectors as collectors
from ECAgent.Environments import GridWorld, LineWorld, DiscreteWorld, SpaceWorld, PositionComponent

HERE = os.path.dirname(os.path.abspath(__file__))
PY = sys.executable

for _t in ('WOLF', 'SHEEP'):  # registered tags 1 and 2; 0 is NONE; everything else is unregistered
    try:
        Tags.add_tag(_t)
    except Tags.DuplicateTagError:
        pass


class CA(core.Component):
    pass


class CB(core.Component):
    pass


class CC(core.Component):
    pass


class CSubA(CA):          # a subclass of a component type is a different component type
    pass


class CNobody(core.Component):   # a type nobody ever carries
    pass


CTYPES = [CA, CB, CC, CSubA]
TEMPLATE_TYPES = [CA, CB, CC, CSubA, CNobody, PositionComponent]
TAG_VALUES = [0, 1, 2, 99, -1, 2 ** 70]          # 0 = default NONE, 1/2 registered, rest unregistered
TAG_FILTERS = [None, 0, 1, 2, 99, -1, 2 ** 70, 12345]


class Sheep(core.Agent):
    pass


class Wolf(core.Agent):
    pass


class Slotted(core.Agent):
    __slots__ = []


Sheep.tag = Tags.SHEEP   # class default tags
Wolf.tag = Tags.WOLF
AGENT_CLASSES = [core.Agent, Sheep, Wolf, Slotted]

ALL_TEMPLATES = [t for k in range(0, 4) for t in itertools.combinations(TEMPLATE_TYPES, k)] + \
                [(CB, CA), (CA, CA), tuple(TEMPLATE_TYPES)]


# ---------------------------------------------------------------------------------------------------------------------
# Reporting helpers
# ---------------------------------------------------------------------------------------------------------------------
VIOLATIONS = []
NOTES = []


def report(name, problems, note=False):
    if not problems:
        print('[OK]        %s' % name)
    elif note:
        NOTES.append(name)
        print('[NOTE]      %s (outside the stated scope - not counted)' % name)
        for p in problems[:6]:
            print('              ' + str(p))
    else:
        VIOLATIONS.append(name)
        print('[VIOLATION] %s' % name)
        for p in problems[:8]:
            print('              ' + str(p))


def experiment(fn):
    try:
        fn()
    except Exception as e:
        import traceback
        traceback.print_exc()
        print('[ERROR]     %s crashed: %r' % (fn.__name__, e))
        VIOLATIONS.append(fn.__name__ + ' (crashed)')


# ---------------------------------------------------------------------------------------------------------------------
# An independent oracle: the hunt keeps its own books (joining order, component types, tag per agent)
# ---------------------------------------------------------------------------------------------------------------------

def make_env(kind, model):
    if kind == 'plain':
        return model.environment
    if kind == 'plain2':            # a second environment that is NOT model.environment
        return core.Environment(model, id='SECOND')
    if kind == 'line':
        env = LineWorld(model, 6)
    elif kind == 'grid':
        env = GridWorld(model, 5, 4)
    elif kind == 'cube':
        env = DiscreteWorld(model, 3, 3, 2)
    elif kind == 'space':
        env = SpaceWorld(model, 6.0, 5.0, wrap_env=True)
    else:
        raise ValueError(kind)
    model.set_environment(env)
    return env


WORLD_KINDS = ('plain', 'plain2', 'line', 'grid', 'cube', 'space')


class Book:
    """Oracle + driver for one environment."""

    def __init__(self, kind, seed, rnd):
        self.kind = kind
        self.model = core.Model(seed=seed)
        self.env = make_env(kind, self.model)
        self.spatial = isinstance(self.env, SpaceWorld)
        self.rnd = rnd                      # the hunt's own generator (drives the history)
        self.order = []                     # ids in joining order
        self.objs = {}                      # id -> agent object
        self.types = {}                     # id -> set of component types
        self.tags = {}                      # id -> tag
        self.counter = 0
        self.graveyard = []                 # ids removed earlier (may be reused)
        self.problems = []

    # -- history operations -------------------------------------------------------------------------------------------
    def op_add(self):
        if self.graveyard and self.rnd.random() < 0.4:
            aid = self.graveyard.pop(self.rnd.randrange(len(self.graveyard)))
        else:
            self.counter += 1
            aid = self.rnd.choice(['a%d' % self.counter, self.counter, (self.counter, 'x'), float(self.counter) + .5])
        if aid in self.objs:
            return
        cls = self.rnd.choice(AGENT_CLASSES)
        explicit = self.rnd.random() < 0.6
        tag = self.rnd.choice(TAG_VALUES) if explicit else None
        agent = cls(aid, self.model, tag=tag) if explicit else cls(aid, self.model)
        comps = set(t for t in CTYPES if self.rnd.random() < 0.45)
        for t in comps:
            agent.add_component(t(agent, self.model))
        if self.spatial:
            if isinstance(self.env, DiscreteWorld):
                self.env.add_agent(agent, self.rnd.randrange(max(1, self.env.width)),
                                   self.rnd.randrange(max(1, self.env.height)),
                                   self.rnd.randrange(max(1, self.env.depth)))
            else:
                self.env.add_agent(agent, self.rnd.uniform(0, self.env.width), self.rnd.uniform(0, self.env.height))
            comps.add(PositionComponent)
        else:
            self.env.add_agent(agent)
        self.order.append(aid)
        self.objs[aid] = agent
        self.types[aid] = comps
        self.tags[aid] = tag if explicit else {core.Agent: 0, Sheep: 2, Wolf: 1, Slotted: 0}[cls]

    def op_remove(self):
        if not self.order:
            return
        aid = self.rnd.choice(self.order)
        self.env.remove_agent(aid)
        self.order.remove(aid)
        self.graveyard.append(aid)
        del self.objs[aid], self.types[aid], self.tags[aid]

    def op_live_component(self):
        """Adds / removes a component of an agent that already lives in the environment (registered properly)."""
        if not self.order:
            return
        aid = self.rnd.choice(self.order)
        agent = self.objs[aid]
        t = self.rnd.choice(CTYPES)
        if t in self.types[aid]:
            self.model.systems.deregister_component(agent[t])
            agent.remove_component(t)
            self.types[aid].discard(t)
        else:
            c = t(agent, self.model)
            agent.add_component(c)
            self.model.systems.register_component(c)
            self.types[aid].add(t)

    def op_retag(self):
        if not self.order:
            return
        aid = self.rnd.choice(self.order)
        tag = self.rnd.choice(TAG_VALUES)
        self.objs[aid].tag = tag
        self.tags[aid] = tag

    def op_failing(self):
        """Operations that must fail without changing anything."""
        if self.order:
            aid = self.rnd.choice(self.order)
            try:
                if self.spatial:
                    self.env.add_agent(core.Agent(aid, self.model), 0, 0)
                else:
                    self.env.add_agent(core.Agent(aid, self.model))
                self.problems.append('duplicate id %r was accepted' % (aid,))
            except core.DuplicateAgentError:
                pass
        try:
            self.env.remove_agent('no such agent')
            self.problems.append('removing an unknown agent succeeded')
        except core.AgentNotFoundError:
            pass
        if self.spatial:
            try:
                self.env.add_agent(core.Agent('off the map', self.model), -1, 0)
                self.problems.append('off-map agent accepted')
            except Exception:
                pass

    def step(self):
        r = self.rnd.random()
        if r < 0.40 or len(self.order) < 2:
            self.op_add()
        elif r < 0.60:
            self.op_remove()
        elif r < 0.75:
            self.op_live_component()
        elif r < 0.90:
            self.op_retag()
        else:
            self.op_failing()

    # -- oracle -------------------------------------------------------------------------------------------------------
    def expected(self, template, tag):
        return [aid for aid in self.order
                if all(t in self.types[aid] for t in template) and (tag is None or self.tags[aid] == tag)]

    def snapshot(self):
        env = self.env
        return ([(k, id(v)) for k, v in env.agents.items()],
                [(id(a), a.id, a.tag, [(t, id(c)) for t, c in a.components.items()],
                  a[PositionComponent].xyz() if PositionComponent in a else None) for a in env.agents.values()],
                {t: [id(c) for c in pool] for t, pool in self.model.systems.component_pools.items()},
                self.model.systems.timestep, len(env), env.id, env.tag, list(env.components))

    # -- checks -------------------------------------------------------------------------------------------------------
    def check_queries(self, templates, tag_filters, where=''):
        env = self.env
        before = self.snapshot()
        for template in templates:
            for tag in tag_filters:
                exp = self.expected(template, tag)
                label = '%s%s get_agents(%s, tag=%r)' % (where, self.kind, ','.join(t.__name__ for t in template), tag)
                kw = {} if tag is None and self.rnd.random() < 0.5 else {'tag': tag}
                got = env.get_agents(*template, **kw)
                if type(got) is not list:
                    self.problems.append('%s returned a %s' % (label, type(got).__name__))
                if [a.id for a in got] != exp or any(a is not self.objs[a.id] for a in got):
                    self.problems.append('%s -> %r, expected %r' % (label, [a.id for a in got], exp))
                # fresh list the caller may modify
                got.reverse()
                got.append('garbage')
                del got[:1]
                again = env.get_agents(*template, **kw)
                if again is got or [a.id for a in again] != exp:
                    self.problems.append('%s: modifying the returned list leaked into the next query' % label)
                # random pick
                state = self.model.random.getstate()
                pick = env.get_random_agent(*template, **kw)
                if not exp:
                    if pick is not None:
                        self.problems.append('%s: random pick %r although nobody matches' % (label, pick.id))
                    if self.model.random.getstate() != state:
                        self.problems.append('%s: an empty pick consumed randomness' % label)
                elif pick is None or pick.id not in exp or pick is not self.objs[pick.id]:
                    self.problems.append('%s: random pick %r outside %r' % (label, getattr(pick, 'id', None), exp))
                # shuffle
                sh = env.shuffle(*template, **kw)
                if type(sh) is not list or sorted(map(id, sh)) != sorted(id(self.objs[i]) for i in exp):
                    self.problems.append('%s: shuffle %r is not a permutation of %r' % (label, [a.id for a in sh], exp))
                sh.append(None)  # fresh as well
                if [a.id for a in env.get_agents(*template, **kw)] != exp:
                    self.problems.append('%s: shuffle altered later queries' % label)
        if self.snapshot() != before:
            self.problems.append('%s%s: the queries altered the environment' % (where, self.kind))


# ---------------------------------------------------------------------------------------------------------------------
# Experiments
# ---------------------------------------------------------------------------------------------------------------------

def e01_random_histories_against_oracle():
    """Random add / remove / live component / retag / failing-operation histories on every kind of environment, every
    template of 0..3 types (plus order / duplicate / all-types templates) x every tag filter, after every few steps."""
    problems = []
    n_queries = 0
    for kind in WORLD_KINDS:
        for seed in range(6):
            b = Book(kind, seed, random.Random(1000 + seed))
            b.check_queries(ALL_TEMPLATES, TAG_FILTERS, where='(empty) ')
            for step in range(70):
                b.step()
                if step % 9 == 0 or step == 69:
                    b.check_queries(ALL_TEMPLATES, TAG_FILTERS)
                    n_queries += len(ALL_TEMPLATES) * len(TAG_FILTERS)
                else:
                    b.check_queries(b.rnd.sample(ALL_TEMPLATES, 4), b.rnd.sample(TAG_FILTERS, 3))
            # empty it completely, check again, refill with re-used ids
            while b.order:
                b.op_remove()
            b.check_queries(ALL_TEMPLATES, TAG_FILTERS, where='(emptied) ')
            for _ in range(10):
                b.op_add()
            b.check_queries(ALL_TEMPLATES, TAG_FILTERS, where='(refilled) ')
            problems += b.problems
    report('e01 random histories vs. independent oracle: 6 environment kinds x 6 seeds x 70 operations, '
           '%d templates x %d tag filters (> %d full query checks)' % (len(ALL_TEMPLATES), len(TAG_FILTERS), n_queries),
           problems)


def e02_reachability_and_permutations():
    """Every candidate is reachable and nothing else is; every permutation of 3 candidates occurs; many model seeds."""
    problems = []
    for kind in ('plain', 'grid', 'space'):
        b = Book(kind, 0, random.Random(5))
        for _ in range(40):
            b.step()
        for template, tag in (((), None), ((CA,), None), ((), 0), ((), 2), ((CB,), 1), ((CA, CB), None), ((), 99),
                              ((PositionComponent,), 0), ((CNobody,), None), ((), 12345)):
            exp = b.expected(template, tag)
            seen, perms, firsts = set(), set(), set()
            for seed in range(300):            # many seeds of the model's generator ...
                b.model.random.seed(seed)
                for _ in range(3):             # ... and several draws per seed
                    p = b.env.get_random_agent(*template, tag=tag)
                    seen.add(None if p is None else p.id)
                s = b.env.shuffle(*template, tag=tag)
                perms.add(tuple(a.id for a in s))
                if s:
                    firsts.add(s[0].id)
            want = set(exp) if exp else {None}
            if seen != want:
                problems.append('%s %r tag=%r: picks reached %r, candidates are %r' % (kind, template, tag, seen, want))
            if exp and firsts != set(exp):
                problems.append('%s %r tag=%r: shuffle never puts %r first' % (kind, template, tag, set(exp) - firsts))
            if any(sorted(map(repr, p)) != sorted(map(repr, exp)) for p in perms):
                problems.append('%s %r tag=%r: a shuffle is not a permutation' % (kind, template, tag))
    # all 6 permutations of exactly 3 candidates, all 2 of 2, the only one of 1
    for n in (1, 2, 3, 4):
        m = core.Model(seed=0)
        for i in range(n):
            m.environment.add_agent(core.Agent(i, m, tag=7))
        m.environment.add_agent(core.Agent('other', m))
        perms = set()
        for seed in range(400):
            m.random.seed(seed)
            perms.add(tuple(a.id for a in m.environment.shuffle(tag=7)))
        if perms != set(itertools.permutations(range(n))):
            problems.append('%d candidates: only %d permutations seen' % (n, len(perms)))
    report('e02 reachability of every candidate / all permutations, 300-400 seeds of the model generator', problems)


def e03_inside_timestep_and_completed():
    """Histories and queries issued by a system from inside a running timestep, and on a completed model."""
    problems = []

    class Driver(core.System):
        def __init__(self, book):
            super().__init__('driver', book.model)
            self.book = book

        def execute(self):
            for _ in range(5):
                self.book.step()
            self.book.check_queries(self.book.rnd.sample(ALL_TEMPLATES, 10), TAG_FILTERS, where='(in step) ')
            # the typical pattern: iterate over a shuffled list while removing agents
            for a in self.book.env.shuffle(CA):
                if self.book.rnd.random() < 0.3 and a.id in self.book.objs:
                    self.book.env.remove_agent(a.id)
                    self.book.order.remove(a.id)
                    self.book.graveyard.append(a.id)
                    del self.book.objs[a.id], self.book.types[a.id], self.book.tags[a.id]
            self.book.check_queries(self.book.rnd.sample(ALL_TEMPLATES, 10), TAG_FILTERS, where='(in step, culled) ')

    for kind in WORLD_KINDS:
        b = Book(kind, 3, random.Random(77))
        b.model.systems.add_system(Driver(b))
        b.model.execute(8)
        b.model.complete()
        b.model.execute()          # no-op
        b.check_queries(ALL_TEMPLATES, TAG_FILTERS, where='(completed) ')
        for _ in range(10):
            b.step()               # environments of completed models still accept add / remove
        b.check_queries(ALL_TEMPLATES, TAG_FILTERS, where='(completed, changed) ')
        problems += b.problems
    report('e03 operations and queries from inside a running timestep; completed models', problems)


def e04_several_environments():
    """Several environments / models alive at once; an environment only lists its own agents. Nested environments
    (an Environment is an Agent) are listed like any other agent and filtered by their own components / tag."""
    problems = []
    m1, m2 = core.Model(seed=1), core.Model(seed=2)
    side = GridWorld(m1, 3, 3, id='SIDE')
    nested = core.Environment(m1, id='NESTED')
    nested.tag = Tags.WOLF
    nested.add_component(CA(nested, m1))
    m1.environment.add_agent(nested)
    a = core.Agent('a', m1, tag=Tags.WOLF)
    a.add_component(CA(a, m1))
    m1.environment.add_agent(a)
    inner = core.Agent('inner', m1, tag=Tags.WOLF)
    nested.add_agent(inner)
    s = core.Agent('a', m1)                      # same id as 'a' but lives in another environment
    side.add_agent(s, 1, 1)
    z = core.Agent('a', m2, tag=Tags.WOLF)       # same id again, other model
    m2.environment.add_agent(z)

    def ids(lst):
        return [x.id for x in lst]
    checks = [
        (m1.environment.get_agents(), [nested, a]),
        (m1.environment.get_agents(CA), [nested, a]),
        (m1.environment.get_agents(tag=Tags.WOLF), [nested, a]),
        (m1.environment.get_agents(CA, tag=0), []),
        (nested.get_agents(), [inner]),
        (nested.get_agents(tag=Tags.WOLF), [inner]),
        (nested.get_agents(CA), []),
        (side.get_agents(), [s]),
        (side.get_agents(PositionComponent, tag=0), [s]),
        (side.get_agents(tag=Tags.WOLF), []),
        (m2.environment.get_agents(tag=Tags.WOLF), [z]),
    ]
    for got, exp in checks:
        if len(got) != len(exp) or any(x is not y for x, y in zip(got, exp)):
            problems.append('got %r expected %r' % (ids(got), ids(exp)))
    for _ in range(50):
        if m1.environment.get_random_agent(tag=Tags.WOLF) not in (nested, a):
            problems.append('pick outside the environment')
        if side.get_random_agent() is not s or nested.get_random_agent() is not inner:
            problems.append('pick from a foreign environment')
        if m2.environment.get_random_agent(CA) is not None:
            problems.append('pick although nobody matches')
    # replacing the environment: the old one keeps answering for its own agents, the new one starts empty
    old = m1.environment
    m1.set_environment(SpaceWorld(m1, 4.0, 4.0))
    if m1.environment.get_agents() != [] or m1.environment.get_random_agent() is not None or \
            m1.environment.shuffle() != []:
        problems.append('a fresh replacement environment is not empty')
    if old.get_agents(CA) != [nested, a]:
        problems.append('the replaced environment lost its agents')
    report('e04 several models / side / nested / replaced environments, identical ids in different environments',
           problems)


def e05_tag_value_zoo():
    """Tag 0 in all its spellings, unregistered, negative, huge, numpy, str and str-subclass tags; class default tags;
    falsy filters are real filters (only None means "no filter")."""
    problems = []

    class S(str):
        pass
    m = core.Model(seed=0)
    env = m.environment
    spec = [('d', None), ('z', 0), ('n', Tags.NONE), ('w', Tags.WOLF), ('u', 99), ('neg', -1), ('big', 2 ** 80),
            ('np1', np.int64(1)), ('np0', np.int32(0)), ('s', 'wolf'), ('ss', S('wolf')), ('e', '')]
    for aid, tag in spec:
        env.add_agent(core.Agent(aid, m) if tag is None else core.Agent(aid, m, tag=tag))
    env.add_agent(Sheep('cls_default', m))           # class default tag 2
    env.add_agent(Sheep('cls_explicit0', m, tag=0))  # explicit 0 beats the class default
    env.add_agent(Sheep('cls_none', m, tag=None))    # None means "class default"

    def ids(**kw):
        return [a.id for a in env.get_agents(**kw)]
    exp = {
        0: ['d', 'z', 'n', 'np0', 'cls_explicit0'],
        Tags.NONE: ['d', 'z', 'n', 'np0', 'cls_explicit0'],
        1: ['w', 'np1'], 2: ['cls_default', 'cls_none'], 99: ['u'], -1: ['neg'], 2 ** 80: ['big'], 2 ** 80 + 1: [],
        'wolf': ['s', 'ss'], '': ['e'], 3: [],
    }
    for tag, want in exp.items():
        if ids(tag=tag) != want:
            problems.append('get_agents(tag=%r) -> %r expected %r' % (tag, ids(tag=tag), want))
        for _ in range(30):
            p = env.get_random_agent(tag=tag)
            if (p is None) != (not want) or (p is not None and p.id not in want):
                problems.append('get_random_agent(tag=%r) -> %r' % (tag, getattr(p, 'id', None)))
                break
        if sorted(a.id for a in env.shuffle(tag=tag)) != sorted(want):
            problems.append('shuffle(tag=%r) is not a permutation of %r' % (tag, want))
    if len(ids()) != len(spec) + 3 or ids(tag=None) != ids():
        problems.append('tag=None is not "no filter"')
    # numpy filter values
    if ids(tag=np.int64(0)) != exp[0] or ids(tag=np.int64(99)) != ['u']:
        problems.append('numpy tag filter values do not compare by value')
    # retagging is picked up immediately (nothing is cached)
    env.get_agent('u').tag = 0
    if ids(tag=99) != [] or 'u' not in ids(tag=0):
        problems.append('a retagged agent is still listed under its old tag')
    # changing a class default later does not retag existing agents, new ones get it
    Sheep.tag = 77
    try:
        env.add_agent(Sheep('late', m))
        if ids(tag=77) != ['late'] or ids(tag=2) != ['cls_default', 'cls_none']:
            problems.append('class default tag change handled wrongly: %r %r' % (ids(tag=77), ids(tag=2)))
    finally:
        Sheep.tag = Tags.SHEEP
    report('e05 tag values: default 0 / NONE / unregistered / negative / huge / numpy / str / class defaults',
           problems)


def e06_template_zoo():
    """Templates: types nobody has, subclass vs base class, duplicates, order, abstract base Component, components added
    after joining or removed later, falsy agents (no components => len(agent) == 0), agents that are falsy and picked."""
    problems = []
    m = core.Model(seed=0)
    env = m.environment
    a = core.Agent('base', m)
    a.add_component(CA(a, m))
    b = core.Agent('sub', m)
    b.add_component(CSubA(b, m))
    c = core.Agent('both', m)
    c.add_component(CA(c, m))
    c.add_component(CSubA(c, m))
    c.add_component(CB(c, m))
    d = core.Agent('bare', m)          # falsy: len(d) == 0
    for x in (a, b, c, d):
        env.add_agent(x)

    def ids(*t, **kw):
        return [x.id for x in env.get_agents(*t, **kw)]
    exp = {(): ['base', 'sub', 'both', 'bare'], (CA,): ['base', 'both'], (CSubA,): ['sub', 'both'],
           (CA, CSubA): ['both'], (CSubA, CA): ['both'], (CA, CA): ['base', 'both'], (CB, CA): ['both'],
           (CNobody,): [], (CA, CNobody): [], (core.Component,): [], (CC,): []}
    for t, want in exp.items():
        if ids(*t) != want:
            problems.append('get_agents%r -> %r expected %r' % (t, ids(*t), want))
    if bool(d):
        problems.append('sanity: a bare agent is expected to be falsy')
    seen = set()
    for seed in range(200):
        m.random.seed(seed)
        p = env.get_random_agent()
        seen.add(p.id if p is not None else None)
    if seen != {'base', 'sub', 'both', 'bare'}:
        problems.append('falsy (component-less) agent not reachable or None returned: %r' % seen)
    # a lone falsy agent must still be returned (not mistaken for "nobody")
    m2 = core.Model(seed=1)
    lone = core.Agent(0, m2)           # falsy id, falsy agent
    m2.environment.add_agent(lone)
    if m2.environment.get_random_agent() is not lone or m2.environment.get_random_agent(tag=0) is not lone or \
            m2.environment.shuffle() != [lone] or m2.environment.get_agents(tag=0) != [lone]:
        problems.append('a lone falsy agent with falsy id 0 is not returned')
    # live changes
    d.add_component(CC(d, m))
    if ids(CC) != ['bare']:
        problems.append('component added after joining is not seen')
    c.remove_component(CA)
    if ids(CA) != ['base'] or ids(CSubA) != ['sub', 'both']:
        problems.append('component removed after joining is still seen')
    report('e06 templates: nobody-types, subclass vs base, duplicates, order, live component changes, falsy agents',
           problems)


def e07_half_completed_operations():
    """Error paths that half-complete must leave the queries exact w.r.t. what is actually in the environment."""
    problems = []
    # remove_agent of an agent with a component that was never registered fails; the agent stays and is listed
    m = core.Model(seed=0)
    env = GridWorld(m, 3, 3)
    m.set_environment(env)
    a = core.Agent('a', m)
    a.add_component(CA(a, m))
    env.add_agent(a, 1, 1)
    b = core.Agent('b', m)
    env.add_agent(b, 2, 2)
    a.add_component(CB(a, m))      # not registered with the SystemManager
    try:
        env.remove_agent('a')
        removed = True
    except KeyError:
        removed = False
    listed = [x.id for x in env.get_agents()]
    in_env = list(env.agents)
    if listed != in_env:
        problems.append('after a failed remove get_agents() %r != env.agents %r' % (listed, in_env))
    for t in ((CA,), (CB,), (PositionComponent,), (CA, CB)):
        want = [k for k, v in env.agents.items() if all(x in v.components for x in t)]
        if [x.id for x in env.get_agents(*t)] != want:
            problems.append('after a failed remove get_agents%r is not exact' % (t,))
    # exception inside a system in mid-timestep
    class Boom(core.System):
        def execute(self):
            self.model.environment.remove_agent('b')
            raise RuntimeError('boom')
    m.systems.add_system(Boom('boom', m))
    try:
        m.execute()
    except RuntimeError:
        pass
    if [x.id for x in env.get_agents()] != list(env.agents) or env.get_agent('b') is not None:
        problems.append('after an exception in mid-timestep the listing is not exact')
    report('e07 half-completed operations (failed remove, exception in mid-timestep): listing == actual content '
           '(removed=%s)' % removed, problems)


def e08_copies_and_pickles():
    """deepcopy / pickle: the copy answers with its own agents, exactly as the original does."""
    problems = []
    for kind in WORLD_KINDS:
        b = Book(kind, 4, random.Random(9))
        for _ in range(40):
            b.step()
        for name, env in (('deepcopy', copy.deepcopy(b.env)), ('pickle', pickle.loads(pickle.dumps(b.env)))):
            originals = set(map(id, b.objs.values()))
            for template in ALL_TEMPLATES[::3]:
                for tag in TAG_FILTERS:
                    got = env.get_agents(*template, tag=tag)
                    if [a.id for a in got] != b.expected(template, tag):
                        problems.append('%s %s: wrong listing' % (kind, name))
                    if any(id(a) in originals for a in got) or any(a is not env.agents[a.id] for a in got):
                        problems.append('%s %s: listing contains foreign objects' % (kind, name))
                    p = env.get_random_agent(*template, tag=tag)
                    if (p is None) != (not got) or (p is not None and all(p is not g for g in got)):
                        problems.append('%s %s: wrong pick' % (kind, name))
        problems += b.problems
    report('e08 deep-copied / pickled environments answer with their own agents', problems)


CHILD = r'''
import sys, json, random
sys.path.insert(0, %(here)r)
import hunt
out = []
for kind in hunt.WORLD_KINDS:
    b = hunt.Book(kind, 1, random.Random(2))
    for _ in range(50):
        b.step()
    b.check_queries(hunt.ALL_TEMPLATES, hunt.TAG_FILTERS)
    out.append([kind, len(b.problems), hunt.digest(b)])
print(json.dumps(out))
'''


def digest(book):
    rows = []
    for template in ALL_TEMPLATES:
        for tag in TAG_FILTERS:
            rows.append([repr(a.id) for a in book.env.get_agents(*template, tag=tag)])
    book.model.random.seed(5)
    rows.append([repr(a.id) for a in book.env.shuffle()])
    pick = book.env.get_random_agent(tag=0)   # careful: a component-less agent is falsy (len(agent) == 0)
    rows.append([repr(None if pick is None else pick.id)])
    return hashlib.sha256(json.dumps(rows).encode()).hexdigest()[:16]


def e09_hash_seed():
    """Same history in fresh interpreters with different PYTHONHASHSEED: no problems and identical answers / order."""
    problems, outs = [], {}
    for hs in ('0', '1', '987', 'random'):
        p = subprocess.run([PY, '-c', CHILD % {'here': HERE}], env=dict(os.environ, PYTHONPATH=HERE, PYTHONHASHSEED=hs),
                           cwd=HERE, capture_output=True, text=True, timeout=300)
        if p.returncode != 0:
            problems.append('child failed: ' + p.stderr[-400:])
            continue
        outs[hs] = json.loads(p.stdout.strip().splitlines()[-1])
        if any(n for _, n, _ in outs[hs]):
            problems.append('PYTHONHASHSEED=%s: oracle mismatches %r' % (hs, outs[hs]))
    if len({json.dumps(v) for v in outs.values()}) > 1:
        problems.append('answers depend on the hash seed: %r' % outs)
    report('e09 identical answers (and joining order) under PYTHONHASHSEED 0 / 1 / 987 / random', problems)


class QueryModel(core.Model):
    """A model that checks its own queries against its own books while it runs (for worker processes)."""
    def __init__(self, seed, kind):
        super().__init__(seed=seed)
        self.book = Book.__new__(Book)
        b = self.book
        b.kind, b.model, b.rnd = kind, self, random.Random(seed)
        b.env = make_env(kind, self)
        b.spatial = isinstance(b.env, SpaceWorld)
        b.order, b.objs, b.types, b.tags, b.counter, b.graveyard, b.problems = [], {}, {}, {}, 0, [], []
        self.systems.add_system(QuerySystem('q', self))
        self.systems.add_system(QueryCollector('c', self))


class QuerySystem(core.System):
    def execute(self):
        b = self.model.book
        for _ in range(6):
            b.step()
        b.check_queries(b.rnd.sample(ALL_TEMPLATES, 12), TAG_FILTERS)
        if self.model.systems.timestep >= 5:
            self.model.complete()


class QueryCollector(collectors.Collector):
    def collect(self):
        self.records.append([len(self.model.book.problems), digest(self.model.book)])


MP_CHILD = r'''
import sys, json
sys.path.insert(0, %(here)r)
import multiprocessing as mp
import hunt
import ECAgent.Batching as batching
if __name__ == '__main__':
    mp.set_start_method(sys.argv[1])
    params = {'seed': [0, 1, 2, 3], 'kind': list(hunt.WORLD_KINDS)}
    multi = batching.batch_run(hunt.QueryModel, params, collectors='c', processes=3)
    single = batching.batch_run(hunt.QueryModel, params, collectors='c', processes=1)
    print(json.dumps({'multi': multi, 'single': single}))
'''


def e10_worker_processes():
    """Models that verify their own queries while running in real batch worker processes (fork and spawn)."""
    problems = []
    for method in ('fork', 'spawn'):
        with tempfile.NamedTemporaryFile('w', suffix='.py', dir=HERE, delete=False) as f:
            f.write(MP_CHILD % {'here': HERE})
            script = f.name
        try:
            p = subprocess.run([PY, script, method], env=dict(os.environ, PYTHONPATH=HERE), cwd=HERE,
                               capture_output=True, text=True, timeout=600)
        except subprocess.TimeoutExpired:
            problems.append('%s: timed out' % method)
            continue
        finally:
            os.unlink(script)
        if p.returncode != 0:
            problems.append('%s: child failed: %s' % (method, p.stderr[-600:]))
            continue
        out = json.loads(p.stdout.strip().splitlines()[-1])
        for mode in ('multi', 'single'):
            if len(out[mode]) != 24 or any(n for recs in out[mode] for n, _ in recs):
                problems.append('%s/%s: a model saw inexact queries: %r' % (method, mode, out[mode]))
        if sorted(map(json.dumps, out['multi'])) != sorted(map(json.dumps, out['single'])):
            problems.append('%s: answers in worker processes differ from in-process answers' % method)
    report('e10 self-checking models in batch worker processes (fork / spawn, processes=3) and in-process', problems)


def e11_id_mutation_note():
    """NOT an add/remove history (the id of a living agent is rewritten by hand) - recorded as a note only."""
    m = core.Model(seed=0)
    a = core.Agent('x', m)
    m.environment.add_agent(a)
    a.id = 'y'
    m.environment.add_agent(a)
    got = m.environment.get_agents()
    problems = []
    if len(got) == 2 and got[0] is got[1]:
        problems.append("a=Agent('x',m); env.add_agent(a); a.id='y'; env.add_agent(a); env.get_agents() lists the "
                        "same agent twice (env.agents has two keys for it). Rewriting the id of an agent that lives "
                        "in an environment is not an add/remove operation, so this is outside the scope.")
    report('e11 id of a living agent rewritten by hand, then added again', problems, note=True)


def e12_loose_equality_note():
    """'precisely that tag' is implemented with ==, so 0 == False == 0.0 == -0.0. Unspecified; recorded as a note."""
    m = core.Model(seed=0)
    m.environment.add_agent(core.Agent('zero', m))
    m.environment.add_agent(core.Agent('one', m, tag=1))
    problems = []
    loose = [(f, [a.id for a in m.environment.get_agents(tag=f)]) for f in (False, True, 0.0, -0.0, 1.0)]
    if any(ids for _, ids in loose):
        problems.append('tag filters compare with ==: %r. bool / float spellings of a tag number match the int tag; '
                        'whether that is "precisely that tag" is unspecified, so it is not counted.' % (loose,))
    report('e12 tag filter False / True / 0.0 / -0.0 / 1.0 against int tags 0 and 1', problems, note=True)


def e13_queries_do_not_touch_model_state():
    """Queries neither register / deregister components, nor move agents, nor advance the clock; get_agents consumes
    no randomness at all; a pick / shuffle only advances the model's own generator."""
    problems = []
    for kind in WORLD_KINDS:
        b = Book(kind, 2, random.Random(3))
        for _ in range(40):
            b.step()
        random.seed(1)
        np.random.seed(1)
        g_py, g_np = random.getstate(), np.random.get_state()[1].copy()
        st = b.model.random.getstate()
        for t in ALL_TEMPLATES:
            for tag in TAG_FILTERS:
                b.env.get_agents(*t, tag=tag)
        if b.model.random.getstate() != st:
            problems.append('%s: get_agents consumed randomness' % kind)
        b.check_queries(ALL_TEMPLATES, TAG_FILTERS)   # contains the snapshot comparison
        if random.getstate() != g_py or (np.random.get_state()[1] != g_np).any():
            problems.append('%s: queries used a global generator' % kind)
        problems += b.problems
    report('e13 queries leave agents, positions, component pools, clock and global generators untouched', problems)


def e14_deprecated_aliases_without_tag():
    """The deprecated aliases (template only; not forwarding tag is known / out of scope) still stay within the
    template."""
    problems = []
    b = Book('grid', 0, random.Random(4))
    for _ in range(40):
        b.step()
    with warnings.catch_warnings():
        warnings.simplefilter('ignore')
        for t in ALL_TEMPLATES:
            exp = b.expected(t, None)
            if [a.id for a in b.env.getAgents(*t)] != exp:
                problems.append('getAgents%r wrong' % (t,))
            p = b.env.getRandomAgent(*t)
            if (p is None) != (not exp) or (p is not None and p.id not in exp):
                problems.append('getRandomAgent%r wrong' % (t,))
    report('e14 deprecated getAgents / getRandomAgent with templates', problems)


def main():
    for fn in (e01_random_histories_against_oracle, e02_reachability_and_permutations,
               e03_inside_timestep_and_completed, e04_several_environments, e05_tag_value_zoo, e06_template_zoo,
               e07_half_completed_operations, e08_copies_and_pickles, e09_hash_seed, e10_worker_processes,
               e11_id_mutation_note, e12_loose_equality_note, e13_queries_do_not_touch_model_state,
               e14_deprecated_aliases_without_tag):
        experiment(fn)
    print()
    print('genuine in-scope violations: %d %s' % (len(VIOLATIONS), VIOLATIONS if VIOLATIONS else ''))
    print('out-of-scope observations  : %d' % len(NOTES))
    return 1 if VIOLATIONS else 0


if __name__ == '__main__':
    import hunt  # run under the module name 'hunt' so that pickles / worker processes can find the classes
    sys.exit(hunt.main())
