"""Bug hunt for the property

    "Agent queries are exact filters; random picks stay within the filter"

Run with:   cd /tmp/wt-C13-h && PYTHONPATH=/tmp/wt-C13-h /venv/bin/python hunt.py

Every experiment prints one of
    OK         - the property held
    VIOLATION  - a genuine violation inside the stated scope (counted, exit status 1)
    ADJACENT   - a real defect that is observable through the queries but whose root cause / specification lies
                 outside this property (NOT counted)
    INFO       - behaviour that is merely unspecified (NOT counted)

Only the public API of ECAgent is used.
"""
import copy
import itertools
import multiprocessing
import os
import pickle
import random
import subprocess
import sys
import traceback
import warnings

warnings.simplefilter('ignore')  # the deprecated aliases warn

import numpy as np  # noqa: E402

import ECAgent.Tags as Tags  # noqa: E402
from ECAgent.Core import Agent, Component, Environment, Model, System  # noqa: E402
from ECAgent.Environments import GridWorld, LineWorld, PositionComponent, SpaceWorld  # noqa: E402

RESULTS = []  # (name, verdict, text)


def report(name, verdict, text=''):
    RESULTS.append((name, verdict, text))
    print(f'[{verdict:9}] {name}' + (f'\n            {text}' if text else ''))


def experiment(func):
    """Runs an experiment; an experiment returns None (OK) or a (verdict, text) tuple / list of such tuples."""
    name = func.__name__
    try:
        out = func()
    except Exception:  # An unexpected crash of the harness itself or of the package
        report(name, 'VIOLATION', 'unexpected exception:\n' + traceback.format_exc())
        return func
    if out is None:
        report(name, 'OK')
    elif isinstance(out, tuple):
        report(name, *out)
    else:
        for item in out:
            report(name, *item)
    return func


# ----------------------------------------------------------------------------------------------------------------------
# Component types / helpers
# ----------------------------------------------------------------------------------------------------------------------

class C0(Component):
    pass


class C1(Component):
    pass


class C2(Component):
    pass


class C3(Component):
    pass


class Ghost(Component):
    """A component type nobody ever carries."""


class SubC1(C1):
    """A subclass of C1 (exact-type semantics are used by the package)."""


class FalsyComponent(Component):
    def __bool__(self):
        return False

    def __len__(self):
        return 0


CTYPES = [C0, C1, C2, C3]


def oracle(joined, template, tag):
    """Reference: agents in joining order that carry every type in template and, if tag is not None, have that tag."""
    out = []
    for a in joined:
        if all(t in a.components for t in template) and (tag is None or a.tag == tag):
            out.append(a)
    return out


def same(a_list, b_list):
    return len(a_list) == len(b_list) and all(x is y for x, y in zip(a_list, b_list))


def snapshot(env):
    return [(k, id(v), v.tag, tuple(v.components)) for k, v in env.agents.items()]


def make_env(kind, model):
    if kind == 'default':
        return model.environment
    if kind == 'standalone':
        return Environment(model, id='OTHER')
    if kind == 'space':
        return SpaceWorld(model, 10.0, 10.0, 10.0)
    if kind == 'grid':
        return GridWorld(model, 5, 5)
    if kind == 'line':
        return LineWorld(model, 7)
    if kind == 'replaced':
        model.set_environment(GridWorld(model, 4, 4))
        return model.environment
    raise ValueError(kind)


ENV_KINDS = ['default', 'standalone', 'space', 'grid', 'line', 'replaced']
TAG_FILTERS = [None, 0, 1, 2, 3, 7, 99, -1, 10 ** 30]
TAG_VALUES = [0, 0, 1, 2, 3, 7, -1, 10 ** 30]  # 7, -1, 10**30 are never registered in any TagLibrary


def check_all_queries(env, joined, where, templates=None, tag_filters=TAG_FILTERS):
    """Checks listing, shuffling and random picking against the oracle. Returns an error string or None."""
    extra = (PositionComponent,) if isinstance(env, SpaceWorld) else ()
    if templates is None:
        templates = [()] + [(t,) for t in CTYPES] + [(C0, C1), (C1, C0), (C1, C2, C3), tuple(CTYPES), (Ghost,),
                                                      (C1, Ghost), (C1, C1)] + [extra] * bool(extra)
    for template in templates:
        for tag in tag_filters:
            before = snapshot(env)
            expect = oracle(joined, template, tag)
            got = env.get_agents(*template, tag=tag) if tag is not None or random.random() < .5 \
                else env.get_agents(*template)
            if not same(got, expect):
                return f'{where}: get_agents({[t.__name__ for t in template]}, tag={tag}) -> ' \
                       f'{[a.id for a in got]} expected {[a.id for a in expect]}'
            got2 = env.get_agents(*template, tag=tag)
            if got2 is got:
                return f'{where}: get_agents returned the same list object twice'
            got.append('junk')
            got.reverse()
            del got[:]
            if not same(env.get_agents(*template, tag=tag), expect):
                return f'{where}: modifying the returned list changed later results'
            sh = env.shuffle(*template, tag=tag)
            if len(sh) != len(expect) or sorted(map(id, sh)) != sorted(map(id, expect)):
                return f'{where}: shuffle({template}, tag={tag}) is not a permutation of the matching agents'
            sh.clear()
            pick = env.get_random_agent(*template, tag=tag)
            if expect:
                if not any(pick is a for a in expect):
                    return f'{where}: get_random_agent({template}, tag={tag}) -> {pick!r} which is not a matching agent'
            elif pick is not None:
                return f'{where}: get_random_agent({template}, tag={tag}) -> {pick!r} although nothing matches'
            if snapshot(env) != before:
                return f'{where}: a query altered the environment'
    return None


# ----------------------------------------------------------------------------------------------------------------------
# 1. Randomised differential test over histories, environments, templates, tags, seeds
# ----------------------------------------------------------------------------------------------------------------------

@experiment
def e01_random_histories_all_environment_kinds():
    rng = random.Random(20260927)
    for trial in range(120):
        kind = ENV_KINDS[trial % len(ENV_KINDS)]
        model = Model(seed=rng.choice([None, 0, 1, trial, 'seed', 2 ** 70, -5, 1.5, b'bytes']))
        env = make_env(kind, model)
        joined = []  # Reference: agents in joining order
        pool = []    # Agents currently outside (may be re-added)
        counter = 0
        for step in range(rng.randint(5, 45)):
            op = rng.random()
            if op < .5 or not joined:
                if pool and rng.random() < .4:
                    a = pool.pop(rng.randrange(len(pool)))  # Re-add an agent that was removed earlier
                    if rng.random() < .5:
                        a.tag = rng.choice(TAG_VALUES)
                else:
                    counter += 1
                    a = Agent(f'a{counter}', model, tag=rng.choice([None] + TAG_VALUES))
                    for t in CTYPES:
                        if rng.random() < .4:
                            a.add_component(t(a, model))
                if isinstance(env, SpaceWorld) and rng.random() < .7:
                    env.add_agent(a, rng.randint(0, 3), rng.randint(0, 3))
                else:
                    env.add_agent(a)
                joined.append(a)
            elif op < .8:
                a = joined.pop(rng.randrange(len(joined)))
                env.remove_agent(a.id)
                pool.append(a)
            elif op < .9:
                rng.choice(joined).tag = rng.choice(TAG_VALUES)  # Tags may change after joining
            else:
                a = rng.choice(joined)  # Dropping a component after joining (the filter must see the current state)
                have = [t for t in CTYPES if t in a.components]
                if have:
                    a.remove_component(rng.choice(have))
            if step % 7 == 0:
                err = check_all_queries(env, joined, f'trial {trial} ({kind}) step {step}')
                if err:
                    return 'VIOLATION', err
        err = check_all_queries(env, joined, f'trial {trial} ({kind}) end')
        if err:
            return 'VIOLATION', err
        if rng.random() < .3:
            model.complete()  # Completed models still answer queries
            err = check_all_queries(env, joined, f'trial {trial} ({kind}) after complete()')
            if err:
                return 'VIOLATION', err


# ----------------------------------------------------------------------------------------------------------------------
# 2. Random picks: None when empty, every matching agent reachable, nothing else reachable, over many seeds
# ----------------------------------------------------------------------------------------------------------------------

def _population(model, env, n=12):
    joined = []
    for i in range(n):
        a = Agent(f'p{i}', model, tag=[0, 1, 5][i % 3])
        if i % 2:
            a.add_component(C1(a, model))
        if i % 4 == 1:
            a.add_component(C2(a, model))
        env.add_agent(a)
        joined.append(a)
    return joined


@experiment
def e02_reachability_over_many_seeds():
    for kind in ENV_KINDS:
        for template, tag in [((), None), ((), 0), ((C1,), None), ((C1,), 5), ((C1, C2), 1), ((), 5), ((Ghost,), None),
                              ((), 42)]:
            seen = set()
            expect_ids = None
            for seed in range(300):
                model = Model(seed=seed)
                env = make_env(kind, model)
                joined = _population(model, env)
                expect = oracle(joined, template, tag)
                expect_ids = {a.id for a in expect}
                state = model.random.getstate()
                pick = env.get_random_agent(*template, tag=tag)
                if not expect:
                    if pick is not None:
                        return 'VIOLATION', f'{kind}: pick {pick} for empty filter'
                    if model.random.getstate() != state:
                        return 'INFO', 'the generator is advanced even when nothing matches'
                    continue
                if pick.id not in expect_ids:
                    return 'VIOLATION', f'{kind}: seed {seed} picked {pick.id}, not in {expect_ids}'
                seen.add(pick.id)
                # The pick is a pure function of the seed
                m2 = Model(seed=seed)
                e2 = make_env(kind, m2)
                _population(m2, e2)
                if e2.get_random_agent(*template, tag=tag).id != pick.id:
                    return 'VIOLATION', f'{kind}: seed {seed} is not reproducible'
            if expect_ids and seen != expect_ids:
                return 'VIOLATION', f'{kind}: template {template} tag {tag}: unreachable agents {expect_ids - seen}'


@experiment
def e03_shuffle_many_seeds_all_orders_reachable():
    orders = set()
    for seed in range(400):
        model = Model(seed=seed)
        joined = []
        for i in range(3):
            a = Agent(f's{i}', model, tag=0)
            a.add_component(C1(a, model))
            model.environment.add_agent(a)
            joined.append(a)
        extra = Agent('x', model, tag=1)
        model.environment.add_agent(extra)
        sh = model.environment.shuffle(C1, tag=0)
        if sorted(a.id for a in sh) != ['s0', 's1', 's2']:
            return 'VIOLATION', f'seed {seed}: shuffle -> {[a.id for a in sh]}'
        if [a.id for a in model.environment.get_agents()] != ['s0', 's1', 's2', 'x']:
            return 'VIOLATION', 'shuffle reordered the environment'
        orders.add(tuple(a.id for a in sh))
    if len(orders) != 6:
        return 'VIOLATION', f'only {len(orders)} of 6 orders reachable'


# ----------------------------------------------------------------------------------------------------------------------
# 3. Falsy things: agents without components (len 0), falsy components, environments as agents, empty ids
# ----------------------------------------------------------------------------------------------------------------------

class EqAgent(Agent):
    def __eq__(self, other):
        return True

    def __hash__(self):
        return 1


@experiment
def e04_falsy_agents_components_and_ids():
    model = Model(seed=4)
    env = model.environment
    joined = []
    bare = Agent('', model)                    # falsy id, no components => bool(agent) is False
    zero = Agent(0, model, tag=0)              # falsy non-str id
    none_id = Agent(None, model, tag=1)
    fc = Agent('fc', model, tag=0)
    fc.add_component(FalsyComponent(fc, model))
    inner = Environment(model, id='INNER')     # an (empty => falsy) environment used as an agent
    inner.add_component(C1(inner, model))
    eq1, eq2 = EqAgent('eq1', model, tag=1), EqAgent('eq2', model, tag=0)  # agents that compare equal to everything
    eq1.add_component(C1(eq1, model))
    for a in (bare, zero, none_id, fc, inner, eq1, eq2):
        env.add_agent(a)
        joined.append(a)
    assert not bare and not inner and not fc[FalsyComponent]
    err = check_all_queries(env, joined, 'falsy', templates=[(), (FalsyComponent,), (C1,), (C1, FalsyComponent)])
    if err:
        return 'VIOLATION', err
    picks = {id(env.get_random_agent()) for _ in range(300)}
    if picks != {id(a) for a in joined}:
        return 'VIOLATION', 'falsy agents are not all reachable by get_random_agent()'
    env.remove_agent('')
    env.remove_agent(0)
    joined = joined[2:]
    err = check_all_queries(env, joined, 'falsy after removal', templates=[(), (FalsyComponent,), (C1,)])
    if err:
        return 'VIOLATION', err
    # An environment that contains itself
    env.add_agent(env)
    joined.append(env)
    err = check_all_queries(env, joined, 'self containing', templates=[(), (C1,)])
    if err:
        return 'VIOLATION', err


# ----------------------------------------------------------------------------------------------------------------------
# 4. Ids: str subclasses, equal-but-different ids, tuple ids, ids mutated after joining
# ----------------------------------------------------------------------------------------------------------------------

class MyStr(str):
    pass


@experiment
def e05_unusual_ids():
    from ECAgent.Core import DuplicateAgentError
    model = Model(seed=5)
    env = model.environment
    joined = []
    for i, aid in enumerate([MyStr('k'), 1, (1, 2), 'K', frozenset({1}), 2.5, 10 ** 40]):
        a = Agent(aid, model, tag=i % 2)
        if i % 2:
            a.add_component(C1(a, model))
        env.add_agent(a)
        joined.append(a)
    for clash in ('k', True, 1.0):  # equal (==, same hash) to ids already present
        try:
            env.add_agent(Agent(clash, model))
            return 'VIOLATION', f'id {clash!r} accepted although an equal id exists'
        except DuplicateAgentError:
            pass
    err = check_all_queries(env, joined, 'ids')
    if err:
        return 'VIOLATION', err
    joined[0].id = 'renamed'  # Mutating an id after joining must not disturb the listing
    err = check_all_queries(env, joined, 'renamed id')
    if err:
        return 'VIOLATION', err
    env.remove_agent('k')     # still stored under its joining id
    err = check_all_queries(env, joined[1:], 'renamed id removed')
    if err:
        return 'VIOLATION', err


# ----------------------------------------------------------------------------------------------------------------------
# 5. Tags: 0 / default, class defaults, unregistered, negative, huge, bool, float, -0.0, numpy, str, local libraries
# ----------------------------------------------------------------------------------------------------------------------

class Wolf(Agent):
    pass


class Sheep(Agent):
    tag = 3  # a plain class attribute in the body (shadowed by the metaclass property; instances get the class default)


@experiment
def e06_tag_values():
    out = []
    for name in ('HUNT_WOLF', 'HUNT_SHEEP'):
        try:
            Tags.add_tag(name)
        except Tags.DuplicateTagError:
            pass
    local = Tags.TagLibrary()
    for i in range(9):
        local.add_tag(f'PAD{i}')
    local.add_tag('LOCAL_ONLY')  # value 10: does not collide with the two global tags used here
    Wolf.tag = Tags.HUNT_WOLF
    model = Model(seed=6)
    env = model.environment
    joined = []
    specs = [
        (Agent, 'default', None), (Agent, 'zero', 0), (Wolf, 'wolf_default', None), (Wolf, 'wolf_zero', 0),
        (Sheep, 'sheep_default', None), (Agent, 'sheep_tag', Tags.HUNT_SHEEP), (Agent, 'local', local.LOCAL_ONLY),
        (Agent, 'unreg', 12345), (Agent, 'neg', -7), (Agent, 'huge', 2 ** 200), (Agent, 'np', np.int64(2)),
        (Agent, 'str', 'label'), (Agent, 'emptystr', ''),
    ]
    for cls, aid, tag in specs:
        a = cls(aid, model) if tag is None else cls(aid, model, tag=tag)
        a.add_component(C1(a, model))
        env.add_agent(a)
        joined.append(a)
    filters = [None, 0, Tags.NONE, Tags.HUNT_WOLF, Tags.HUNT_SHEEP, local.LOCAL_ONLY, local.NONE, 12345, -7, 2 ** 200,
               2 ** 200 + 1, np.int64(2), np.int64(0), 2, 'label', '', 3, 999]
    err = check_all_queries(env, joined, 'tags', templates=[(), (C1,), (C1, Ghost)], tag_filters=filters)
    if err:
        return 'VIOLATION', err
    # explicit spot checks of the clauses that matter most
    ids = lambda lst: [a.id for a in lst]  # noqa: E731
    if ids(env.get_agents(tag=0)) != ['default', 'zero', 'wolf_zero', 'sheep_default']:
        return 'VIOLATION', f'tag=0 filter -> {ids(env.get_agents(tag=0))}'
    if ids(env.get_agents(tag=Tags.HUNT_WOLF)) != ['wolf_default']:
        return 'VIOLATION', f'class default tag filter -> {ids(env.get_agents(tag=Tags.HUNT_WOLF))}'
    if ids(env.get_agents(tag='')) != ['emptystr']:
        return 'VIOLATION', "tag='' filter"
    # Equal-but-not-identical numeric tags: merely unspecified ("precisely that tag" is read as ==)
    notes = []
    for flt, label in [(False, 'False'), (0.0, '0.0'), (-0.0, '-0.0'), (True, 'True'), (1.0, '1.0')]:
        got = ids(env.get_agents(tag=flt))
        want = ids(oracle(joined, (), flt))
        if got != want:
            return 'VIOLATION', f'tag={label}: {got} vs == oracle {want}'
        notes.append(f'tag={label}->{len(got)}')
    out.append(('OK', ''))
    out.append(('INFO', 'tag comparison is ==, so False/0.0/-0.0 match tag 0 and True/1.0 match tag 1, and tags of a '
                        'local TagLibrary collide with global tags of the same number (' + ', '.join(notes) + ')'))
    nan = float('nan')
    a = Agent('nan', model, tag=nan)
    env.add_agent(a)
    if env.get_agents(tag=nan) != []:
        return 'VIOLATION', 'nan handling changed'
    out.append(('INFO', 'an agent whose tag is float("nan") is never returned by tag=nan (nan != nan); not a legal '
                        'tag, not counted'))
    return out


@experiment
def e07_tag_mutation_after_joining_is_seen():
    model = Model(seed=7)
    env = GridWorld(model, 3, 3)
    a, b = Agent('a', model), Agent('b', model)
    env.add_agent(a, 1, 1)
    env.add_agent(b, 2, 2)
    a.tag = 9
    if env.get_agents(tag=9) != [a] or env.get_agents(tag=0) != [b] or env.get_random_agent(tag=9) is not a:
        return 'VIOLATION', 'tag changed after joining is not honoured'
    a.tag = 0
    if env.get_agents(tag=0) != [a, b] or env.get_agents(tag=9) != [] or env.get_random_agent(tag=9) is not None:
        return 'VIOLATION', 'tag changed back after joining is not honoured'


# ----------------------------------------------------------------------------------------------------------------------
# 6. Templates: 0..k types, duplicates, order, ghost types, subclass types, many classes, class components
# ----------------------------------------------------------------------------------------------------------------------

@experiment
def e08_templates_exhaustive_small():
    out = []
    model = Model(seed=8)
    env = model.environment
    joined = []
    n = 0
    for r in range(len(CTYPES) + 1):
        for combo in itertools.combinations(CTYPES, r):
            for tag in (0, 1):
                a = Agent(f't{n}', model, tag=tag)
                n += 1
                for t in reversed(combo):  # insertion order of components is irrelevant
                    a.add_component(t(a, model))
                env.add_agent(a)
                joined.append(a)
    templates = []
    for r in range(len(CTYPES) + 2):
        templates += list(itertools.permutations(CTYPES + [Ghost], r))[:60]
    err = check_all_queries(env, joined, 'templates', templates=templates, tag_filters=[None, 0, 1, 2])
    if err:
        return 'VIOLATION', err
    # Many component classes created on the fly
    many = [type(f'Dyn{i}', (Component,), {}) for i in range(150)]
    m2 = Model(seed=88)
    j2 = []
    for i in range(40):
        a = Agent(f'd{i}', m2, tag=i % 3)
        for t in many[i::7]:
            a.add_component(t(a, m2))
        m2.environment.add_agent(a)
        j2.append(a)
    err = check_all_queries(m2.environment, j2, 'many classes',
                            templates=[(), (many[0],), (many[0], many[7]), tuple(many[3::7]), tuple(many)],
                            tag_filters=[None, 0, 2])
    if err:
        return 'VIOLATION', err
    # subclass / class components: exact-type semantics, unspecified by the property
    m3 = Model()
    s = Agent('s', m3)
    s.add_component(SubC1(s, m3))
    m3.environment.add_agent(s)
    Wolf.add_class_component(C2(Wolf, m3)) if C2 not in Wolf else None
    w = Wolf('w', m3)
    m3.environment.add_agent(w)
    out.append(('OK', ''))
    out.append(('INFO', f'get_agents(C1) with an agent carrying only SubC1(C1) -> {len(m3.environment.get_agents(C1))} '
                        f'agents (exact type match); class components do not count: get_agents(C2) -> '
                        f'{len(m3.environment.get_agents(C2))} agents. Unspecified, not counted.'))
    Wolf.remove_class_component(C2)
    return out


# ----------------------------------------------------------------------------------------------------------------------
# 7. Several models / worlds alive at once, environment replaced, set_model, subclasses
# ----------------------------------------------------------------------------------------------------------------------

class SlotEnv(Environment):
    __slots__ = ['extra']


class DictAgent(Agent):
    def __init__(self, id, model, tag=None):
        super().__init__(id, model, tag=tag)
        self.note = 'has a __dict__'


@experiment
def e09_several_models_and_environments():
    ma, mb = Model(seed=1), Model(seed=1)
    ea, eb = GridWorld(ma, 4, 4), SlotEnv(mb, id='SLOT')
    ma.set_environment(ea)
    old_b = mb.environment
    ja, jb, jold = [], [], []
    for i in range(8):
        a = DictAgent(f'x{i}', ma, tag=i % 2)
        b = Agent(f'x{i}', mb, tag=(i + 1) % 2)  # same ids in another model
        o = Agent(f'x{i}', mb, tag=5)
        if i % 3 == 0:
            a.add_component(C1(a, ma))
            b.add_component(C2(b, mb))
        ea.add_agent(a, i % 4, i % 4)
        eb.add_agent(b)
        old_b.add_agent(o)
        ja.append(a), jb.append(b), jold.append(o)
    for env, joined, name in ((ea, ja, 'grid of model a'), (eb, jb, 'slot env of model b'), (old_b, jold, 'default b')):
        err = check_all_queries(env, joined, name)
        if err:
            return 'VIOLATION', err
    # an agent of a foreign model joins, the environment changes model
    foreign = Agent('foreign', ma, tag=1)
    foreign.add_component(C1(foreign, ma))
    eb.add_agent(foreign)
    jb.append(foreign)
    eb.set_model(ma)
    err = check_all_queries(eb, jb, 'after set_model')
    if err:
        return 'VIOLATION', err
    s_before = mb.random.getstate()
    eb.get_random_agent()
    eb.shuffle()
    if mb.random.getstate() != s_before:
        return 'VIOLATION', 'environment still draws from its former model after set_model'


# ----------------------------------------------------------------------------------------------------------------------
# 8. Operations issued from inside a running timestep
# ----------------------------------------------------------------------------------------------------------------------

class Reaper(System):
    """Each step: walks a shuffled listing, removes / adds agents while walking, flips tags."""

    def __init__(self, model, joined, errors):
        super().__init__('reaper', model, priority=5)
        self.joined = joined
        self.errors = errors
        self.n = 0

    def execute(self):
        env = self.model.environment
        listing = env.get_agents()
        for a in env.shuffle(C1):
            if self.model.random.random() < .3:
                env.remove_agent(a.id)
                self.joined.remove(a)
            elif self.model.random.random() < .3:
                self.n += 1
                b = Agent(f'born{self.n}', self.model, tag=self.n % 3)
                b.add_component(C1(b, self.model))
                env.add_agent(b)
                self.joined.append(b)
            else:
                a.tag = (a.tag + 1) % 3
        if len(listing) and not all(isinstance(x, Agent) for x in listing):
            self.errors.append('listing corrupted')
        err = check_all_queries(env, self.joined, f'inside timestep {self.model.systems.timestep}',
                                templates=[(), (C1,), (C1, C2)], tag_filters=[None, 0, 1, 2])
        if err:
            self.errors.append(err)


class Checker(System):
    def __init__(self, model, joined, errors):
        super().__init__('checker', model, priority=1)
        self.joined, self.errors = joined, errors

    def execute(self):
        err = check_all_queries(self.model.environment, self.joined, 'second system',
                                templates=[(), (C1,)], tag_filters=[None, 0, 1])
        if err:
            self.errors.append(err)
        if self.model.systems.timestep == 15:
            self.model.complete()


@experiment
def e10_queries_from_inside_a_running_timestep():
    for seed in range(15):
        model = Model(seed=seed)
        joined, errors = [], []
        for i in range(12):
            a = Agent(f'i{i}', model, tag=i % 3)
            if i % 2 == 0:
                a.add_component(C1(a, model))
            if i % 4 == 0:
                a.add_component(C2(a, model))
            model.environment.add_agent(a)
            joined.append(a)
        model.systems.add_system(Reaper(model, joined, errors))
        model.systems.add_system(Checker(model, joined, errors))
        model.execute(20)
        if errors:
            return 'VIOLATION', errors[0]
        err = check_all_queries(model.environment, joined, 'after the run (model complete)')
        if err:
            return 'VIOLATION', err


# ----------------------------------------------------------------------------------------------------------------------
# 9. deepcopy / pickle round trips
# ----------------------------------------------------------------------------------------------------------------------

def _describe(env):
    rows = []
    for template in [(), (C1,), (C1, C2), (Ghost,)]:
        for tag in (None, 0, 1, 5, 42):
            rows.append(([a.id for a in env.get_agents(*template, tag=tag)],
                         getattr(env.get_random_agent(*template, tag=tag), 'id', None),
                         [a.id for a in env.shuffle(*template, tag=tag)]))
    return rows


@experiment
def e11_copy_and_pickle_round_trips():
    for kind in ('default', 'grid', 'space'):
        model = Model(seed=11)
        env = make_env(kind, model)
        if kind != 'default':
            model.set_environment(env)
        _population(model, env)
        env.remove_agent('p3')
        clone = copy.deepcopy(model)
        revived = pickle.loads(pickle.dumps(model, protocol=pickle.HIGHEST_PROTOCOL))
        want = _describe(model.environment)
        for other, name in ((clone, 'deepcopy'), (revived, 'pickle')):
            if _describe(other.environment) != want:
                return 'VIOLATION', f'{kind}: {name} of the model answers queries differently'
            if any(a.model is not other for a in other.environment.get_agents()):
                return 'VIOLATION', f'{kind}: {name} shares agents with the original'


# ----------------------------------------------------------------------------------------------------------------------
# 10. Real multiprocessing (processes > 1, with timeouts) and hash-seed independence
# ----------------------------------------------------------------------------------------------------------------------

def _worker(seed):
    warnings.simplefilter('ignore')
    model = Model(seed=seed)
    env = GridWorld(model, 5, 5)
    model.set_environment(env)
    joined = _population(model, env)
    err = check_all_queries(env, joined, f'worker seed {seed}', templates=[(), (C1,), (C1, C2), (Ghost,)],
                            tag_filters=[None, 0, 1, 5, 42])
    m2 = Model(seed=seed)
    e2 = GridWorld(m2, 5, 5)
    _population(m2, e2)
    return seed, err, _describe(e2)


@experiment
def e12_multiprocessing_pool():
    seeds = list(range(24))
    local = [_worker(s) for s in seeds]
    ctx = multiprocessing.get_context('fork')
    with ctx.Pool(3) as pool:
        remote = pool.map_async(_worker, seeds).get(timeout=120)
    for (s1, err1, d1), (s2, err2, d2) in zip(local, remote):
        if err1 or err2:
            return 'VIOLATION', err1 or err2
        if d1 != d2:
            return 'VIOLATION', f'seed {s1}: a worker process answers queries differently from the parent process'


@experiment
def e13_hash_seed_independence():
    code = (
        "import warnings; warnings.simplefilter('ignore')\n"
        "from ECAgent.Core import *\n"
        "class C1(Component): pass\n"
        "class C2(Component): pass\n"
        "m = Model(seed=99)\n"
        "for i in range(30):\n"
        "    a = Agent('agent-%d' % (i * 7919 % 31), m, tag=i % 3)\n"
        "    if i % 2: a.add_component(C1(a, m))\n"
        "    if i % 5 == 0: a.add_component(C2(a, m))\n"
        "    m.environment.add_agent(a)\n"
        "m.environment.remove_agent('agent-0')\n"
        "e = m.environment\n"
        "print([x.id for x in e.get_agents()], [x.id for x in e.get_agents(C1, tag=1)],\n"
        "      [x.id for x in e.get_agents(C2, C1)], e.get_random_agent(C1).id, e.get_random_agent(tag=0).id,\n"
        "      [x.id for x in e.shuffle(C1, tag=2)])\n"
    )
    outs = set()
    for hs in ('0', '1', '4242', 'random'):
        env = dict(os.environ, PYTHONHASHSEED=hs, PYTHONPATH=os.path.dirname(os.path.abspath(__file__)))
        res = subprocess.run([sys.executable, '-c', code], env=env, capture_output=True, text=True, timeout=120)
        if res.returncode != 0:
            return 'VIOLATION', 'child failed: ' + res.stderr[-500:]
        outs.add(res.stdout)
    if len(outs) != 1:
        return 'VIOLATION', 'query results depend on PYTHONHASHSEED'


# ----------------------------------------------------------------------------------------------------------------------
# 11. Spatial worlds: queries do not depend on position bookkeeping, PositionComponent is an ordinary template entry
# ----------------------------------------------------------------------------------------------------------------------

@experiment
def e14_spatial_worlds_and_position_component():
    for wrap in (False, True):
        model = Model(seed=14)
        env = GridWorld(model, 4, 4, wrap_env=wrap)
        joined = []
        for i in range(10):
            a = Agent(f'g{i}', model, tag=i % 2)
            if i % 3 == 0:
                a.add_component(C1(a, model))
            env.add_agent(a, i % 4, (i * 3) % 4)
            joined.append(a)
        for a in joined:
            env.move(a, 5, -7)
        env.move_to(joined[0], 3, 3)
        err = check_all_queries(env, joined, f'grid wrap={wrap}',
                                templates=[(), (PositionComponent,), (PositionComponent, C1), (C1,)])
        if err:
            return 'VIOLATION', err
        try:
            env.add_agent(Agent('outside', model), 99, 99)
            return 'VIOLATION', 'out of range add accepted'
        except Exception:
            pass
        err = check_all_queries(env, joined, 'after rejected out-of-range add', templates=[(), (PositionComponent,)])
        if err:
            return 'VIOLATION', 'a rejected (out of range) add left traces: ' + err
        gone = joined.pop(4)
        env.remove_agent(gone.id)
        if PositionComponent in gone:
            return 'INFO', 'removed agent keeps its PositionComponent'
        env.add_agent(gone, 0, 0)  # re-joins at the end of the order
        joined.append(gone)
        err = check_all_queries(env, joined, 're-added', templates=[(), (PositionComponent,), (C1,)])
        if err:
            return 'VIOLATION', err


# ----------------------------------------------------------------------------------------------------------------------
# 12. Components gained after joining: the filter sees them (OK) - but the agent can then no longer be removed
# ----------------------------------------------------------------------------------------------------------------------

@experiment
def e15_components_gained_after_joining():
    out = []
    model = Model(seed=15)
    env = model.environment
    a, b = Agent('a', model), Agent('b', model)
    env.add_agent(a)
    env.add_agent(b)
    a.add_component(C1(a, model))  # gained after joining
    if env.get_agents(C1) != [a] or env.get_random_agent(C1) is not a or env.shuffle(C1) != [a]:
        return 'VIOLATION', 'component gained after joining is not seen by the template filter'
    out.append(('OK', ''))
    try:
        env.remove_agent('a')
        still = False
    except KeyError as e:
        still = env.get_agents() == [a, b]
        msg = str(e)
    if still:
        out.append(('ADJACENT', 'an agent that gained a component AFTER joining can never be removed again: '
                                f'remove_agent("a") raises KeyError({msg[:60]}...) and the agent stays listed. The '
                                'listing is consistent with len(env)/env.agents, so the filter property itself holds; '
                                'the defect is in Environment.remove_agent (Core.py:863-865).'))
    return out


# ----------------------------------------------------------------------------------------------------------------------
# 13. Error paths of add_agent that half-complete
# ----------------------------------------------------------------------------------------------------------------------

class ValueComponent(Component):
    """A component with value equality (the way a dataclass-like component would behave)."""
    __slots__ = ['v']

    def __init__(self, agent, model, v):
        super().__init__(agent, model)
        self.v = v

    def __eq__(self, other):
        return type(other) is type(self) and other.v == self.v

    __hash__ = None


@experiment
def e16_half_completed_add_agent():
    found = []
    # (a) the same agent (with a component) offered to a second environment of the same model
    model = Model(seed=16)
    second = Environment(model, id='SECOND')
    a = Agent('a', model)
    a.add_component(C1(a, model))
    model.environment.add_agent(a)
    try:
        second.add_agent(a)
    except KeyError:
        if second.get_agents() == [a] and second.get_random_agent() is a:
            found.append('(a) Environment.add_agent raised KeyError (component already registered) yet the agent is '
                         'listed by get_agents()/picked by get_random_agent() of that environment')
    # (b) an agent that already sits in a spatial world offered to another spatial world
    model = Model(seed=16)
    w1, w2 = GridWorld(model, 3, 3), GridWorld(model, 3, 3, id='W2')
    a = Agent('a', model)
    w1.add_agent(a, 1, 1)
    try:
        w2.add_agent(a, 2, 2)
    except ValueError:
        if w2.get_agents() == [a] and w2.shuffle(PositionComponent) == [a]:
            found.append('(b) SpaceWorld.add_agent raised ValueError (agent already has a PositionComponent) yet the '
                         'agent is listed in the second world')
    # (c) two agents whose components compare equal
    model = Model(seed=16)
    a, b = Agent('a', model), Agent('b', model)
    a.add_component(ValueComponent(a, model, 5))
    b.add_component(ValueComponent(b, model, 5))
    model.environment.add_agent(a)
    try:
        model.environment.add_agent(b)
    except KeyError:
        if model.environment.get_agents(ValueComponent) == [a, b]:
            found.append('(c) second agent with an ==-equal component: add_agent raised KeyError yet the agent is '
                         'listed')
    # control: the documented rejection (duplicate id) is clean
    model = Model()
    model.environment.add_agent(Agent('a', model))
    try:
        model.environment.add_agent(Agent('a', model, tag=4))
    except Exception:
        pass
    if len(model.environment.get_agents()) != 1 or model.environment.get_agents(tag=4):
        return 'VIOLATION', 'duplicate id rejection left traces'
    if found:
        return 'ADJACENT', ('add_agent is not atomic: it stores the agent BEFORE the step that can fail '
                            '(Core.py:838-840, Environments.py:295-296), so an add that raised still shows up in '
                            'every query. The queries agree with len(env)/env.agents/get_agent(), i.e. they ARE exact '
                            'filters of what the environment stores; whether a rejected add may leave the agent inside '
                            'is unspecified, therefore not counted.\n            ' + '\n            '.join(found))


# ----------------------------------------------------------------------------------------------------------------------
# 14. The deprecated spellings getAgents / getRandomAgent
# ----------------------------------------------------------------------------------------------------------------------

@experiment
def e17_deprecated_aliases():
    model = Model(seed=17)
    env = model.environment
    joined = []
    for i in range(6):
        a = Agent(f'z{i}', model, tag=i % 2)
        if i % 3 == 0:
            a.add_component(C1(a, model))
        env.add_agent(a)
        joined.append(a)
    if not same(env.getAgents(), joined) or not same(env.getAgents(C1), oracle(joined, (C1,), None)):
        return 'VIOLATION', 'getAgents() without tag differs from get_agents()'
    if env.getRandomAgent(C1) not in oracle(joined, (C1,), None) or env.getRandomAgent(Ghost) is not None:
        return 'VIOLATION', 'getRandomAgent() without tag is wrong'
    problems = []
    for name, call in (('getAgents(tag=1)', lambda: env.getAgents(tag=1)),
                       ('getAgents(C1, tag=0)', lambda: env.getAgents(C1, tag=0)),
                       ('getRandomAgent(tag=1)', lambda: env.getRandomAgent(tag=1))):
        try:
            call()
        except TypeError as e:
            problems.append(f'{name} -> TypeError: {e}')
    if problems:
        return 'VIOLATION', ('(minor, loud) the deprecated spellings cannot filter by tag at all although they are '
                             'documented as equivalents ("Use get_agents instead") and ECAgent/Tags.py line 73 '
                             'documents exactly `environment.getAgents(tag = Tags.PREY)`:\n            '
                             + '\n            '.join(problems))


# ----------------------------------------------------------------------------------------------------------------------
# 15. Same agent object stored twice (id changed between two adds) - self inflicted, informational
# ----------------------------------------------------------------------------------------------------------------------

@experiment
def e18_same_object_twice():
    model = Model()
    a = Agent('first', model)
    model.environment.add_agent(a)
    a.id = 'second'
    model.environment.add_agent(a)
    n = len(model.environment.get_agents())
    return 'INFO', f'one agent object joined under two ids is listed {n} times (consistent with len(env)=' \
                   f'{len(model.environment)}); self-inflicted, not counted'


# ----------------------------------------------------------------------------------------------------------------------
# 16. Objects reused across calls: the same template tuple / the returned list fed back / generator state
# ----------------------------------------------------------------------------------------------------------------------

@experiment
def e19_reuse_across_calls():
    model = Model(seed=19)
    env = LineWorld(model, 9)
    joined = []
    for i in range(9):
        a = Agent(f'l{i}', model, tag=i % 2)
        if i % 2 == 0:
            a.add_component(C1(a, model))
        env.add_agent(a, i)
        joined.append(a)
    template = [C1, PositionComponent]
    first = env.get_agents(*template, tag=0)
    template.append(Ghost)  # mutating the caller's template afterwards is harmless
    second = env.get_agents(C1, PositionComponent, tag=0)
    if not same(first, second) or first is second:
        return 'VIOLATION', 'reused template gives different answers'
    # interleaving queries of two environments sharing one generator keeps both exact
    other = Environment(model, id='B')
    oj = []
    for i in range(4):
        b = Agent(f'o{i}', model, tag=1)
        other.add_agent(b)
        oj.append(b)
    for _ in range(50):
        p, q = env.get_random_agent(C1), other.get_random_agent(tag=1)
        if p not in oracle(joined, (C1,), None) or q not in oj:
            return 'VIOLATION', 'interleaved picks leak between environments'
    # replacing the generator by a fresh seeded one is honoured
    model.random = random.Random(5)
    x = env.get_random_agent().id
    model.random = random.Random(5)
    if env.get_random_agent().id != x:
        return 'VIOLATION', 'picks do not come from model.random'


# ----------------------------------------------------------------------------------------------------------------------
# 17. The package's own batch runner with processes > 1: every model checks the property inside its worker process
# ----------------------------------------------------------------------------------------------------------------------

class SelfCheckingModel(Model):
    def __init__(self, seed, n):
        super().__init__(seed=seed)
        from ECAgent.Collectors import Collector
        self.joined = []
        for i in range(n):
            a = Agent(f'b{i}', self, tag=i % 3)
            if i % 2:
                a.add_component(C1(a, self))
            self.environment.add_agent(a)
            self.joined.append(a)

        class Probe(Collector):
            def collect(inner):
                env = inner.model.environment
                if len(inner.model.joined) > 2 and inner.model.random.random() < .5:
                    gone = inner.model.joined.pop(1)
                    env.remove_agent(gone.id)
                err = check_all_queries(env, inner.model.joined, 'batch worker', templates=[(), (C1,), (Ghost,)],
                                        tag_filters=[None, 0, 1, 2, 9])
                inner.records.append((err, [a.id for a in env.get_agents(C1, tag=1)],
                                      getattr(env.get_random_agent(tag=0), 'id', None)))
                if inner.model.systems.timestep >= 3:
                    inner.model.complete()

        self.systems.add_system(Probe('probe', self))


@experiment
def e20_batch_run_with_two_processes():
    import signal
    from ECAgent.Batching import batch_run

    def too_slow(*_):
        raise TimeoutError('batch_run(processes=2) did not finish within 120 s')

    params = {'seed': [1, 2, 3, 4], 'n': [0, 1, 9]}
    signal.signal(signal.SIGALRM, too_slow)
    signal.alarm(120)
    try:
        parallel = batch_run(SelfCheckingModel, params, collectors='probe', processes=2, max_timesteps=10)
    finally:
        signal.alarm(0)
    serial = batch_run(SelfCheckingModel, params, collectors='probe', processes=1, max_timesteps=10)
    for run in parallel + serial:
        for err, _, _ in run:
            if err:
                return 'VIOLATION', err
    if len(parallel) != 12 or sorted(map(repr, parallel)) != sorted(map(repr, serial)):
        return 'VIOLATION', 'worker processes answer the queries differently from a serial run'


# ----------------------------------------------------------------------------------------------------------------------

def main():
    counted = [r for r in RESULTS if r[1] == 'VIOLATION']
    adjacent = [r for r in RESULTS if r[1] == 'ADJACENT']
    print()
    print(f'{len(RESULTS)} results: {sum(r[1] == "OK" for r in RESULTS)} OK, {len(counted)} VIOLATION (counted), '
          f'{len(adjacent)} ADJACENT (not counted), {sum(r[1] == "INFO" for r in RESULTS)} INFO (not counted)')
    for name, _, text in counted:
        print(f'  VIOLATION in {name}: {text.splitlines()[0]}')
    return 1 if counted else 0


if __name__ == '__main__':
    sys.exit(main())
