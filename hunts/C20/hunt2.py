"""Second-pass bug hunt for property C20: "Class components and default tags belong to exactly one agent class".

Run with:  cd /tmp/wt-C20-i && PYTHONPATH=/tmp/wt-C20-i /venv/bin/python hunt.py
Exit status 1 iff at least one genuine in-scope violation was found, else 0.  Public API only.
"""
import copy
import os
import pickle
import random
import subprocess
import sys
import tempfile
import types

import ECAgent.Tags as Tags
from ECAgent.Core import Agent, Component, ComponentNotFoundError, Environment, Model
from ECAgent.Environments import DiscreteWorld, GridWorld, LineWorld, PositionComponent, SpaceWorld

VIOLATIONS = []


def report(name, problem=None):
    if problem is None:
        print(f"[OK]        {name}")
    else:
        print(f"[VIOLATION] {name}: {problem}")
        VIOLATIONS.append(name)


def note(name, text):
    print(f"[NOTE]      {name}: {text}")


class K1(Component):
    pass


class K2(Component):
    def __init__(self, agent, model, v=0):
        super().__init__(agent, model)
        self.v = v


class K2sub(K2):
    pass


KINDS = [K1, K2, K2sub, Component, PositionComponent]


def make_component(kind, owner, model):
    return kind(owner, model)


PACKAGE_CLASSES = [Agent, Environment, SpaceWorld, DiscreteWorld, LineWorld, GridWorld]


def instantiate(cls, model, n, tag=None):
    """Creates an instance of any class of the hierarchy through its public constructor."""
    if issubclass(cls, GridWorld):
        return cls(model, 2, 2)
    if issubclass(cls, LineWorld):
        return cls(model, 3)
    if issubclass(cls, DiscreteWorld):
        return cls(model, 2, 2, 0)
    if issubclass(cls, SpaceWorld):
        return cls(model, 2.0, 2.0)
    if issubclass(cls, Environment):
        return cls(model)
    if tag is None:
        return cls(f"i{n}", model)
    return cls(f"i{n}", model, tag=tag) if n % 2 else cls(f"i{n}", model, tag)


def reset_package_classes():
    for c in PACKAGE_CLASSES:
        c.tag = Tags.NONE
        for k in list(c.components):
            c.remove_class_component(k)


# ---------------------------------------------------------------------------------------------------------------------
# 1. Random model-based histories over a growing class hierarchy
# ---------------------------------------------------------------------------------------------------------------------
def check_everything(ref, classes, instances):
    for c in classes:
        r = ref[c]
        if c.tag is not r['tag'] and c.tag != r['tag']:
            return f"{c.__name__}.tag == {c.tag!r}, expected {r['tag']!r}"
        if type(c.tag) is not type(r['tag']):
            return f"{c.__name__}.tag has type {type(c.tag).__name__}, expected {type(r['tag']).__name__}"
        if len(c) != len(r['comps']):
            return f"len({c.__name__}) == {len(c)}, expected {len(r['comps'])}"
        if dict(c.components) != r['comps'] or list(c.components) != list(r['comps']):
            return f"{c.__name__}.components == {c.components!r}, expected {r['comps']!r}"
        for k in KINDS:
            want = r['comps'].get(k)
            if c[k] is not want or c.get_class_component(k) is not want:
                return f"{c.__name__}[{k.__name__}] is {c[k]!r}, expected {want!r}"
            if (k in c) != (want is not None) or c.has_class_component(k) != (want is not None):
                return f"{k.__name__} in {c.__name__} is {k in c}, expected {want is not None}"
            if want is None:
                try:
                    c.get_class_component(k, True)
                    return f"{c.__name__}.get_class_component({k.__name__}, True) did not raise"
                except ComponentNotFoundError:
                    pass
        if c.has_class_component(*KINDS) != (len(r['comps']) == len(KINDS)):
            return f"{c.__name__}.has_class_component(all kinds) wrong"
    for inst, exp_tag, own in instances:
        if inst.tag is not exp_tag and inst.tag != exp_tag or type(inst.tag) is not type(exp_tag):
            return f"instance {inst.id!r} of {type(inst).__name__}: tag {inst.tag!r}, expected {exp_tag!r}"
        if dict(inst.components) != own:
            return (f"instance {inst.id!r} of {type(inst).__name__}: own components {inst.components!r}, "
                    f"expected {own!r}")
        for k in KINDS:
            if inst[k] is not own.get(k) or (k in inst) != (k in own) or inst.has_component(k) != (k in own):
                return f"instance {inst.id!r} of {type(inst).__name__}: [{k.__name__}] is {inst[k]!r}"
        if not isinstance(inst, Environment) and len(inst) != len(own):
            return f"len(instance) == {len(inst)}, expected {len(own)}"
    return None


def random_history(seed):
    rng = random.Random(seed)
    reset_package_classes()
    model = Model()

    class A(Agent):
        pass

    class B(Agent):
        __slots__ = ['extra']

    class A1(A):
        pass

    class A2(A):
        def __init__(self, id, model, tag=None):
            super().__init__(id, model, tag=tag)

    class A11(A1):
        pass

    class Mixin:
        pass

    class AB(A1, Mixin, B):
        pass

    class MyGrid(GridWorld):
        pass

    class MyEnv(Environment):
        pass

    classes = PACKAGE_CLASSES + [A, B, A1, A2, A11, AB, MyGrid, MyEnv]
    ref = {c: {'tag': Tags.NONE, 'comps': {}} for c in classes}
    instances = []   # (instance, expected tag, dict of own components)
    tag_values = [0, 1, 2, 3, 7, True, False, 10 ** 20, -1]
    n = 0
    for step in range(rng.randrange(20, 90)):
        op = rng.random()
        c = rng.choice(classes)
        desc = ''
        if op < 0.2:
            v = rng.choice(tag_values)
            c.tag = v
            ref[c]['tag'] = v
            desc = f"{c.__name__}.tag = {v!r}"
        elif op < 0.45:
            k = rng.choice(KINDS)
            comp = make_component(k, c, model)
            desc = f"{c.__name__}.add_class_component({k.__name__})"
            try:
                c.add_class_component(comp)
                if k in ref[c]['comps']:
                    return f"seed {seed} step {step}: duplicate accepted by {desc}"
                ref[c]['comps'][k] = comp
            except ValueError:
                if k not in ref[c]['comps']:
                    return f"seed {seed} step {step}: {desc} rejected although absent"
        elif op < 0.6:
            k = rng.choice(KINDS)
            desc = f"{c.__name__}.remove_class_component({k.__name__})"
            try:
                c.remove_class_component(k)
                if k not in ref[c]['comps']:
                    return f"seed {seed} step {step}: {desc} succeeded although absent"
                del ref[c]['comps'][k]
            except ComponentNotFoundError as e:
                if k in ref[c]['comps']:
                    return f"seed {seed} step {step}: {desc} rejected although present"
                if e.agent is not c or e.component_type is not k:
                    return f"seed {seed} step {step}: error carries {e.agent!r}/{e.component_type!r}"
        elif op < 0.8:
            n += 1
            explicit = None
            if not issubclass(c, Environment) and rng.random() < 0.5:
                explicit = rng.choice(tag_values)
            inst = instantiate(c, model, n, explicit)
            exp = ref[c]['tag'] if explicit is None else explicit
            instances.append((inst, exp, {}))
            desc = f"{c.__name__}(...) tag={explicit!r}"
        elif op < 0.9 and instances:
            inst, exp, own = rng.choice(instances)
            k = rng.choice(KINDS)
            desc = f"instance {inst.id!r}: add/remove own component {k.__name__}"
            if k in own:
                inst.remove_component(k)
                del own[k]
            else:
                comp = make_component(k, inst, model)
                inst.add_component(comp)
                own[k] = comp
        elif op < 0.95:
            # a new class appears in the middle of the history, below a class that already carries state
            n += 1
            how = rng.randrange(4)
            if how == 0:
                new = type(c)(f"Dyn{n}", (c,), {})
            elif how == 1:
                new = types.new_class(f"Dyn{n}", (c,))
            elif how == 2:
                class new(c):
                    __slots__ = ()
            else:
                class new(c):
                    def __init_subclass__(cls, **kw):
                        super().__init_subclass__(**kw)
            classes.append(new)
            ref[new] = {'tag': Tags.NONE, 'comps': {}}
            desc = f"new subclass of {c.__name__}"
        else:
            m2 = Model()     # a fresh model's void environment takes Environment's current default
            instances.append((m2.environment, ref[Environment]['tag'], {}))
            desc = "Model()"
        problem = check_everything(ref, classes, instances)
        if problem:
            return f"seed {seed} step {step} after `{desc}`: {problem}"
    return None


def run_random_histories():
    try:
        for seed in range(300):
            problem = random_history(seed)
            if problem:
                report("random histories over a growing hierarchy", problem)
                return
    finally:
        reset_package_classes()
    report("random histories (300 seeds): Agent/Environment/SpaceWorld/DiscreteWorld/LineWorld/GridWorld + siblings, "
           "3-level and diamond subclasses, classes born mid-history; tag changes, attach/detach incl. duplicates and "
           "absents, instances with/without explicit (also falsy) tags, instance-level components, new Models")


# ---------------------------------------------------------------------------------------------------------------------
# 2. Creation hooks and decorators act on the new class only
# ---------------------------------------------------------------------------------------------------------------------
def exp_hooks():
    model = Model()

    class Registering(Agent):
        def __init_subclass__(cls, **kw):
            super().__init_subclass__(**kw)
            cls.tag = 9
            cls.add_class_component(K1(cls, model))

    class Stamp:
        def __set_name__(self, owner, name):
            owner.add_class_component(K2(owner, model, v=name))
            owner.tag = 4 if owner.tag == 0 else owner.tag

    class Child(Registering):
        stamp = Stamp()

    class Grand(Child):
        pass

    def deco(cls):
        cls.tag = 11
        cls.add_class_component(K2sub(cls, model))
        return cls

    @deco
    class Decorated(Grand):
        pass

    if Registering.tag != 0 or len(Registering) != 0:
        return f"parent got the hook's effect: tag {Registering.tag}, {Registering.components}"
    if Child.tag != 9 or set(Child.components) != {K1, K2} or Child[K2].v != 'stamp':
        return f"Child: tag {Child.tag}, {Child.components}"
    if Grand.tag != 9 or set(Grand.components) != {K1} or Grand[K1] is Child[K1]:
        return f"Grand: tag {Grand.tag}, {Grand.components}"
    if Decorated.tag != 11 or set(Decorated.components) != {K1, K2sub}:
        return f"Decorated: tag {Decorated.tag}, {Decorated.components}"
    if Agent.tag != 0 or len(Agent) != 0:
        return "Agent touched"
    if Grand('g', model).tag != 9 or Decorated('d', model).tag != 11 or Decorated('d', model, 0).tag != 0:
        return "instances do not follow their own class"
    return None


# ---------------------------------------------------------------------------------------------------------------------
# 3. Explicit tags of every falsy/odd kind win; None means "use the default"
# ---------------------------------------------------------------------------------------------------------------------
def exp_explicit_tags():
    model = Model()

    class W(Agent):
        pass

    W.tag = 5
    try:
        import numpy
        extra = [numpy.int64(0), numpy.int32(3), numpy.bool_(False)]
    except ImportError:  # pragma: no cover
        extra = []
    for v in [0, False, True, -0.0, 0.0, '', 10 ** 30, -3, 5] + extra:
        for a in (W('a', model, v), W('a', model, tag=v)):
            if a.tag is not v:
                return f"explicit tag {v!r} lost: {a.tag!r}"
    if W('a', model).tag != 5 or W('a', model, None).tag != 5:
        return "default not applied"
    W.tag = 0
    if W('a', model).tag != 0:
        return "default 0 not applied after being 5"
    Tags.add_tag('WOLF_C20')
    W.tag = Tags.WOLF_C20
    if Tags.get_tag_name(W('w', model).tag) != 'WOLF_C20':
        return "tag from the tag library"
    # earlier instances keep the tag they were born with
    old = W('old', model)
    W.tag = 1
    if old.tag != Tags.WOLF_C20:
        return "changing the default retagged an existing instance"
    return None


# ---------------------------------------------------------------------------------------------------------------------
# 4. Environments are agents too: every world class, Model's own environment, replaced environments
# ---------------------------------------------------------------------------------------------------------------------
def exp_environments():
    reset_package_classes()
    try:
        model = Model()
        GridWorld.tag = 3
        GridWorld.add_class_component(K1(GridWorld, model))
        for c in (Agent, Environment, SpaceWorld, DiscreteWorld, LineWorld):
            if c.tag != 0 or len(c) != 0 or K1 in c:
                return f"{c.__name__} sees GridWorld's state"
        g = GridWorld(model, 2, 2)
        l = LineWorld(model, 2)
        if g.tag != 3 or l.tag != 0 or Model().environment.tag != 0:
            return f"env tags {g.tag} {l.tag}"
        if K1 in g or g[K1] is not None or len(g.components) != 0:
            return "class component visible through the environment instance"
        Environment.tag = 8
        if Model().environment.tag != 8 or GridWorld(model, 1, 1).tag != 3 or SpaceWorld(model, 1.0).tag != 0:
            return "Environment default leaked / not applied"
        # agents added to a tagged world keep their own class default; PositionComponent is instance-level only
        a = Agent('a', model)
        g.add_agent(a, 1, 1)
        if a.tag != 0 or PositionComponent in Agent or PositionComponent in GridWorld or PositionComponent not in a:
            return "add_agent mixed class and instance components"
        model.environment = g
        if model.environment.get_agents(tag=3) != [] or model.environment.get_agents(tag=0) != [a]:
            return "get_agents by tag"
    finally:
        reset_package_classes()
    return None


# ---------------------------------------------------------------------------------------------------------------------
# 5. Rejections are without effect - also for odd arguments
# ---------------------------------------------------------------------------------------------------------------------
def exp_rejections():
    model = Model()

    class P(Agent):
        pass

    class Q(P):
        pass

    first = K2(P, model, v=1)
    P.add_class_component(first)
    try:
        P.add_class_component(K2(P, model, v=2))
        return "duplicate accepted"
    except ValueError:
        pass
    if P[K2] is not first or P[K2].v != 1 or len(P) != 1:
        return "duplicate replaced the original"
    # a component of a SUBCLASS type is a different type: accepted next to it, each found under its own type only
    sub = K2sub(P, model)
    P.add_class_component(sub)
    if P[K2] is not first or P[K2sub] is not sub:
        return "subclass-typed component confused with its base type"
    for absent in (K1, Component, object, int, type, P, None, 'K2', 0):
        try:
            P.remove_class_component(absent)
            return f"removing absent {absent!r} succeeded"
        except ComponentNotFoundError:
            pass
        if set(P.components) != {K2, K2sub}:
            return f"removing absent {absent!r} had an effect"
    try:
        Q.remove_class_component(K2)         # present on the parent only
        return "child could detach the parent's component"
    except ComponentNotFoundError:
        pass
    try:
        Q.add_class_component(K2(Q, model))   # NOT a duplicate for the child
    except ValueError:
        return "child rejected a component because its parent has one"
    if Q[K2] is first or P[K2] is not first:
        return "child/parent share the component"
    # the same component object attached to two classes, detached from one
    shared = K1(P, model)
    P.add_class_component(shared)
    Q.add_class_component(shared)
    P.remove_class_component(K1)
    if K1 in P or Q[K1] is not shared:
        return "detaching from P affected Q"
    return None


# ---------------------------------------------------------------------------------------------------------------------
# 6. Instances never see class components (and vice versa), also after copy / pickle
# ---------------------------------------------------------------------------------------------------------------------
class PickleMe(Agent):
    pass


def exp_instances():
    model = Model()
    PickleMe.tag = 6
    PickleMe.add_class_component(K1(PickleMe, model))
    try:
        a = PickleMe('a', None)
        own = K2(a, None, v=3)
        a.add_component(own)
        if K1 in a or a[K1] is not None or len(a) != 1 or K2 in PickleMe or PickleMe[K2] is not None:
            return "class and instance stores mixed"
        try:
            a.remove_component(K1)
            return "instance could remove the class component"
        except ComponentNotFoundError:
            pass
        try:
            PickleMe.remove_class_component(K2)
            return "class could remove the instance component"
        except ComponentNotFoundError:
            pass
        for clone in (copy.copy(a), copy.deepcopy(a), pickle.loads(pickle.dumps(a))):
            if clone.tag != 6 or set(clone.components) != {K2} or K1 in clone:
                return f"clone: tag {clone.tag}, {clone.components}"
        if len(PickleMe) != 1 or PickleMe.tag != 6:
            return "copying an instance changed the class"
        PickleMe.tag = 2
        if a.tag != 6 or pickle.loads(pickle.dumps(a)).tag != 6:
            return "explicit/born-with tag lost after the default changed"
    finally:
        PickleMe.tag = 0
        PickleMe.remove_class_component(K1)
    return None


# ---------------------------------------------------------------------------------------------------------------------
# 7. Several models / worlds alive at once; class state is per class, not per model
# ---------------------------------------------------------------------------------------------------------------------
def exp_several_models():
    m1, m2 = Model(), Model()

    class X(Agent):
        pass

    class Y(Agent):
        pass

    X.add_class_component(K1(X, m1))
    Y.add_class_component(K1(Y, m2))
    X.tag, Y.tag = 1, 2
    xs = [X(f"x{i}", m) for i, m in enumerate((m1, m2))]
    ys = [Y(f"y{i}", m) for i, m in enumerate((m1, m2))]
    if [a.tag for a in xs + ys] != [1, 1, 2, 2] or X[K1].model is not m1 or Y[K1].model is not m2:
        return "mixed up"
    if X[K1] is Y[K1] or Agent.tag != 0 or K1 in Agent:
        return "siblings share / base touched"
    return None


# ---------------------------------------------------------------------------------------------------------------------
# 8. Operations issued from inside a running timestep
# ---------------------------------------------------------------------------------------------------------------------
def exp_inside_timestep():
    from ECAgent.Core import System

    class Sheep(Agent):
        pass

    class Lamb(Sheep):
        pass

    class Breeder(System):
        def execute(self):
            t = self.model.systems.timestep
            if t == 1:
                Sheep.tag = 5
                Sheep.add_class_component(K1(Sheep, self.model))
            if t == 2:
                Lamb.tag = 6
                Sheep.remove_class_component(K1)
            self.model.environment.add_agent(Sheep(f"s{t}", self.model))
            self.model.environment.add_agent(Lamb(f"l{t}", self.model))

    model = Model()
    model.systems.add_system(Breeder('b', model))
    model.execute(3)
    got = {k: a.tag for k, a in model.environment.agents.items()}
    if got != {'s0': 0, 'l0': 0, 's1': 5, 'l1': 0, 's2': 5, 'l2': 6}:
        return f"{got}"
    if len(Sheep) != 0 or len(Lamb) != 0:
        return "class components left over"
    return None


# ---------------------------------------------------------------------------------------------------------------------
# 9. Hash-seed independence and real multiprocessing (class state set at import time, used in worker processes)
# ---------------------------------------------------------------------------------------------------------------------
MP_CHILD = r"""
import ECAgent.Tags as Tags
from ECAgent.Core import Agent, Component, Model, System
from ECAgent.Collectors import AgentCollector
from ECAgent.Batching import batch_run

class Marker(Component):
    pass

class Sheep(Agent):
    pass

class Wolf(Agent):
    pass

class Cub(Wolf):
    pass

Tags.add_tag('SHEEP'); Tags.add_tag('WOLF')
Sheep.tag = Tags.SHEEP
Wolf.tag = Tags.WOLF
Wolf.add_class_component(Marker(Wolf, None))

class M(Model):
    def __init__(self, k):
        super().__init__()
        if k == 2:
            Cub.tag = 9          # run-time change inside one run
        for i, c in enumerate((Sheep, Wolf, Cub, Agent)):
            self.environment.add_agent(c(f"a{i}", self))
        self.environment.add_agent(Cub('explicit', self, tag=0))
        self.systems.add_system(AgentCollector(self, lambda a: (a.tag, len(type(a)), Marker in type(a), Marker in a)))

if __name__ == '__main__':
    out = batch_run(M, {'k': [1, 1, 1, 1]}, collectors='AgentCollector', processes=2, max_timesteps=1)
    exp = {'a0': (1, 0, False, False), 'a1': (2, 1, True, False), 'a2': (0, 0, False, False),
           'a3': (0, 0, False, False), 'explicit': (0, 0, False, False)}
    print('SAME' if out == [[exp]] * 4 else f'DIFF {out!r}')
"""


def exp_multiprocessing_and_seed():
    with tempfile.TemporaryDirectory() as d:
        script = os.path.join(d, 'mp_child.py')
        with open(script, 'w') as f:
            f.write(MP_CHILD)
        for hs in ('0', 'random'):
            env = dict(os.environ, PYTHONPATH=os.pathsep.join(sys.path), PYTHONHASHSEED=hs)
            try:
                out = subprocess.run([sys.executable, script], env=env, capture_output=True, text=True, timeout=180)
            except subprocess.TimeoutExpired:
                return "batch_run with processes=2 timed out"
            if out.returncode != 0 or out.stdout.strip() != 'SAME':
                return f"rc={out.returncode} out={out.stdout[-400:]!r} err={out.stderr[-400:]!r}"
    return None


# ---------------------------------------------------------------------------------------------------------------------
# 10. A user metaclass derived from the package's, classes with class-body names close to the machinery
# ---------------------------------------------------------------------------------------------------------------------
def exp_metaclass_and_bodies():
    model = Model()
    meta = type(Agent)

    class Meta2(meta):
        def __new__(mcs, name, bases, ns, **kw):
            return super().__new__(mcs, name, bases, ns)

        def __init__(cls, name, bases, ns, **kw):
            super().__init__(name, bases, ns)

    class U(Agent, metaclass=Meta2):
        pass

    class V(U, flavour='x'):
        def hello(self):
            return super().__init__      # zero-argument super(): the __class__ cell must survive the metaclass

    U.tag = 4
    U.add_class_component(K1(U, model))
    if V.tag != 0 or len(V) != 0 or Agent.tag != 0 or V('v', model).tag != 0 or U('u', model).tag != 4:
        return "user metaclass: state leaked"
    V('v', model).hello()

    class Body(Agent):
        components_seen = None
        NONE = 1

        def __init__(self, id, model, colour='red', **kw):
            super().__init__(id, model, **kw)
            self.colour = colour

    Body.tag = 2
    b = Body('b', model, 'blue')
    b2 = Body('b2', model, tag=0)
    if b.tag != 2 or b2.tag != 0 or b.colour != 'blue' or len(Body) != 0:
        return "subclass with its own __init__"
    return None


def notes():
    model = Model()

    class C(Agent):
        pass

    note("bool(AgentClass)", f"an agent class without class components is falsy (bool(C) == {bool(C)}) because the "
                             f"metaclass defines __len__; surprising but outside this property.")
    try:
        class D(Agent, flavour=1):
            pass
        note("class keywords", "accepted")
    except TypeError:
        note("class keywords", "`class D(Agent, flavour=1)` raises TypeError (the metaclass __new__ takes no **kwargs, "
                               "so __init_subclass__ keywords are unusable). Nothing leaks; unspecified, not counted.")
    import itertools
    note("iter(AgentClass)", f"the metaclass has __getitem__ but no __iter__, so `for x in C` / `list(C)` never ends "
                             f"(first items: {list(itertools.islice(iter(C), 3))}); outside this property.")
    C.tag = None
    note("Cls.tag = None", f"agents then get tag {C('c', model).tag!r}: None doubles as 'no explicit tag'; "
                           f"unspecified, not counted.")


def main():
    run_random_histories()
    for name, fn in [
        ("creation hooks (__init_subclass__, __set_name__) and class decorators act on the new class only", exp_hooks),
        ("explicit tags (0, False, -0.0, '', numpy zeros, huge ints) always win; None means default; old instances "
         "keep their tag", exp_explicit_tags),
        ("environment classes: own state per world class, Model() uses Environment's default, instance vs class",
         exp_environments),
        ("rejections without effect: duplicates, absents (incl. odd arguments), parent's component from the child, "
         "one component object on two classes", exp_rejections),
        ("instances never see class components and vice versa; copy / deepcopy / pickle", exp_instances),
        ("several models alive at once", exp_several_models),
        ("changes issued from inside a running timestep", exp_inside_timestep),
        ("real multiprocessing (processes=2) x hash seeds", exp_multiprocessing_and_seed),
        ("user metaclass derived from the package's, zero-arg super(), subclass with own __init__",
         exp_metaclass_and_bodies),
    ]:
        try:
            report(name, fn())
        except Exception as e:      # an unexpected exception is itself worth looking at
            import traceback
            report(name, f"unexpected {type(e).__name__}: {e}\n{traceback.format_exc()}")
    notes()
    print()
    print(f"{len(VIOLATIONS)} genuine violation(s) found" if VIOLATIONS else "no genuine violation found")
    return 1 if VIOLATIONS else 0


if __name__ == '__main__':
    sys.exit(main())
