#!/usr/bin/env python
"""Bug hunt for the property

    "Class components and default tags belong to exactly one agent class"

Run with:   cd /tmp/wt-C20-h && PYTHONPATH=/tmp/wt-C20-h /venv/bin/python hunt.py

Only the public API of ECAgent is used (Agent / Environment classes and their class-level
``tag``, ``components``, ``add_class_component`` ... API, Model, Component, Tags, Batching).

Every experiment prints ``OK`` or a description of what went wrong.  Experiments are of two kinds:

* ``CHECK``  - inside the stated scope of the property; a failure is a genuine violation (exit code 1).
* ``NOTE``   - behaviour that is outside the stated scope or merely unspecified; printed for information,
               never counted.
"""
import copy
import os
import pickle
import random
import subprocess
import sys
import threading
import types

import ECAgent
import ECAgent.Tags as Tags
from ECAgent.Core import (Agent, Component, ComponentNotFoundError, Environment, Model, System)
from ECAgent.Environments import (DiscreteWorld, GridWorld, LineWorld, PositionComponent, SpaceWorld)

PKG_CLASSES = [Agent, Environment, SpaceWorld, DiscreteWorld, LineWorld, GridWorld]

GENUINE = []   # (experiment, message)
NOTES = []


# --------------------------------------------------------------------------------------------------------------------
# helpers
# --------------------------------------------------------------------------------------------------------------------

def snapshot():
    return [(c, c.tag, dict(c.components)) for c in PKG_CLASSES]


def restore(snap):
    for c, tag, comps in snap:
        c.tag = tag
        for k in list(c.components):
            c.remove_class_component(k)
        for v in comps.values():
            c.add_class_component(v)


def run(kind, name, func):
    snap = snapshot()
    try:
        problems = func() or []
    except Exception as e:  # an experiment that blows up is reported, never silently dropped
        import traceback
        problems = [f'experiment raised {type(e).__name__}: {e}\n{traceback.format_exc()}']
    finally:
        restore(snap)
    if not problems:
        print(f'[{kind}] {name}: OK')
    else:
        label = 'VIOLATION' if kind == 'CHECK' else 'observation (not counted)'
        print(f'[{kind}] {name}: {label}')
        for p in problems:
            print('      - ' + p.replace('\n', '\n        '))
            (GENUINE if kind == 'CHECK' else NOTES).append((name, p))


class Stats(Component):
    pass


class Other(Component):
    pass


class SubStats(Stats):
    pass


class FalsyComponent(Component):
    def __len__(self):
        return 0

    def __bool__(self):
        return False


def class_view(cls):
    """Everything the public class-level API shows about the class."""
    return {
        'tag': cls.tag,
        'components': dict(cls.components),
        'len': len(cls),
    }


def expect_class(problems, where, cls, tag, comps):
    """comps: dict type -> component object"""
    if cls.tag is not tag and cls.tag != tag:
        problems.append(f'{where}: {cls.__name__}.tag is {cls.tag!r}, expected {tag!r}')
    if type(cls.tag) is not type(tag):
        problems.append(f'{where}: {cls.__name__}.tag has type {type(cls.tag).__name__}, expected '
                        f'{type(tag).__name__}')
    if dict(cls.components) != comps or any(cls.components[k] is not v for k, v in comps.items()
                                            if k in cls.components):
        problems.append(f'{where}: {cls.__name__}.components is {dict(cls.components)!r}, expected {comps!r}')
    if len(cls) != len(comps):
        problems.append(f'{where}: len({cls.__name__}) is {len(cls)}, expected {len(comps)}')
    for t in (Stats, Other, SubStats, FalsyComponent, PositionComponent, Component):
        has = t in comps
        if cls.has_class_component(t) != has or (t in cls) != has:
            problems.append(f'{where}: {cls.__name__}.has_class_component({t.__name__}) is '
                            f'{cls.has_class_component(t)}, expected {has}')
        got = cls.get_class_component(t)
        if got is not comps.get(t) or cls[t] is not comps.get(t):
            problems.append(f'{where}: {cls.__name__}.get_class_component({t.__name__}) is {got!r}, expected '
                            f'{comps.get(t)!r}')
        if not has:
            try:
                cls.get_class_component(t, True)
                problems.append(f'{where}: {cls.__name__}.get_class_component({t.__name__}, True) did not raise')
            except ComponentNotFoundError:
                pass


# --------------------------------------------------------------------------------------------------------------------
# 1. plain isolation through a hierarchy
# --------------------------------------------------------------------------------------------------------------------

def exp_basic_isolation():
    problems = []

    class A(Agent):
        pass

    class B(A):
        pass

    class C(B):
        pass

    class S(A):  # sibling of B
        pass

    class D(B, S):  # diamond
        pass

    classes = [Agent, A, B, C, S, D]
    state = {c: (0, {}) for c in classes}

    def check(where):
        for c in classes:
            expect_class(problems, where, c, *state[c])

    check('fresh')
    m = Model()
    for i, c in enumerate(classes):
        comp = Stats(c, m)
        c.add_class_component(comp)
        state[c] = (state[c][0], {Stats: comp})
        check(f'after {c.__name__}.add_class_component')
        c.tag = 10 + i
        state[c] = (10 + i, state[c][1])
        check(f'after {c.__name__}.tag = {10 + i}')
    for c in reversed(classes):
        c.remove_class_component(Stats)
        state[c] = (state[c][0], {})
        check(f'after {c.__name__}.remove_class_component')
        c.tag = 0
        state[c] = (0, {})
        check(f'after {c.__name__}.tag = 0')
    return problems


# --------------------------------------------------------------------------------------------------------------------
# 2. environments are agents too
# --------------------------------------------------------------------------------------------------------------------

def exp_environment_classes():
    problems = []

    class MyEnv(Environment):
        pass

    class MyGrid(GridWorld):
        pass

    classes = [Agent, Environment, SpaceWorld, DiscreteWorld, LineWorld, GridWorld, MyEnv, MyGrid]
    state = {c: (0, {}) for c in classes}

    def make(c, model):
        if c is Agent:
            return Agent('a', model)
        if c in (Environment, MyEnv):
            return c(model)
        if c is SpaceWorld:
            return c(model, 3.0, 3.0)
        if c is DiscreteWorld:
            return c(model, 3, 3, 3)
        if c is LineWorld:
            return c(model, 3)
        return c(model, 3, 3)

    def check(where):
        for c in classes:
            expect_class(problems, where, c, *state[c])
            model = Model()
            inst = make(c, model)
            if inst.tag != state[c][0]:
                problems.append(f'{where}: new {c.__name__} instance has tag {inst.tag!r}, class default is '
                                f'{state[c][0]!r}')
            if len(inst.components) != 0:
                problems.append(f'{where}: new {c.__name__} instance has components {inst.components!r}')
            if c is not Environment and model.environment.tag != state[Environment][0]:
                problems.append(f'{where}: Model().environment.tag is {model.environment.tag!r}, Environment default '
                                f'is {state[Environment][0]!r}')
            # replacing the environment must not change anything at class level
            if isinstance(inst, Environment):
                model.set_environment(inst)
                a = Agent('x', model)
                if a.tag != state[Agent][0]:
                    problems.append(f'{where}: agent in replaced env has tag {a.tag!r}')

    check('fresh')
    m = Model()
    for i, c in enumerate(classes):
        comp = PositionComponent(c, m, 1, 2, 3)
        c.add_class_component(comp)
        c.tag = 20 + i
        state[c] = (20 + i, {PositionComponent: comp})
        check(f'after attach+tag on {c.__name__}')
    # an environment instance that gets agents added (SpaceWorld adds PositionComponent to the *instances*)
    g = GridWorld(m, 4, 4)
    a = Agent('a', m)
    g.add_agent(a, 1, 1)
    if a[PositionComponent] is GridWorld[PositionComponent] or a[PositionComponent] is Agent[PositionComponent]:
        problems.append('instance PositionComponent is the class component')
    if a[PositionComponent].xy() != (1, 1):
        problems.append('instance PositionComponent has the wrong position')
    g.remove_agent('a')
    if PositionComponent in a:
        problems.append('PositionComponent still on removed agent')
    check('after SpaceWorld.add_agent/remove_agent')
    for c in classes:
        c.remove_class_component(PositionComponent)
        c.tag = 0
        state[c] = (0, {})
        check(f'after detach on {c.__name__}')
    return problems


# --------------------------------------------------------------------------------------------------------------------
# 3. randomized differential test against a reference model
# --------------------------------------------------------------------------------------------------------------------

def exp_random_histories(seed_count=25, steps=250):
    problems = []
    try:
        import numpy as np
        np_vals = [np.int64(0), np.int32(5), np.float64(0.0)]
    except Exception:  # pragma: no cover
        np_vals = []

    class StrSub(str):
        pass

    tag_values = [0, 1, 2, 7, False, True, 0.0, -0.0, '', 'x', StrSub(''), StrSub('t'), 10 ** 30, -1, (), frozenset(),
                  ] + np_vals

    for seed in range(seed_count):
        rng = random.Random(seed)

        class A(Agent):
            pass

        class B(A):
            pass

        class C(B):
            pass

        class S(A):
            pass

        class D(B, S):
            pass

        class MyEnv(Environment):
            pass

        class MyGrid(GridWorld):
            pass

        class Slotted(A):
            __slots__ = ['extra']

        agent_classes = [Agent, A, B, C, S, D, Slotted]
        env_classes = [Environment, MyEnv, GridWorld, MyGrid, LineWorld, SpaceWorld, DiscreteWorld]
        classes = agent_classes + env_classes
        ctypes = [Stats, Other, SubStats, FalsyComponent, PositionComponent, Component]
        ref = {c: [0, {}] for c in classes}
        instances = []  # (instance, expected tag, expected comps dict)
        models = [Model(), Model()]
        counter = [0]

        def mkcomp(t, owner, model):
            return t(owner, model)

        def check(where):
            for c in classes:
                expect_class(problems, where, c, ref[c][0], ref[c][1])
            for inst, tag, comps in instances:
                if not (inst.tag is tag):
                    problems.append(f'{where}: instance {inst.id} of {type(inst).__name__} has tag {inst.tag!r}, '
                                    f'expected {tag!r}')
                if inst.components != comps:
                    problems.append(f'{where}: instance {inst.id} components {inst.components!r} expected {comps!r}')
                for t in ctypes:
                    if inst.has_component(t) != (t in comps) or (t in inst) != (t in comps) or \
                            inst[t] is not comps.get(t):
                        problems.append(f'{where}: instance {inst.id} view of {t.__name__} is wrong')

        for step in range(steps):
            op = rng.choice(['attach', 'attach', 'detach', 'tag', 'new', 'new_tag', 'iadd', 'irem'])
            c = rng.choice(classes)
            t = rng.choice(ctypes)
            model = rng.choice(models)
            where = f'seed {seed} step {step} {op} {c.__name__} {t.__name__}'
            if op == 'attach':
                comp = mkcomp(t, c, model)
                if t in ref[c][1]:
                    try:
                        c.add_class_component(comp)
                        problems.append(f'{where}: duplicate attach not rejected')
                    except ValueError:
                        pass
                else:
                    c.add_class_component(comp)
                    ref[c][1][t] = comp
            elif op == 'detach':
                if t in ref[c][1]:
                    c.remove_class_component(t)
                    del ref[c][1][t]
                else:
                    try:
                        c.remove_class_component(t)
                        problems.append(f'{where}: detach of absent class component not rejected')
                    except ComponentNotFoundError:
                        pass
            elif op == 'tag':
                v = rng.choice(tag_values)
                c.tag = v
                ref[c][0] = v
            elif op in ('new', 'new_tag'):
                counter[0] += 1
                name = f'i{counter[0]}'
                if c in agent_classes:
                    if op == 'new':
                        inst = rng.choice([lambda: c(name, model), lambda: c(name, model, None),
                                           lambda: c(name, model, tag=None)])()
                        instances.append((inst, ref[c][0], {}))
                    else:
                        v = rng.choice(tag_values)
                        inst = rng.choice([lambda: c(name, model, v), lambda: c(name, model, tag=v)])()
                        instances.append((inst, v, {}))
                else:
                    if c in (Environment, MyEnv):
                        inst = c(model, name)
                    elif c is SpaceWorld:
                        inst = c(model, 2.5, id=name)
                    elif c is DiscreteWorld:
                        inst = c(model, 2, 2, 2, id=name)
                    elif c is LineWorld:
                        inst = c(model, 2, id=name)
                    else:
                        inst = c(model, 2, 2, id=name)
                    instances.append((inst, ref[c][0], {}))
                    if rng.random() < 0.3:
                        model.set_environment(inst)
            elif op == 'iadd' and instances:
                inst, tag, comps = rng.choice(instances)
                comp = mkcomp(t, inst, model)
                if t in comps:
                    try:
                        inst.add_component(comp)
                        problems.append(f'{where}: duplicate instance component accepted')
                    except ValueError:
                        pass
                else:
                    inst.add_component(comp)
                    comps[t] = comp
            elif op == 'irem' and instances:
                inst, tag, comps = rng.choice(instances)
                if t in comps:
                    inst.remove_component(t)
                    del comps[t]
                else:
                    try:
                        inst.remove_component(t)
                        problems.append(f'{where}: removing absent instance component accepted')
                    except ComponentNotFoundError:
                        pass
            check(where)
            if len(problems) > 5:
                return problems
        # clean the package classes for the next seed
        for c in PKG_CLASSES:
            for k in list(c.components):
                c.remove_class_component(k)
            c.tag = 0
    return problems


# --------------------------------------------------------------------------------------------------------------------
# 4. explicit tags always win (falsy values, odd types), defaults are handed out unchanged
# --------------------------------------------------------------------------------------------------------------------

def exp_explicit_tag_wins():
    problems = []
    import numpy as np

    class StrSub(str):
        pass

    class Weird:
        def __eq__(self, other):
            return True  # equal to everything, including None

        def __hash__(self):
            return 0

        def __bool__(self):
            return False

    class A(Agent):
        pass

    class B(A):
        def __init__(self, id, model, tag=None):
            super().__init__(id, model, tag)

    class C(A):
        def __init__(self, id, model):
            super().__init__(id, model, tag=0)  # a subclass that always passes an explicit tag

    Tags_local = Tags.TagLibrary()
    Tags_local.add_tag('SHEEP')
    m = Model()
    values = [0, False, 0.0, -0.0, '', StrSub(''), (), [], {}, np.int64(0), np.bool_(False), np.float64(-0.0),
              Weird(), 2 ** 70, -3, float('nan'), Tags_local.SHEEP, Tags_local.NONE]
    for default in [5, 0, '', None] + values:
        A.tag = default
        B.tag = default
        C.tag = default
        Agent.tag = 'agent-default'
        for v in values:
            for cls in (A, B):
                for inst in (cls('x', m, v), cls('x', m, tag=v)):
                    if inst.tag is not v:
                        problems.append(f'{cls.__name__}(..., tag={v!r}) with class default {default!r} got '
                                        f'{inst.tag!r}')
        for cls in (A, B):
            for inst in (cls('x', m), cls('x', m, None)):
                if inst.tag is not default:
                    problems.append(f'{cls.__name__}(...) without tag and class default {default!r} got {inst.tag!r}')
        if C('x', m).tag != 0 or type(C('x', m).tag) is not int:
            problems.append(f'C always passes tag=0 but got {C("x", m).tag!r} with default {default!r}')
        if Agent('x', m).tag != 'agent-default':
            problems.append('Agent default not used for Agent instance')
    # changing the default later never rewrites existing instances
    A.tag = 1
    a1 = A('a1', m)
    A.tag = 2
    a2 = A('a2', m)
    if (a1.tag, a2.tag) != (1, 2):
        problems.append(f'defaults over time: {(a1.tag, a2.tag)} expected (1, 2)')
    # changing an instance tag never rewrites the class default
    a2.tag = 99
    if A.tag != 2 or A('a3', m).tag != 2:
        problems.append('instance tag assignment changed the class default')
    return problems


# --------------------------------------------------------------------------------------------------------------------
# 5. rejected operations have no effect
# --------------------------------------------------------------------------------------------------------------------

def exp_rejections_without_effect():
    problems = []

    class A(Agent):
        pass

    class B(A):
        pass

    m = Model()
    first = Stats(A, m)
    A.add_class_component(first)
    A.tag = 4
    before = (class_view(Agent), class_view(A), class_view(B))
    for dup in (first, Stats(A, m), Stats(B, m), Stats(None, None)):
        try:
            A.add_class_component(dup)
            problems.append('duplicate attach accepted')
        except ValueError as e:
            if 'A' not in str(e):
                problems.append(f'error message does not name the class: {e}')
    if (class_view(Agent), class_view(A), class_view(B)) != before or A[Stats] is not first:
        problems.append('duplicate attach had an effect')
    # child / parent do not have it: detaching there is rejected and leaves A alone
    for cls in (B, Agent):
        try:
            cls.remove_class_component(Stats)
            problems.append(f'{cls.__name__}.remove_class_component(Stats) accepted although only A has it')
        except ComponentNotFoundError as e:
            if e.agent is not cls or e.component_type is not Stats:
                problems.append('ComponentNotFoundError carries the wrong class / type')
            e2 = pickle.loads(pickle.dumps(e)) if cls is Agent else e
            if e2.agent is not cls:
                problems.append('ComponentNotFoundError lost its class when pickled')
    # a subclass of the component type is a different key
    for t in (SubStats, Component, Other, object, int, None, 0, ''):
        try:
            A.remove_class_component(t)
            problems.append(f'A.remove_class_component({t!r}) accepted')
        except ComponentNotFoundError:
            pass
    if (class_view(Agent), class_view(A), class_view(B)) != before or A[Stats] is not first:
        problems.append('rejected detach had an effect')
    # falsy component objects are components like any other
    f = FalsyComponent(B, m)
    B.add_class_component(f)
    if B[FalsyComponent] is not f or FalsyComponent not in B or len(B) != 1 or len(A) != 1:
        problems.append('falsy class component is not handled like any other')
    try:
        B.add_class_component(FalsyComponent(B, m))
        problems.append('duplicate falsy component accepted')
    except ValueError:
        pass
    B.remove_class_component(FalsyComponent)
    try:
        B.remove_class_component(FalsyComponent)
        problems.append('second detach accepted')
    except ComponentNotFoundError:
        pass
    # the same component object may sit on two classes and on an instance at once; detaching is still per class
    A.remove_class_component(Stats)
    shared = Stats(None, m)
    inst = A('i', m)
    A.add_class_component(shared)
    B.add_class_component(shared)
    inst.add_component(shared)
    A.remove_class_component(Stats)
    if Stats in A or Stats not in B or Stats not in inst or B[Stats] is not shared:
        problems.append('shared component object: detaching from A affected B or the instance')
    inst.remove_component(Stats)
    if Stats not in B:
        problems.append('shared component object: removing from the instance affected B')
    return problems


# --------------------------------------------------------------------------------------------------------------------
# 6. class components vs instance components, environment queries and component pools
# --------------------------------------------------------------------------------------------------------------------

def exp_instances_unaffected():
    problems = []

    class A(Agent):
        pass

    class B(A):
        pass

    m = Model()
    before = A('before', m)
    m.environment.add_agent(before)
    A.add_class_component(Stats(A, m))
    Agent.add_class_component(Stats(Agent, m))
    Environment.add_class_component(Stats(Environment, m))
    after = A('after', m)
    child = B('child', m)
    m.environment.add_agent(after)
    m.environment.add_agent(child)
    for inst in (before, after, child, m.environment, Model().environment):
        if Stats in inst or inst.has_component(Stats) or inst[Stats] is not None or inst.components:
            problems.append(f'class component visible through instance {inst.id}')
        try:
            inst.remove_component(Stats)
            problems.append(f'instance {inst.id}: remove_component(Stats) accepted')
        except ComponentNotFoundError:
            pass
    if m.environment.get_agents(Stats) or m.environment.get_random_agent(Stats) is not None or \
            m.environment.shuffle(Stats):
        problems.append('environment template query matches agents because of a class component')
    if m.systems[Stats] is not None or m.systems.component_pools:
        problems.append('class component ended up in the component pools')
    # instance component of the same type: independent object, independent removal
    own = Stats(after, m)
    after.add_component(own)
    if A[Stats] is own or after[Stats] is not own or before.has_component(Stats) or child.has_component(Stats):
        problems.append('instance component leaked')
    A.remove_class_component(Stats)
    if after[Stats] is not own:
        problems.append('detaching the class component removed the instance component')
    if Stats in A or Stats not in Agent:
        problems.append('detach from A wrong')
    after.remove_component(Stats)
    if Stats not in Agent or Stats not in Environment:
        problems.append('removing the instance component touched a class')
    # instance components are never visible through the class
    after.add_component(Other(after, m))
    for cls in (Agent, A, B, Environment):
        if Other in cls or cls[Other] is not None:
            problems.append(f'instance component visible through class {cls.__name__}')
    # tag queries use the instance tags only
    A.tag = 3
    late = A('late', m)
    m.environment.add_agent(late)
    got = [a.id for a in m.environment.get_agents(tag=3)]
    if got != ['late']:
        problems.append(f'get_agents(tag=3) returned {got}, expected only the agent created after A.tag = 3')
    got0 = sorted(a.id for a in m.environment.get_agents(tag=0))
    if got0 != ['after', 'before', 'child']:
        problems.append(f'get_agents(tag=0) returned {got0}')
    return problems


# --------------------------------------------------------------------------------------------------------------------
# 7. dynamically created classes, same-name classes, classes created while a timestep runs / on completed models
# --------------------------------------------------------------------------------------------------------------------

def exp_dynamic_classes():
    problems = []
    m = Model()

    class A(Agent):
        pass

    A.tag = 9
    A.add_class_component(Stats(A, m))
    made = [
        type('A', (A,), {}),
        type(A)('A', (A,), {}),
        types.new_class('A', (A,)),
        type('A', (A,), {'__slots__': ()}),
        type('A', (A, Environment), {}),  # agent + environment mix
    ]

    class Mixin:
        tagged = True

    made.append(type('WithMixin', (Mixin, A), {}))
    made.append(type('WithMixin2', (A, Mixin), {}))
    for c in made:
        expect_class(problems, f'dynamic class {c!r}', c, 0, {})
    for i, c in enumerate(made):
        c.tag = 100 + i
        comp = Other(c, m)
        c.add_class_component(comp)
        for j, d in enumerate(made):
            if j > i:
                expect_class(problems, f'dynamic class {j} after changing {i}', d, 0, {})
        expect_class(problems, f'dynamic class {i}', c, 100 + i, {Other: comp})
    expect_class(problems, 'A after dynamic children', A, 9, {Stats: A[Stats]})

    # classes created and changed from inside a running timestep, and after the model completed
    seen = {}

    class Maker(System):
        def execute(self):
            K = type('K', (A,), {})
            seen['fresh'] = (K.tag, dict(K.components))
            K.tag = 55
            K.add_class_component(Stats(K, self.model))
            A.tag = 10
            seen['inst'] = (K('k', self.model).tag, A('a', self.model).tag, K('k', self.model, tag=0).tag)
            seen['K'] = K
            self.model.complete()

    m.systems.add_system(Maker('maker', m))
    m.execute()
    if seen['fresh'] != (0, {}):
        problems.append(f'class made inside a timestep starts with {seen["fresh"]}')
    if seen['inst'] != (55, 10, 0):
        problems.append(f'instances made inside a timestep have tags {seen["inst"]}, expected (55, 10, 0)')
    K = seen['K']
    if not m.is_running():
        K.tag = 56
        A.remove_class_component(Stats)
        if K('k', m).tag != 56 or Stats not in K or Stats in A or A('a', m).tag != 10:
            problems.append('changes on a completed model are wrong')
    else:
        problems.append('model did not complete')
    return problems


# --------------------------------------------------------------------------------------------------------------------
# 8. copies and pickles
# --------------------------------------------------------------------------------------------------------------------

class PickleAgent(Agent):
    pass


class PickleChild(PickleAgent):
    pass


class PickleComp(Component):
    pass


def exp_copy_pickle():
    problems = []
    m = None  # models hold loggers; keep pickles simple
    PickleAgent.tag = 3
    comp = PickleComp(PickleAgent, m)
    PickleAgent.add_class_component(comp)
    try:
        a = PickleAgent('a', m)
        a.add_component(Stats(a, m))
        for how, b in (('pickle', pickle.loads(pickle.dumps(a))), ('deepcopy', copy.deepcopy(a)),
                       ('copy', copy.copy(a))):
            if b.tag != 3 or type(b) is not PickleAgent or list(b.components) != [Stats]:
                problems.append(f'{how} of an instance changed it: tag {b.tag!r} components {b.components!r}')
        PickleAgent.tag = 4
        blob = pickle.dumps(a)
        PickleAgent.tag = 5
        b = pickle.loads(blob)
        if b.tag != 3:
            problems.append(f'unpickled instance took the class default ({b.tag!r}) instead of its own tag 3')
        if PickleAgent.tag != 5 or PickleChild.tag != 0 or PickleComp in PickleChild:
            problems.append('pickling changed class state')
        # copying / pickling the class component or the class itself
        for how, c2 in (('pickle', pickle.loads(pickle.dumps(comp))), ('deepcopy', copy.deepcopy(comp))):
            if c2.agent is not PickleAgent:
                problems.append(f'{how} of class component lost its class')
        if copy.deepcopy(PickleAgent) is not PickleAgent or pickle.loads(pickle.dumps(PickleChild)) is not PickleChild:
            problems.append('copy of class is a different class')
        if PickleAgent[PickleComp] is not comp or len(PickleAgent) != 1 or len(PickleChild) != 0:
            problems.append('copying changed class components')
        e = None
        try:
            PickleChild.remove_class_component(PickleComp)
        except ComponentNotFoundError as err:
            e = pickle.loads(pickle.dumps(err))
        if e is None or e.agent is not PickleChild or e.component_type is not PickleComp:
            problems.append('ComponentNotFoundError for a class does not survive pickling')
    finally:
        PickleAgent.tag = 0
        PickleAgent.remove_class_component(PickleComp)
    return problems


# --------------------------------------------------------------------------------------------------------------------
# 9. real multiprocessing (batch_run with processes=2) - run in a sub-interpreter with a timeout
# --------------------------------------------------------------------------------------------------------------------

MP_CODE = r'''
import sys, os
import ECAgent.Tags as Tags
from ECAgent.Core import Agent, Model, Component, Environment
from ECAgent.Collectors import Collector
from ECAgent.Batching import batch_run

class Sheep(Agent): pass
class Lamb(Sheep): pass
class Wolf(Agent): pass
class Wool(Component): pass

class Rec(Collector):
    def collect(self):
        m = self.model
        self.records.append((os.getpid() != MAIN, Sheep('s', m).tag, Lamb('l', m).tag, Wolf('w', m).tag,
                             Sheep('s', m, tag=0).tag, m.environment.tag, Agent('a', m).tag,
                             Wool in Sheep, Wool in Lamb, Wool in Wolf, Wool in Agent, len(Sheep('s', m).components),
                             m.k))
        # a worker-side change must stay in that run's class only
        Lamb.tag = 100 + m.k
        self.records.append((Lamb('l', m).tag, Sheep('s', m).tag))
        m.complete()

class M(Model):
    def __init__(self, k):
        super().__init__()
        self.k = k
        self.systems.add_system(Rec('rec', self))

MAIN = os.getpid()
if __name__ == '__main__':
    Tags.add_tag('SHEEP'); Tags.add_tag('WOLF')
    Sheep.tag = Tags.SHEEP
    Wolf.tag = Tags.WOLF
    Environment.tag = 9
    Sheep.add_class_component(Wool(Sheep, None))
    for procs in (1, 2, 3):
        res = batch_run(M, {'k': [1, 2, 3, 4, 5, 6]}, collectors='rec', processes=procs)
        assert len(res) == 6, res
        for first, second in res:
            inproc, *rest = first
            k = rest[-1]
            assert inproc == (procs != 1), (procs, first)
            # Lamb's default may have been changed by an earlier run in the SAME process (see below); never Sheep's
            assert rest[1] in (0, 101, 102, 103, 104, 105, 106), (procs, first)
            rest[1] = 0
            assert rest[:-1] == [1, 0, 2, 0, 9, 0, True, False, False, False, 0], (procs, first)
            assert second == (100 + k, 1), (procs, second)
        if procs == 1:
            Lamb.tag = 0
        else:
            assert Lamb.tag == 0, Lamb.tag  # worker-side changes never come back
    print('MP-OK')
'''


def exp_multiprocessing():
    problems = []
    root = os.path.dirname(os.path.dirname(os.path.abspath(ECAgent.__file__)))
    env = dict(os.environ)
    env['PYTHONPATH'] = root + os.pathsep + env.get('PYTHONPATH', '')
    path = os.path.join(root, '_hunt_mp_tmp.py')
    with open(path, 'w') as f:
        f.write(MP_CODE)
    try:
        p = subprocess.run([sys.executable, path], env=env, capture_output=True, text=True, timeout=120)
        if 'MP-OK' not in p.stdout:
            problems.append(f'batch_run with several processes: rc={p.returncode}\n{p.stdout[-1500:]}\n'
                            f'{p.stderr[-3000:]}')
    except subprocess.TimeoutExpired:
        problems.append('batch_run with several processes timed out (120 s)')
    finally:
        os.remove(path)
    return problems


# --------------------------------------------------------------------------------------------------------------------
# 10. hash seed independence (run the randomized experiment under several PYTHONHASHSEEDs)
# --------------------------------------------------------------------------------------------------------------------

def exp_hash_seeds():
    problems = []
    root = os.path.dirname(os.path.dirname(os.path.abspath(ECAgent.__file__)))
    for hs in ('0', '1', '4242'):
        env = dict(os.environ)
        env['PYTHONPATH'] = root + os.pathsep + env.get('PYTHONPATH', '')
        env['PYTHONHASHSEED'] = hs
        try:
            p = subprocess.run([sys.executable, os.path.abspath(__file__), '--random-only'], env=env,
                               capture_output=True, text=True, timeout=300)
            if p.returncode != 0 or 'RANDOM-OK' not in p.stdout:
                problems.append(f'PYTHONHASHSEED={hs}: {p.stdout[-800:]} {p.stderr[-800:]}')
        except subprocess.TimeoutExpired:
            problems.append(f'PYTHONHASHSEED={hs}: timeout')
    return problems


# --------------------------------------------------------------------------------------------------------------------
# 11. threads creating agents while defaults change
# --------------------------------------------------------------------------------------------------------------------

def exp_threads():
    problems = []

    class A(Agent):
        pass

    class B(A):
        pass

    stop = threading.Event()
    bad = []

    def flip():
        i = 0
        while not stop.is_set():
            A.tag = 1 + (i % 2)  # always 1 or 2
            i += 1

    def make():
        m = Model()
        for _ in range(20000):
            t = A('a', m).tag
            if t not in (0, 1, 2):
                bad.append(('A', t))
            if B('b', m).tag != 0:
                bad.append(('B',))
            if A('a', m, tag=7).tag != 7:
                bad.append(('explicit',))

    th = [threading.Thread(target=flip)] + [threading.Thread(target=make) for _ in range(3)]
    for t in th:
        t.start()
    for t in th[1:]:
        t.join()
    stop.set()
    th[0].join()
    if bad:
        problems.append(f'threads saw {bad[:5]}')
    return problems


# --------------------------------------------------------------------------------------------------------------------
# 12. several models / libraries alive at once; defaults are per class, not per model or per tag library
# --------------------------------------------------------------------------------------------------------------------

def exp_models_and_libraries():
    problems = []
    lib1, lib2 = Tags.TagLibrary(), Tags.TagLibrary()
    lib1.add_tag('SHEEP')
    lib2.add_tag('WOLF')
    lib2.add_tag('SHEEP')

    class Sheep(Agent):
        pass

    class Wolf(Agent):
        pass

    m1, m2 = Model(seed=1), Model(seed=2)
    Sheep.tag = lib2.SHEEP
    Wolf.tag = lib2.WOLF
    s1, s2, w = Sheep('s', m1), Sheep('s', m2), Wolf('w', m1)
    if (s1.tag, s2.tag, w.tag) != (2, 2, 1):
        problems.append(f'tags {(s1.tag, s2.tag, w.tag)}')
    m1.complete()
    Sheep.tag = lib1.SHEEP
    if Sheep('s', m1).tag != 1 or Sheep('s', m2).tag != 1 or s1.tag != 2 or Wolf('w', m2).tag != 1:
        problems.append('defaults after completing one model are wrong')
    comp = Stats(Sheep, m1)
    Sheep.add_class_component(comp)
    del m1
    if Sheep[Stats] is not comp or Stats in Wolf or Stats in Agent:
        problems.append('class component of a dropped model')
    return problems


# --------------------------------------------------------------------------------------------------------------------
# 13. code that runs while the class is being created: __init_subclass__, __set_name__, class decorators
# --------------------------------------------------------------------------------------------------------------------

def exp_init_subclass_attach():
    """A base class that gives each of its subclasses its own class component via ``__init_subclass__``."""
    problems = []
    m = Model()

    class Animal(Agent):
        def __init_subclass__(cls):
            super().__init_subclass__()
            cls.add_class_component(Stats(cls, m))  # attach a class component to the NEW class

    try:
        class Sheep(Animal):
            pass
    except Exception as e:
        return [f'defining the first subclass failed: {type(e).__name__}: {e}']

    if Stats in Animal:
        problems.append(
            'Sheep.add_class_component(Stats(Sheep, m)) issued from Animal.__init_subclass__ is visible through the '
            f'PARENT: Animal.has_class_component(Stats) is True, Animal[Stats].agent is {Animal[Stats].agent!r}, '
            f'len(Animal) == {len(Animal)} (expected 0)')
    if Stats not in Sheep:
        problems.append('... and it is NOT visible through the class it was attached to: '
                        'Sheep.has_class_component(Stats) is False, len(Sheep) == 0 (expected 1)')
    try:
        class Wolf(Animal):
            pass
        if Stats not in Wolf:
            problems.append('second subclass did not get its component either')
    except ValueError as e:
        problems.append(f'... and defining a SIBLING then fails, blaming the parent: ValueError: {e}')
    finally:
        if Stats in Animal:
            Animal.remove_class_component(Stats)
    return problems


def exp_set_name_attach():
    """Same window, reached through a descriptor's ``__set_name__`` in the class body."""
    problems = []
    m = Model()

    class Registers:
        def __set_name__(self, owner, name):
            owner.add_class_component(Other(owner, m))
            owner.tag = 5

    class Base(Agent):
        pass

    class Kid(Base):
        helper = Registers()

    if Other in Base:
        problems.append('Kid.add_class_component(...) issued from __set_name__ landed on the parent Base: '
                        f'Base.has_class_component(Other) is True (agent={Base[Other].agent!r}); '
                        f'Kid.has_class_component(Other) is {Kid.has_class_component(Other)}')
        Base.remove_class_component(Other)
    elif Other not in Kid:
        problems.append('component attached in __set_name__ vanished')
    if Kid.tag != 5 or Kid('k', m).tag != 5:
        problems.append(f'Kid.tag = 5 issued from __set_name__ was silently discarded: Kid.tag is {Kid.tag!r}, '
                        f"Kid('k', m).tag is {Kid('k', m).tag!r} (expected 5)")
    if Base.tag != 0:
        problems.append('Base.tag changed')
    return problems


def exp_init_subclass_tag():
    problems = []
    m = Model()

    class Animal(Agent):
        def __init_subclass__(cls):
            super().__init_subclass__()
            cls.tag = 7  # every animal species is tagged 7 by default

    class Sheep(Animal):
        pass

    if Animal.tag != 0:
        problems.append(f'Animal.tag became {Animal.tag!r}')
    if Sheep.tag != 7 or Sheep('s', m).tag != 7:
        problems.append(f'Sheep.tag = 7 issued from Animal.__init_subclass__ succeeded without error but was '
                        f"silently discarded: Sheep.tag is {Sheep.tag!r} and Sheep('s', m).tag is "
                        f"{Sheep('s', m).tag!r} (expected 7)")
    if Sheep('s', m, tag=3).tag != 3:
        problems.append('explicit tag lost')
    return problems


def exp_hook_reads_and_aborts():
    """What the new class looks like from inside the hook, and what an aborted class definition leaves behind."""
    problems = []
    m = Model()
    seen = {}

    class P(Agent):
        def __init_subclass__(cls):
            super().__init_subclass__()
            seen['view'] = (cls.tag, cls.has_class_component(Stats), len(cls), cls.components is P.components)

    P.tag = 4
    P.add_class_component(Stats(P, m))

    class Kid(P):
        pass

    if seen['view'] != (0, False, 0, False):
        problems.append(f'inside P.__init_subclass__ the brand-new class Kid shows the PARENT\'s state: (Kid.tag, '
                        f'Kid.has_class_component(Stats), len(Kid), Kid.components is P.components) == '
                        f'{seen["view"]}, expected (0, False, 0, False)')

    class R(Agent):
        def __init_subclass__(cls):
            super().__init_subclass__()
            cls.add_class_component(Other(cls, m))
            raise RuntimeError('class definition aborted')

    try:
        class RK(R):
            pass
    except RuntimeError:
        pass
    if Other in R:
        problems.append('a class definition that is aborted after attaching a component to the new class leaves that '
                        'component on the parent: R.has_class_component(Other) is True')
    return problems


def exp_class_decorator():
    problems = []
    m = Model()

    def tagged(tag):
        def deco(cls):
            cls.tag = tag
            cls.add_class_component(Stats(cls, m))
            return cls
        return deco

    @tagged(3)
    class A(Agent):
        pass

    @tagged(4)
    class B(A):
        pass

    class C(B):
        pass

    expect_class(problems, 'decorated A', A, 3, {Stats: A[Stats]})
    expect_class(problems, 'decorated B', B, 4, {Stats: B[Stats]})
    expect_class(problems, 'undecorated C', C, 0, {})
    if A[Stats] is B[Stats] or A[Stats].agent is not A or B[Stats].agent is not B:
        problems.append('decorator components mixed up')
    if (A('a', m).tag, B('b', m).tag, C('c', m).tag) != (3, 4, 0):
        problems.append('decorator default tags wrong')
    return problems


# --------------------------------------------------------------------------------------------------------------------
# 14. the live dict returned by ``cls.components`` and vacuous / multi-argument queries
# --------------------------------------------------------------------------------------------------------------------

def exp_components_dict_and_queries():
    problems = []
    m = Model()

    class A(Agent):
        pass

    class B(A):
        pass

    if A.components is B.components or A.components is Agent.components or B.components is Agent.components:
        problems.append('two classes share one components dict')
    a = A('a', m)
    if a.components is A.components:
        problems.append('instance shares the class components dict')
    A.add_class_component(Stats(A, m))
    A.add_class_component(Other(A, m))
    B.add_class_component(Other(B, m))
    checks = [
        (A.has_class_component(), True), (B.has_class_component(), True),
        (A.has_class_component(Stats, Other), True), (B.has_class_component(Stats, Other), False),
        (B.has_class_component(Other, Stats), False), (Agent.has_class_component(Other), False),
        (A.has_class_component(Stats, Stats), True), (A.has_class_component(Stats, SubStats), False),
        (len(A), 2), (len(B), 1), (len(Agent), 0), (len(a), 0),
    ]
    for i, (got, want) in enumerate(checks):
        if got != want:
            problems.append(f'query #{i}: got {got!r} expected {want!r}')
    return problems


# --------------------------------------------------------------------------------------------------------------------
# 15. class ids: changing an id (also to falsy / str-subclass values) never moves tags or components
# --------------------------------------------------------------------------------------------------------------------

def exp_ids():
    problems = []
    m = Model()

    class StrSub(str):
        pass

    class A(Agent):
        pass

    class B(A):
        pass

    A.add_class_component(Stats(A, m))
    A.tag = 2
    for new in ('', 'B', StrSub('Agent'), 0, None):
        A.id = new
        if B.id != 'B' or Agent.id != 'Agent':
            problems.append(f'A.id = {new!r} changed another class id')
        expect_class(problems, f'A.id = {new!r}', A, 2, {Stats: A[Stats]})
        expect_class(problems, f'A.id = {new!r}', B, 0, {})
        try:
            A.add_class_component(Stats(A, m))
            problems.append('duplicate accepted')
        except ValueError:
            pass
        try:
            B.remove_class_component(Stats)
            problems.append('absent detach accepted')
        except ComponentNotFoundError:
            pass
    return problems


# --------------------------------------------------------------------------------------------------------------------
# NOTES: behaviour outside the stated scope / unspecified
# --------------------------------------------------------------------------------------------------------------------

def note_env_explicit_tag():
    out = []
    try:
        Environment(Model(), 'E', tag=3)
    except TypeError as e:
        out.append(f'environments cannot be created with an explicit tag at all (Environment(model, id, tag=3) -> '
                   f'TypeError: {e}); the "explicit tag wins" clause is vacuous for them. Unspecified, not counted.')
    return out


def note_class_body_tag():
    out = []

    class Q(Agent):
        tag = 5

    if Q.tag != 5 or Q('q', None).tag != 5:
        out.append(f'`class Q(Agent): tag = 5` does not set the default tag (Q.tag is {Q.tag!r}, instance tag is '
                   f'{Q("q", None).tag!r}); the metaclass property shadows it. Only `Q.tag = 5` is documented, so this '
                   f'is not counted.')
    return out


def note_class_kwargs():
    out = []
    try:
        class Base(Agent):
            def __init_subclass__(cls, **kw):
                super().__init_subclass__()

        class Z(Base, flavour=1):
            pass
    except TypeError as e:
        out.append(f'class keyword arguments are impossible for agent classes: TypeError: {e} '
                   f'(_MetaAgent.__init__ takes no **kwargs). Unrelated to the property, not counted.')
    return out


def note_spawn():
    return ['with the "spawn"/"forkserver" start methods a worker re-imports the classes, so class components and '
            'default tags set at run time in the parent are not present in the worker (process-local state). '
            'batch_run uses the platform default (fork on this Linux / Python 3.12), where they are inherited - '
            'checked above. Not counted.']


# --------------------------------------------------------------------------------------------------------------------

def main():
    if '--random-only' in sys.argv:
        p = exp_random_histories(seed_count=6, steps=150)
        print('RANDOM-OK' if not p else '\n'.join(p))
        return 0 if not p else 1

    print('ECAgent imported from', ECAgent.__file__)
    run('CHECK', '01 isolation through parent/child/sibling/diamond', exp_basic_isolation)
    run('CHECK', '02 environment classes (Environment..GridWorld, user subclasses, replaced environments)',
        exp_environment_classes)
    run('CHECK', '03 random histories vs reference model (25 seeds x 250 steps)', exp_random_histories)
    run('CHECK', '04 explicit tag always wins (falsy / odd values), defaults handed out unchanged',
        exp_explicit_tag_wins)
    run('CHECK', '05 duplicate attach / absent detach rejected without effect', exp_rejections_without_effect)
    run('CHECK', '06 instances, environment queries and component pools never see class components',
        exp_instances_unaffected)
    run('CHECK', '07 dynamic classes, classes made inside a timestep, completed models', exp_dynamic_classes)
    run('CHECK', '08 copy / deepcopy / pickle of instances, class components, classes, errors', exp_copy_pickle)
    run('CHECK', '09 real multiprocessing: batch_run(processes=1,2,3)', exp_multiprocessing)
    run('CHECK', '10 hash-seed independence (PYTHONHASHSEED=0,1,4242)', exp_hash_seeds)
    run('CHECK', '11 threads creating agents while the default flips', exp_threads)
    run('CHECK', '12 several models and tag libraries alive at once', exp_models_and_libraries)
    run('CHECK', '13a class component attached from __init_subclass__', exp_init_subclass_attach)
    run('CHECK', '13b class component / default tag set from a descriptor __set_name__', exp_set_name_attach)
    run('CHECK', '13c default tag set from __init_subclass__', exp_init_subclass_tag)
    run('CHECK', '13e state seen from inside __init_subclass__; aborted class definitions', exp_hook_reads_and_aborts)
    run('CHECK', '13d class decorators (run after class creation)', exp_class_decorator)
    run('CHECK', '14 components dicts are distinct; vacuous and multi-argument queries',
        exp_components_dict_and_queries)
    run('CHECK', '15 class ids (falsy, clashing, str subclass) never move tags or components', exp_ids)
    run('NOTE', 'N1 environments and explicit tags', note_env_explicit_tag)
    run('NOTE', 'N2 `tag = 5` in the class body', note_class_body_tag)
    run('NOTE', 'N3 class keyword arguments', note_class_kwargs)
    run('NOTE', 'N4 spawn start method', note_spawn)

    print()
    if GENUINE:
        names = sorted({n for n, _ in GENUINE})
        print(f'{len(GENUINE)} problem(s) in {len(names)} experiment(s) inside the stated scope:')
        for n in names:
            print('   ' + n)
        return 1
    print('no violation found')
    return 0


if __name__ == '__main__':
    sys.exit(main())
