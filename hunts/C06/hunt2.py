"""Second-pass bug hunt for property C06:

  "Completion is immediate and final: nothing runs after complete()"

Run with:  cd /tmp/wt-C06-i && PYTHONPATH=/tmp/wt-C06-i /venv/bin/python hunt.py

Every experiment prints OK, NOTE (observation outside the stated scope / unspecified, NOT counted) or VIOLATION
(counted).  Exit status 1 iff at least one VIOLATION was printed.
"""
import copy
import itertools
import logging
import os
import pickle
import random
import subprocess
import sys
import tempfile
import textwrap
import threading
import time
import warnings

warnings.simplefilter('ignore', DeprecationWarning)

import ECAgent
from ECAgent.Core import Model, System, SystemManager, Agent, Component, ModelCompleteError, ModelStatus
from ECAgent.Collectors import Collector, AgentCollector, FileCollector

HERE = os.path.dirname(os.path.abspath(__file__))
VIOLATIONS = []
NOTES = []


def ok(name):
    print(f"[OK]        {name}")


def note(name, text):
    NOTES.append(name)
    print(f"[NOTE]      {name}: {text}")


def violation(name, text):
    VIOLATIONS.append(name)
    print(f"[VIOLATION] {name}: {text}")


def experiment(func):
    try:
        problems = func()
    except Exception as e:
        import traceback
        traceback.print_exc()
        violation(func.__name__, f"experiment raised {type(e).__name__}: {e}")
        return
    if problems:
        for p in problems[:6]:
            violation(func.__name__, p)
    else:
        ok(func.__name__ + " - " + (func.__doc__ or '').strip().splitlines()[0])


class Rec(System):
    """Logs (timestep, id); completes the model when told to."""

    def __init__(self, id, model, log, complete_at=None, **kw):
        super().__init__(id, model, **kw)
        self.log = log
        self.complete_at = complete_at

    def execute(self):
        self.log.append((self.model.systems.timestep, self.id))
        self.model.random.random()  # touches model state, so that any run after completion shows up in the RNG too
        if self.complete_at is not None and self.model.systems.timestep == self.complete_at:
            self.model.complete()


def due(s, t):
    return s.start <= t <= s.end and (t - s.start) % s.frequency == 0


def state_of(m, log):
    """Everything observable about the model that an advance request could change."""
    return (m.systems.timestep, m.timestep, tuple(log), m.random.getstate(), tuple(m.environment.agents),
            tuple((k.__name__, len(v)) for k, v in m.systems.component_pools.items()),
            tuple(m.systems.systems), tuple(id(s) for s in m.systems.execution_queue), m.is_running(), bool(m))


def hammer(m, log, rng, problems, label, with_registry_changes=True):
    """A random later sequence of single / multi / error-raising requests and registrations / removals."""
    counter = itertools.count()
    for _ in range(rng.randint(5, 25)):
        before = state_of(m, log)
        op = rng.randint(0, 8 if with_registry_changes else 5)
        registry_changed = False
        try:
            if op == 0:
                m.execute()
            elif op == 1:
                m.execute(rng.randint(1, 7))
            elif op == 2:
                m.systems.execute_systems()
            elif op == 3:
                m.systems.execute_systems(throw_error=False)
            elif op in (4, 5):
                try:
                    m.systems.execute_systems(True) if op == 4 else m.systems.execute_systems(throw_error=1)
                    problems.append(f"{label}: no ModelCompleteError from execute_systems(throw_error=True)")
                except ModelCompleteError:
                    pass
            elif op == 6:
                registry_changed = True
                m.systems.add_system(Rec(f'late{next(counter)}_{rng.random()}', m, log,
                                         priority=rng.choice([-100, 0, 100]), start=rng.choice([-5, 0, m.timestep])))
            elif op == 7:
                if m.systems.systems:
                    registry_changed = True
                    m.systems.remove_system(rng.choice(list(m.systems.systems)))
            elif op == 8:
                if m.systems.execution_queue:
                    registry_changed = True
                    rng.choice(m.systems.execution_queue).clean_up()
        except Exception as e:
            problems.append(f"{label}: op {op} raised {type(e).__name__}: {e}")
        after = state_of(m, log)
        if registry_changed:
            before = before[:6] + before[8:]
            after = after[:6] + after[8:]
        if before != after:
            problems.append(f"{label}: op {op} changed the completed model (timestep {before[0]} -> {after[0]}, "
                            f"runs {len(before[2])} -> {len(after[2])})")
        if m.is_running() or bool(m) or m._status != ModelStatus.COMPLETE:
            problems.append(f"{label}: model reports running after completion")


# --------------------------------------------------------------------------------------------------------------------
def e01_every_position_every_timestep():
    """every completing position x timestep x window mix vs. an oracle, then a random later request sequence"""
    problems = []
    rng = random.Random(606)
    for trial in range(600):
        m = Model(seed=trial)
        m.environment.add_agent(Agent('a0', m))
        log = []
        k = rng.randint(1, 6)
        T = rng.randint(0, 12)
        completer = rng.randrange(k)
        systems = []
        for i in range(k):
            kw = dict(priority=rng.randint(-2, 2), start=rng.randint(-4, 4), frequency=rng.randint(1, 3))
            if rng.random() < 0.3:
                kw['end'] = kw['start'] + rng.randint(-2, 15)
            if i == completer:
                kw.update(start=T - rng.randint(0, 3) * kw['frequency'], frequency=kw['frequency'])
                kw.pop('end', None)
            s = Rec(f's{i}', m, log, complete_at=T if i == completer else None, **kw)
            m.systems.add_system(s)
            systems.append(s)
        order = list(m.systems.execution_queue)
        pos = order.index(systems[completer])
        mode = rng.randint(0, 2)
        if mode == 0:
            m.execute(T + 5)
        elif mode == 1:
            for _ in range(T + 5):
                m.execute()
        else:
            for _ in range(T + 5):
                m.systems.execute_systems()
        exp = []
        for t in range(T + 1):
            for j, s in enumerate(order):
                if t == T and j > pos:
                    break
                if due(s, t):
                    exp.append((t, s.id))
        if log != exp:
            problems.append(f"trial {trial}: log {log[-6:]} != oracle {exp[-6:]} (completer at queue position {pos})")
        if m.timestep != T + 1:
            problems.append(f"trial {trial}: timestep {m.timestep} after completion during t={T} (expected {T + 1})")
        hammer(m, log, rng, problems, f"trial {trial}")
        if problems:
            break
    return problems


def e02_equal_priorities_and_first_last():
    """completer first / in the middle / last among equal-priority systems: exactly the later ones are skipped"""
    problems = []
    for n in range(1, 6):
        for pos in range(n):
            for T in (0, 1, 4):
                m = Model()
                log = []
                for i in range(n):
                    m.systems.add_system(Rec(i, m, log, complete_at=T if i == pos else None))
                m.execute(T + 3)
                last = [s for t, s in log if t == T]
                if last != list(range(pos + 1)) or m.timestep != T + 1 or any(t > T for t, _ in log):
                    problems.append(f"n={n} pos={pos} T={T}: systems run in the completing timestep {last}")
    return problems


def e03_completion_from_outside():
    """complete() between steps, before the first step, inside a Model subclass' __init__, twice in a row"""
    problems = []
    rng = random.Random(1)
    for steps_before in (0, 1, 7):
        m = Model(seed=3)
        log = []
        m.systems.add_system(Rec('a', m, log))
        m.systems.add_system(Rec('b', m, log, priority=3, start=2, frequency=2))
        if steps_before:
            m.execute(steps_before)
        m.complete()
        m.complete()
        if m.timestep != steps_before:
            problems.append("complete() itself moved the clock")
        hammer(m, log, rng, problems, f"outside after {steps_before} steps")

    class Born(Model):
        def __init__(self):
            super().__init__()
            self.log = []
            self.systems.add_system(Rec('a', self, self.log))
            self.complete()

    m = Born()
    hammer(m, m.log, rng, problems, "completed in __init__")
    if m.log:
        problems.append("a model completed in __init__ ran a system")
    return problems


def e04_complete_overridden_and_called_from_non_system_code():
    """complete() overridden (calling super), and called from an agent callback / collector function mid-timestep"""
    problems = []
    rng = random.Random(2)

    class M(Model):
        def __init__(self):
            super().__init__()
            self.finalised = 0

        def complete(self):
            super().complete()
            self.finalised += 1

    m = M()
    log = []
    m.environment.add_agent(Agent('x', m))

    def agent_func(agent):
        log.append((agent.model.timestep, 'agentFunc'))
        if agent.model.timestep == 3:
            agent.model.complete()
        return 1

    m.systems.add_system(AgentCollector(m, agent_func, priority=5))
    m.systems.add_system(Rec('after', m, log, priority=1))
    m.execute(10)
    if [s for t, s in log if t == 3] != ['agentFunc'] or m.timestep != 4 or m.finalised != 1:
        problems.append(f"completion from an agentFunc: {log[-4:]}, timestep {m.timestep}")
    collector = m.systems['AgentCollector']
    n_records = len(collector.records)
    hammer(m, log, rng, problems, "overridden complete()")
    if len(collector.records) != n_records or m.finalised != 1:
        problems.append("a collector recorded after completion")

    # FileCollector whose collect() completes the model: it finishes its own execute(), nobody else runs
    with tempfile.TemporaryDirectory() as d:
        m = Model()
        log = []

        class FC(FileCollector):
            def collect(self):
                self.records.append(f"{self.model.timestep}\n")
                if self.model.timestep == 2:
                    self.model.complete()

        m.systems.add_system(FC('fc', m, os.path.join(d, 'f.txt'), priority=5))
        m.systems.add_system(Rec('after', m, log, priority=1))
        m.execute(6)
        txt = open(os.path.join(d, 'f.txt')).read().split()
        if txt != ['0', '1', '2'] or [t for t, _ in log] != [0, 1] or m.timestep != 3:
            problems.append(f"FileCollector completing: file {txt}, log {log}, timestep {m.timestep}")
    return problems


def e05_completer_keeps_acting_inside_its_own_execute():
    """after complete() the same system registers/removes systems and asks for more steps from inside the timestep"""
    problems = []
    m = Model(seed=9)
    log = []
    seen = {}

    class Busy(Rec):
        def execute(self):
            super().execute()
            if self.model.timestep == 2:
                self.model.complete()
                self.model.systems.add_system(Rec('urgent', self.model, self.log, priority=1000))
                self.model.systems.add_system(Rec('lazy', self.model, self.log, priority=-1000))
                self.model.systems.remove_system('victim')
                t = self.model.timestep
                self.model.execute()
                self.model.execute(3)
                self.model.systems.execute_systems()
                try:
                    self.model.systems.execute_systems(throw_error=True)
                    seen['raised'] = False
                except ModelCompleteError:
                    seen['raised'] = True
                seen['clock_moved'] = self.model.timestep != t
                seen['running'] = self.model.is_running()

    m.systems.add_system(Rec('first', m, log, priority=9))
    m.systems.add_system(Busy('busy', m, log, priority=5))
    m.systems.add_system(Rec('victim', m, log, priority=3))
    m.systems.add_system(Rec('last', m, log, priority=1))
    m.execute(6)
    exp = [(t, s) for t in range(2) for s in ('first', 'busy', 'victim', 'last')] + [(2, 'first'), (2, 'busy')]
    if log != exp or m.timestep != 3:
        problems.append(f"log {log}, timestep {m.timestep}")
    if seen != {'raised': True, 'clock_moved': False, 'running': False}:
        problems.append(f"requests from inside the completing system: {seen}")
    hammer(m, log, random.Random(5), problems, "busy completer")
    return problems


def e06_cross_model_completion():
    """model B's system steps model A, and A's system completes B in the middle of B's timestep"""
    problems = []
    a, b = Model(), Model()
    log = []

    class Kill(System):
        def execute(self):
            log.append((a.timestep, 'kill'))
            if a.timestep == 2:
                b.complete()

    class Drive(System):
        def execute(self):
            log.append((b.timestep, 'drive'))
            a.execute()

    a.systems.add_system(Kill('kill', a))
    b.systems.add_system(Rec('b-first', b, log, priority=9))
    b.systems.add_system(Drive('drive', b, priority=5))
    b.systems.add_system(Rec('b-last', b, log, priority=1))
    b.execute(6)
    if [x for x in log if x[1] == 'b-last'] != [(0, 'b-last'), (1, 'b-last')] or b.timestep != 3 or b.is_running():
        problems.append(f"B: {log}, timestep {b.timestep}")
    if not a.is_running() or a.timestep != 3:
        problems.append(f"A must be unaffected: running={a.is_running()} timestep={a.timestep}")
    a.execute(2)
    if a.timestep != 5:
        problems.append("A stopped advancing because B completed")
    return problems


def e07_copies_and_pickles():
    """completion survives deepcopy / pickle and does not leak between a model and its copies"""
    problems = []
    m = Model(seed=4)
    m.systems.add_system(PRec('a', m))
    m.execute(3)
    clones = [copy.deepcopy(m), pickle.loads(pickle.dumps(m))]
    m.complete()
    for c in clones:
        if not c.is_running():
            problems.append("completing the original completed a copy taken earlier")
        c.execute(2)
        if c.timestep != 5 or c.systems['a'].ran != [0, 1, 2, 3, 4]:
            problems.append(f"copy did not keep running: {c.timestep} {c.systems['a'].ran}")
    for name, c in (('deepcopy', copy.deepcopy(m)), ('pickle', pickle.loads(pickle.dumps(m))),
                    ('pickle-p2', pickle.loads(pickle.dumps(m, 2))), ('copy-of-copy', copy.deepcopy(copy.deepcopy(m)))):
        if c.is_running() or bool(c):
            problems.append(f"{name} of a completed model reports running")
        c.execute(4)
        c.systems.execute_systems()
        try:
            c.systems.execute_systems(True)
            problems.append(f"{name}: no ModelCompleteError")
        except ModelCompleteError:
            pass
        if c.timestep != 3 or c.systems['a'].ran != [0, 1, 2]:
            problems.append(f"{name} of a completed model advanced: {c.timestep} {c.systems['a'].ran}")
    return problems


class PRec(System):
    def __init__(self, *a, **kw):
        super().__init__(*a, **kw)
        self.ran = []

    def execute(self):
        self.ran.append(self.model.systems.timestep)


def e08_many_models_one_logger():
    """several models (sharing the default 'MODEL' logger) - completing one leaves the others running"""
    problems = []
    models = []
    for i in range(5):
        m = Model()
        log = []
        m.systems.add_system(Rec('s', m, log, complete_at=i if i % 2 == 0 else None))
        models.append((m, log))
    for _ in range(8):
        for m, _log in models:
            m.execute()
    for i, (m, log) in enumerate(models):
        if i % 2 == 0:
            if m.is_running() or m.timestep != i + 1 or len(log) != i + 1:
                problems.append(f"model {i}: timestep {m.timestep}, runs {len(log)}")
        elif not m.is_running() or m.timestep != 8 or len(log) != 8:
            problems.append(f"model {i} was affected by the completion of another: {m.timestep} {len(log)}")
    return problems


def e09_completer_then_raises():
    """a system that completes the model and then raises: the model stays complete and nothing runs afterwards"""
    problems = []
    m = Model(seed=2)
    log = []

    class Boom(Rec):
        def execute(self):
            super().execute()
            if self.model.timestep == 1:
                self.model.complete()
                raise RuntimeError('after complete')

    m.systems.add_system(Boom('boom', m, log, priority=5))
    m.systems.add_system(Rec('later', m, log, priority=1))
    try:
        m.execute(5)
        problems.append("the system's exception was swallowed")
    except RuntimeError:
        pass
    if m.is_running():
        problems.append("model running again after the completing system raised")
    hammer(m, log, random.Random(8), problems, "completer raised")
    if [x for x in log if x[0] >= 1 and x[1] == 'later']:
        problems.append(f"'later' ran in/after the completing timestep: {log}")
    return problems


def e10_error_object():
    """ModelCompleteError: documented type, message, picklable with every protocol, raised for any truthy flag only"""
    problems = []
    e = ModelCompleteError()
    if not isinstance(e, Exception) or 'COMPLETE' not in str(e) or e.message != str(e):
        problems.append(f"unexpected error object {e!r}")
    for proto in range(pickle.HIGHEST_PROTOCOL + 1):
        e2 = pickle.loads(pickle.dumps(e, proto))
        if type(e2) is not ModelCompleteError or str(e2) != str(e) or e2.message != e.message:
            problems.append(f"protocol {proto}: {e2!r}")
    e3 = copy.deepcopy(e)
    if str(e3) != str(e):
        problems.append("deepcopy of the error differs")
    m = Model()
    m.complete()
    for flag, should in ((True, True), (1, True), ('no', True), ([0], True), (False, False), (0, False), (None, False),
                         ('', False), ([], False), (0.0, False)):
        try:
            m.systems.execute_systems(flag)
            raised = False
        except ModelCompleteError:
            raised = True
        if raised != should:
            problems.append(f"throw_error={flag!r}: raised={raised}")
        if m.timestep != 0:
            problems.append("clock moved")
    # running model: never raised
    m = Model()
    try:
        m.systems.execute_systems(True)
    except ModelCompleteError:
        problems.append("ModelCompleteError on a running model")
    return problems


def e11_bad_n_on_completed_model():
    """invalid n on a completed model is still rejected the documented way and changes nothing"""
    import numpy as np
    problems = []
    m = Model(seed=1)
    log = []
    m.systems.add_system(Rec('a', m, log))
    m.execute(2)
    m.complete()
    before = state_of(m, log)
    for n in (0, -1, True, 1.0, '1', None, np.int64(1)):
        try:
            m.execute(n)
            problems.append(f"execute({n!r}) accepted")
        except (TypeError, ValueError):
            pass
    if state_of(m, log) != before:
        problems.append("state changed")
    return problems


def e12_loggers():
    """custom / capturing / silent / falsy loggers: the request is logged (or not) and nothing else happens"""
    problems = []

    class Capture(logging.Handler):
        def __init__(self):
            super().__init__()
            self.msgs = []

        def emit(self, record):
            self.msgs.append(record.getMessage())

    class FalsyLogger(logging.Logger):
        def __bool__(self):
            return False

    for mk in (lambda: logging.getLogger('hunt.c06.a'), lambda: FalsyLogger('hunt.c06.falsy'),
               lambda: logging.LoggerAdapter(logging.getLogger('hunt.c06.b'), {})):
        lg = mk()
        base = lg.logger if isinstance(lg, logging.LoggerAdapter) else lg
        base.setLevel(logging.DEBUG)
        cap = Capture()
        base.addHandler(cap)
        base.propagate = False
        m = Model(logger=lg)
        if m.logger is not lg:
            problems.append(f"custom logger {lg!r} was replaced")
        log = []
        m.systems.add_system(Rec('a', m, log, complete_at=1))
        m.execute(5)
        if m.timestep != 2 or len(log) != 2:
            problems.append(f"{type(lg).__name__}: timestep {m.timestep}, runs {len(log)}")
        # (the logging module itself walks the handler chain with 'while logger:', so a falsy logger emits nothing)
        want = 0 if isinstance(lg, FalsyLogger) else 3
        if len(cap.msgs) != want:
            problems.append(f"{type(lg).__name__}: expected {want} 'called on a completed model' messages, "
                            f"got {cap.msgs}")
        base.setLevel(logging.CRITICAL)
        m.execute(2)
        try:
            m.systems.execute_systems(True)
            problems.append("silent logger: no error")
        except ModelCompleteError:
            pass
        if m.timestep != 2 or len(cap.msgs) != want or len(log) != 2:
            problems.append("silent logger: something happened")
    return problems


def e13_extra_and_replaced_schedulers():
    """a second SystemManager of the same model and a scheduler swapped in after completion do not run either"""
    problems = []
    m = Model()
    log = []
    m.systems.add_system(Rec('a', m, log, complete_at=1))
    extra = SystemManager(m)
    extra.add_system(Rec('x', m, log))
    m.execute(3)
    extra.execute_systems()
    try:
        extra.execute_systems(True)
        problems.append("extra scheduler: no ModelCompleteError")
    except ModelCompleteError:
        pass
    if extra.timestep != 0 or any(s == 'x' for _, s in log):
        problems.append(f"extra scheduler ran for a completed model: {log}")
    m.systems = SystemManager(m)
    m.systems.add_system(Rec('fresh', m, log))
    m.execute(3)
    if m.timestep != 0 or any(s == 'fresh' for _, s in log) or m.is_running():
        problems.append(f"swapped-in scheduler ran for a completed model: {log}")
    return problems


def e14_subclasses_and_falsy_things():
    """Model subclasses (__slots__, __dict__, __len__ 0), systems with falsy truth value, falsy ids"""
    problems = []

    class Slotted(Model):
        __slots__ = ('extra',)

    class Dicty(Model):
        def __len__(self):
            return 0

    class FalsySys(Rec):
        def __bool__(self):
            return False

        def __len__(self):
            return 0

    for cls in (Slotted, Dicty):
        for pos in range(3):
            m = cls(seed=0)
            log = []
            ids = [0, '', ()]
            for i, sid in enumerate(ids):
                m.systems.add_system(FalsySys(sid, m, log, complete_at=2 if i == pos else None, priority=-i))
            m.execute(6)
            if [s for t, s in log if t == 2] != ids[:pos + 1] or m.timestep != 3 or m.is_running() or bool(m):
                problems.append(f"{cls.__name__} pos {pos}: {log[-4:]}")
            hammer(m, log, random.Random(pos), problems, f"{cls.__name__} pos {pos}")
    return problems


def e15_threaded_completion():
    """another thread calls complete() while the main thread is stepping: afterwards nothing runs"""
    problems = []
    m = Model()
    log = []

    class Slow(Rec):
        def execute(self):
            super().execute()
            time.sleep(0.001)

    for i in range(4):
        m.systems.add_system(Slow(i, m, log, priority=-i))
    t = threading.Timer(0.05, m.complete)
    t.start()
    deadline = time.time() + 10
    while m.is_running() and time.time() < deadline:
        m.execute()
    t.join()
    if m.is_running():
        return ["complete() from another thread had no effect within 10 s"]
    time.sleep(0.01)
    n, clock = len(log), m.timestep
    m.execute(50)
    m.systems.execute_systems()
    if len(log) != n or m.timestep != clock:
        problems.append("systems ran after a completion that came from another thread")
    last_t = log[-1][0]
    ran_last = [s for tt, s in log if tt == last_t]
    if ran_last != list(range(len(ran_last))):
        problems.append(f"last timestep ran {ran_last}: not a prefix of the priority order")
    return problems


def e16_batching_and_processes():
    """batch_run / grid_search stop at completion with processes=1 and 2; a ModelCompleteError crosses the process boundary"""
    problems = []
    code = textwrap.dedent('''
        import sys, json
        from ECAgent.Core import Model, System, ModelCompleteError
        from ECAgent.Collectors import Collector
        from ECAgent.Batching import batch_run, grid_search, ScoreMode

        class Clock(Collector):
            def collect(self):
                self.records.append(self.model.timestep)

        class Stopper(System):
            def execute(self):
                self.model.complete()

        class M(Model):
            def __init__(self, stop_at, strict=False):
                super().__init__()
                self.systems.add_system(Clock('hi', self, priority=9))
                self.systems.add_system(Stopper('stop', self, start=stop_at, end=stop_at, priority=5))
                self.systems.add_system(Clock('lo', self))  # priority -1
                if strict:
                    self.complete()
                    self.systems.execute_systems(throw_error=True)

        def score(m):
            return m.timestep

        if __name__ == '__main__':
            out = {}
            for p in (1, 2):
                r = batch_run(M, {'stop_at': [0, 3, 8, 1000]}, collectors=['hi', 'lo'], processes=p, max_timesteps=12)
                out[f'batch{p}'] = sorted(json.dumps(x, sort_keys=True) for x in r)
                best, allr = grid_search(M, {'stop_at': [0, 3, 8, 1000]}, score, processes=p, max_timesteps=12,
                                         mode=ScoreMode.MAX)
                out[f'grid{p}'] = [best['stop_at'], sorted((x['stop_at'], x['records']) for x in allr)]
                try:
                    batch_run(M, {'stop_at': [1, 2], 'strict': [True]}, processes=p, max_timesteps=5)
                    out[f'err{p}'] = 'no error'
                except ModelCompleteError as e:
                    out[f'err{p}'] = 'ModelCompleteError:' + str(e)
                except Exception as e:
                    out[f'err{p}'] = type(e).__name__
            print(json.dumps(out))
    ''')
    import json
    with tempfile.TemporaryDirectory() as d:
        path = os.path.join(d, 'mp_case.py')
        with open(path, 'w') as f:
            f.write(code)
        try:
            res = subprocess.run([sys.executable, path], capture_output=True, text=True, timeout=180,
                                 env=dict(os.environ, PYTHONPATH=HERE))
        except subprocess.TimeoutExpired:
            return ["batching case did not finish within 180 s (hang)"]
    if res.returncode:
        return [f"batching case failed: {res.stderr[-600:]}"]
    out = json.loads(res.stdout.strip().splitlines()[-1])
    exp_batch = sorted(json.dumps({'hi': list(range(min(s + 1, 12))), 'lo': list(range(min(s, 12)))}, sort_keys=True)
                       for s in (0, 3, 8, 1000))
    for p in (1, 2):
        if out[f'batch{p}'] != exp_batch:
            problems.append(f"batch_run processes={p}: {out[f'batch{p}']} != {exp_batch}")
        if out[f'grid{p}'] != [1000, [[0, [1]], [3, [4]], [8, [9]], [1000, [12]]]]:
            problems.append(f"grid_search processes={p}: {out[f'grid{p}']}")
        if not out[f'err{p}'].startswith('ModelCompleteError:'):
            problems.append(f"processes={p}: ModelCompleteError did not reach the caller: {out[f'err{p}']}")
    return problems


def e17_deprecated_alias_and_direct_status():
    """executeSystems() alias; ModelStatus values; is_running()/bool() agree at every moment of the life cycle"""
    problems = []
    m = Model()
    log = []
    seen = []

    class Peek(Rec):
        def execute(self):
            super().execute()
            seen.append((self.model.is_running(), bool(self.model)))

    m.systems.add_system(Rec('c', m, log, complete_at=1, priority=5))
    m.systems.add_system(Peek('p', m, log, priority=9))
    with warnings.catch_warnings():
        warnings.simplefilter('ignore')
        for _ in range(4):
            m.systems.executeSystems()
    if m.timestep != 2 or seen != [(True, True), (True, True)] or m.is_running() or bool(m):
        problems.append(f"timestep {m.timestep}, seen {seen}")
    if (int(ModelStatus.RUNNING), int(ModelStatus.COMPLETE)) != (0, 1):
        problems.append("ModelStatus values changed")
    return problems


def e18_windowed_completer_that_never_fires_again():
    """completer with a window (start/end/frequency): completes at its first due timestep, never earlier or later"""
    problems = []
    for start, freq, end in ((3, 1, 3), (-4, 3, 100), (5, 2, sys.maxsize), (2, 7, 1)):
        m = Model()
        log = []

        class Stop(System):
            def execute(self):
                self.model.complete()

        m.systems.add_system(Stop('stop', m, priority=2, start=start, frequency=freq, end=end))
        m.systems.add_system(Rec('hi', m, log, priority=5))
        m.systems.add_system(Rec('lo', m, log, priority=1))
        m.execute(20)
        first = next((t for t in range(20) if start <= t <= end and (t - start) % freq == 0), None)
        if first is None:
            if not m.is_running() or m.timestep != 20:
                problems.append(f"window {(start, freq, end)}: completed although the completer was never due")
        else:
            hi = [t for t, s in log if s == 'hi']
            lo = [t for t, s in log if s == 'lo']
            if hi != list(range(first + 1)) or lo != list(range(first)) or m.timestep != first + 1:
                problems.append(f"window {(start, freq, end)}: hi {hi}, lo {lo}, timestep {m.timestep}")
    return problems


def n01_shallow_copy():
    m = Model()
    log = []
    m.systems.add_system(Rec('a', m, log))
    c = copy.copy(m)
    c.complete()
    c.execute(2)
    if c.timestep == 2 and not c.is_running():
        note('n01_shallow_copy',
             "copy.copy(model) shares the original's SystemManager (whose .model is the original): completing the "
             "shallow copy does not stop c.execute(). A shallow copy of a Model is not a usable model in any respect "
             "(shared environment, systems, RNG) -> misuse, NOT counted.")
    else:
        ok('n01 shallow copy')


def n02_reentrant_stepping():
    m = Model()
    log = []

    class Nest(Rec):
        def execute(self):
            super().execute()
            if self.model.timestep == 1 and not getattr(self, 'nested', False):
                self.nested = True
                self.model.execute()  # inner step, in which 'stop' completes the model

    m.systems.add_system(Nest('nest', m, log, priority=5))
    m.systems.add_system(Rec('stop', m, log, priority=1, complete_at=1))
    m.execute(4)
    after = [x for x in log[log.index((1, 'stop')) + 1:]]
    if after:
        violation('n02_reentrant_stepping', f"systems ran after completion in a re-entrant step: {after}")
    elif m.timestep == 3:
        note('n02_reentrant_stepping',
             "re-entrant stepping: when the model is completed inside a nested execute(), no system runs afterwards, "
             "but the outer request (issued BEFORE completion) still performs its own 'timestep += 1' when it unwinds "
             "(clock 1 -> 2 by the inner, -> 3 by the outer request). Not a 'later request'; NOT counted.")
    else:
        ok('n02 re-entrant stepping')


def n03_noise_of_multistep_requests():
    class Capture(logging.Handler):
        n = 0

        def emit(self, record):
            Capture.n += 1

    lg = logging.getLogger('hunt.c06.noise')
    lg.propagate = False
    lg.addHandler(Capture())
    lg.setLevel(logging.INFO)
    m = Model(logger=lg)
    m.systems.add_system(Rec('a', m, [], complete_at=0))
    m.execute(1000)
    if Capture.n == 999:
        note('n03_noise_of_multistep_requests',
             "model.execute(1000) on a model that completes in its first step keeps looping: 999 no-op calls, each "
             "logging an INFO line (execute(n) does not stop early). State is untouched, so the property holds; only "
             "noise/time for very large n. NOT counted.")
    else:
        ok(f'n03 ({Capture.n} log lines)')


if __name__ == '__main__':
    print("ECAgent under test:", ECAgent.__file__)
    if not os.path.abspath(ECAgent.__file__).startswith(HERE):
        print("WARNING: not testing the copy in", HERE, "- run with PYTHONPATH=" + HERE)
    for fn in (e01_every_position_every_timestep, e02_equal_priorities_and_first_last, e03_completion_from_outside,
               e04_complete_overridden_and_called_from_non_system_code,
               e05_completer_keeps_acting_inside_its_own_execute, e06_cross_model_completion, e07_copies_and_pickles,
               e08_many_models_one_logger, e09_completer_then_raises, e10_error_object, e11_bad_n_on_completed_model,
               e12_loggers, e13_extra_and_replaced_schedulers, e14_subclasses_and_falsy_things,
               e15_threaded_completion, e16_batching_and_processes, e17_deprecated_alias_and_direct_status,
               e18_windowed_completer_that_never_fires_again):
        experiment(fn)
    n01_shallow_copy()
    n02_reentrant_stepping()
    n03_noise_of_multistep_requests()
    print()
    print(f"{len(VIOLATIONS)} violation(s), {len(NOTES)} note(s) (notes are outside the stated scope / unspecified)")
    sys.exit(1 if VIOLATIONS else 0)
