"""Bug hunt for the property

    "Completion is immediate and final: nothing runs after complete()"

Standalone script, public API only.  Run with

    cd /tmp/wt-C06-h && PYTHONPATH=/tmp/wt-C06-h /venv/bin/python hunt.py

Prints one line per experiment (OK / VIOLATION / NOTE) and exits 1 iff at least one genuine violation of the
property (within its stated scope) was observed, else 0.
"""
import copy
import io
import itertools
import logging
import multiprocessing
import os
import pickle
import subprocess
import sys
import tempfile
import time
import warnings

import ECAgent.Core as core
from ECAgent.Core import Model, System, Agent, Component, ModelCompleteError, SystemNotFoundError
import ECAgent.Collectors as collectors
import ECAgent.Batching as batching
import ECAgent.Environments as envs

warnings.simplefilter('ignore', DeprecationWarning)

VIOLATIONS = []
NOTES = []


def report(name, problems):
    if problems:
        VIOLATIONS.append(name)
        print(f"VIOLATION  {name}")
        for p in problems[:5]:
            print(f"           - {p}")
        if len(problems) > 5:
            print(f"           ... and {len(problems) - 5} more")
    else:
        print(f"OK         {name}")


def note(name, text):
    NOTES.append(name)
    print(f"NOTE       {name}: {text}")


# --------------------------------------------------------------------------------------------------------------------
# Building blocks (module level, so that they can be pickled / used from worker processes)
# --------------------------------------------------------------------------------------------------------------------

class Counter(Component):
    def __init__(self, agent, model, value=0):
        super().__init__(agent, model)
        self.value = value


class Recorder(System):
    """Appends (id, timestep) to model-wide log; also touches model state so that any run is observable."""

    def __init__(self, id, model, log, **kw):
        super().__init__(id, model, **kw)
        self.log = log

    def execute(self):
        self.log.append((self.id, self.model.systems.timestep))
        self.model.random.random()  # disturbs the RNG: a run after completion changes model state
        for a in self.model.environment.agents.values():
            c = a.get_component(Counter)
            if c is not None:
                c.value += 1


class Completer(Recorder):
    """Calls model.complete() when the timestep equals ``at`` (and does arbitrary extra things afterwards)."""

    def __init__(self, id, model, log, at=0, after=None, **kw):
        super().__init__(id, model, log, **kw)
        self.at = at
        self.after = after

    def execute(self):
        super().execute()
        if self.model.systems.timestep == self.at:
            self.model.complete()
            if self.after is not None:
                self.after(self)


def snapshot(model, log=None, extra=()):
    """Everything observable through the public API that an advance request could possibly change."""
    sm = model.systems
    env = model.environment
    agents = []
    for aid, a in env.agents.items():
        comps = []
        for ct, c in a.components.items():
            comps.append((ct.__name__, getattr(c, 'value', None), getattr(c, 'x', None), getattr(c, 'y', None)))
        agents.append((aid, id(a), tuple(comps), a.tag))
    return (
        sm.timestep,
        model.timestep,
        model.is_running(),
        bool(model),
        model.random.getstate(),
        tuple(id(s) for s in sm.execution_queue),
        tuple((k, id(v)) for k, v in sm.systems.items()),
        tuple((k.__name__, tuple(id(c) for c in v)) for k, v in sm.component_pools.items()),
        id(env),
        tuple(agents),
        None if log is None else tuple(log),
        tuple(tuple(map(repr, getattr(s, 'records', ()))) for s in sm.execution_queue),
        tuple(extra),
    )


def populate(model, n=3):
    for i in range(n):
        a = Agent(f"a{i}", model)
        a.add_component(Counter(a, model, i))
        model.environment.add_agent(a)


# Each "advance request" returns a description; it must leave the snapshot unchanged on a completed model.
def adv_execute(m):
    m.execute()


def adv_execute3(m):
    m.execute(3)


def adv_execute_kw(m):
    m.execute(n=2)


def adv_exec_systems(m):
    m.systems.execute_systems()


def adv_exec_systems_false(m):
    m.systems.execute_systems(throw_error=False)


def adv_exec_systems_throw(m):
    try:
        m.systems.execute_systems(throw_error=True)
    except ModelCompleteError as e:
        if e.message != 'execute_systems() was called on a model with status "ModelStatus.COMPLETE".':
            raise AssertionError(f"unexpected message {e.message!r}")
        return
    raise AssertionError("execute_systems(throw_error=True) did not raise ModelCompleteError on a completed model")


def adv_exec_systems_throw_pos(m):
    try:
        m.systems.execute_systems(True)
    except ModelCompleteError:
        return
    raise AssertionError("execute_systems(True) did not raise ModelCompleteError on a completed model")


def adv_deprecated(m):
    m.systems.executeSystems()


ADVANCES = [adv_execute, adv_execute3, adv_execute_kw, adv_exec_systems, adv_exec_systems_false,
            adv_exec_systems_throw, adv_exec_systems_throw_pos, adv_deprecated]


_LATE = [0]


def hammer(model, log, label, problems, registrations=True):
    """Issue every kind of advance request (and registrations/removals) on a completed model; nothing may change."""
    if model.is_running() or bool(model):
        problems.append(f"{label}: model still reports running after complete()")
        return
    before = snapshot(model, log)
    for adv in ADVANCES:
        try:
            adv(model)
        except AssertionError as e:
            problems.append(f"{label}: {adv.__name__}: {e}")
        except Exception as e:  # noqa
            problems.append(f"{label}: {adv.__name__} raised {type(e).__name__}: {e}")
        after = snapshot(model, log)
        if after != before:
            diff = [i for i, (x, y) in enumerate(zip(before, after)) if x != y]
            problems.append(f"{label}: state changed by {adv.__name__} on a completed model (snapshot fields {diff}; "
                            f"timestep {before[0]}->{after[0]}, log {before[10]} -> {after[10]})")
            before = after
    if registrations:
        # registrations / removals after completion must not make anything run
        n_log = len(log)
        t = model.systems.timestep
        rng = model.random.getstate()
        _LATE[0] += 1
        hi_id, lo_id = f'__late_hi_{_LATE[0]}__', f'__late_lo_{_LATE[0]}__'
        late_hi = Recorder(hi_id, model, log, priority=10 ** 9)
        late_lo = Recorder(lo_id, model, log, priority=-10 ** 9)
        model.systems.add_system(late_hi)
        model.systems.add_system(late_lo)
        for adv in ADVANCES:
            try:
                adv(model)
            except Exception as e:  # noqa
                problems.append(f"{label}: after late registration {adv.__name__} raised {type(e).__name__}: {e}")
        victim = next((s for s in list(model.systems.systems) if not str(s).startswith('__late')), None)
        if victim is not None:
            model.systems.remove_system(victim)
        model.systems.remove_system(hi_id)
        for adv in ADVANCES:
            try:
                adv(model)
            except Exception as e:  # noqa
                problems.append(f"{label}: after late removal {adv.__name__} raised {type(e).__name__}: {e}")
        if len(log) != n_log:
            problems.append(f"{label}: systems ran after completion following registrations/removals: {log[n_log:]}")
        if model.systems.timestep != t:
            problems.append(f"{label}: timestep moved {t}->{model.systems.timestep} after registrations/removals")
        if model.random.getstate() != rng:
            problems.append(f"{label}: RNG state changed after registrations/removals")
        if model.is_running() or bool(model):
            problems.append(f"{label}: model reports running again")


# --------------------------------------------------------------------------------------------------------------------
# Experiments
# --------------------------------------------------------------------------------------------------------------------

def exp_exhaustive_positions():
    """Every number of systems 1..5, completer at every position, completion at timestep 0..3, several priority
    layouts (distinct, all tied, negative/float/bool mixes).  Compared with an independent oracle."""
    problems = []
    layouts = {
        'distinct': lambda n: list(range(n, 0, -1)),
        'tied': lambda n: [0] * n,
        'mixed': lambda n: [[5, 2.5, True, 0, -0.0, -3, -7.5][i] for i in range(n)],
        'huge': lambda n: [10 ** 30 - i for i in range(n)],
    }
    count = 0
    for lname, lay in layouts.items():
        for n in range(1, 6):
            prios = lay(n)
            for pos in range(n):
                for at in range(0, 4):
                    for stepper in ('single', 'multi', 'raw', 'raw_throw'):
                        count += 1
                        model = Model(seed=7)
                        populate(model)
                        log = []
                        order = []
                        for i in range(n):
                            sid = f"s{i}"
                            if i == pos:
                                s = Completer(sid, model, log, at=at, priority=prios[i])
                            else:
                                s = Recorder(sid, model, log, priority=prios[i])
                            order.append(s)
                        # register in a scrambled order; stable sort by priority (desc) is the documented order
                        reg = order[1::2] + order[0::2]
                        for s in reg:
                            model.systems.add_system(s)
                        expected_order = [s.id for s in sorted(reg, key=lambda s: -s.priority)]
                        if [s.id for s in model.systems.execution_queue] != expected_order:
                            problems.append(f"{lname} n={n}: queue order {model.systems.execution_queue}")
                        cpos = expected_order.index(f"s{pos}")
                        expected_log = [(sid, t) for t in range(at) for sid in expected_order]
                        expected_log += [(sid, at) for sid in expected_order[:cpos + 1]]
                        if stepper == 'single':
                            for _ in range(at + 3):
                                model.execute()
                        elif stepper == 'multi':
                            model.execute(at + 4)
                        elif stepper == 'raw':
                            for _ in range(at + 3):
                                model.systems.execute_systems()
                        else:
                            for _ in range(at + 1):
                                model.systems.execute_systems(throw_error=True)  # must not raise while running
                        label = f"{lname} n={n} pos={pos} at={at} {stepper}"
                        if log != expected_log:
                            problems.append(f"{label}: log {log} != expected {expected_log}")
                        if model.systems.timestep != at + 1:
                            problems.append(f"{label}: timestep {model.systems.timestep} != {at + 1}")
                        hammer(model, log, label, problems)
    report(f"A01 exhaustive positions/timesteps/priority layouts ({count} configurations)", problems)


def exp_outside_completion():
    problems = []
    for k in range(0, 4):
        model = Model(seed=1)
        populate(model)
        log = []
        for i in range(3):
            model.systems.add_system(Recorder(f"s{i}", model, log, priority=i))
        if k:
            model.execute(k)
        n = len(log)
        model.complete()
        model.complete()  # idempotent
        hammer(model, log, f"outside after {k} steps", problems)
        if len(log) != n:
            problems.append(f"k={k}: log grew")
        if model.systems.timestep != k:
            problems.append(f"k={k}: timestep {model.systems.timestep}")
    # a brand new model with no systems at all
    model = Model()
    model.complete()
    hammer(model, [], "empty model", problems)
    report("A02 completion from outside between steps (0..3 steps, idempotent, empty model)", problems)


def exp_frequency_start_end():
    problems = []
    for freq, start, end in itertools.product((1, 2, 3), (0, 1, 2), (2, 5, sys.maxsize)):
        for at in range(start, min(end, 6) + 1):
            if (start - at) % freq != 0:
                continue
            model = Model(seed=3)
            log = []
            model.systems.add_system(Recorder('hi', model, log, priority=5))
            model.systems.add_system(Completer('c', model, log, at=at, priority=3, frequency=freq, start=start, end=end))
            model.systems.add_system(Recorder('lo', model, log, priority=1, frequency=2, start=1))
            model.systems.add_system(Recorder('lo2', model, log, priority=-1, start=at, end=at + 1))
            model.execute(at + 5)
            bad = [e for e in log if e[1] > at or (e[1] == at and e[0] in ('lo', 'lo2'))]
            if bad:
                problems.append(f"freq={freq} start={start} end={end} at={at}: ran after completion {bad}")
            if model.systems.timestep != at + 1:
                problems.append(f"freq={freq} start={start} end={end} at={at}: timestep {model.systems.timestep}")
            hammer(model, log, f"freq={freq} start={start} end={end} at={at}", problems)
    report("A03 frequency/start/end windows on completer and on the skipped systems", problems)


def exp_mutating_completer():
    """The completing system also registers / removes systems (incl. itself) in the same timestep."""
    problems = []

    def add_high(s):
        s.model.systems.add_system(Recorder('new_hi', s.model, s.log, priority=100))
        s.model.systems.add_system(Recorder('new_lo', s.model, s.log, priority=-100))

    def remove_self(s):
        s.clean_up()

    def remove_next(s):
        s.model.systems.remove_system('lo')

    def remove_all(s):
        for sid in list(s.model.systems.systems):
            s.model.systems.remove_system(sid)

    def readd_self_lower(s):
        s.clean_up()
        s.priority = -50
        s.model.systems.add_system(s)

    def swap_queue(s):
        s.model.systems.execution_queue.reverse()

    for after in (add_high, remove_self, remove_next, remove_all, readd_self_lower, swap_queue):
        for at in (0, 2):
            model = Model(seed=3)
            populate(model)
            log = []
            model.systems.add_system(Recorder('hi', model, log, priority=5))
            model.systems.add_system(Completer('c', model, log, at=at, after=after, priority=3))
            model.systems.add_system(Recorder('lo', model, log, priority=1))
            model.execute(at + 3)
            bad = [e for e in log if e[1] > at or (e[1] == at and e[0] not in ('hi', 'c'))]
            if bad or log.count(('c', at)) != 1:
                problems.append(f"{after.__name__} at={at}: unexpected runs {log}")
            if model.systems.timestep != at + 1:
                problems.append(f"{after.__name__} at={at}: timestep {model.systems.timestep}")
            hammer(model, log, f"{after.__name__} at={at}", problems)
    report("A04 completer that registers/removes systems (itself, next, all, re-adds itself lower, reverses queue)",
           problems)


def exp_nested_stepping():
    problems = []

    # (a) completer asks for more steps from inside the running timestep, in every flavour
    def nested_requests(s):
        before = (s.model.systems.timestep, len(s.log), s.model.random.getstate())
        s.model.execute()
        s.model.execute(4)
        s.model.systems.execute_systems()
        try:
            s.model.systems.execute_systems(throw_error=True)
            s.log.append(('NO_ERROR', -1))
        except ModelCompleteError:
            pass
        if before != (s.model.systems.timestep, len(s.log), s.model.random.getstate()):
            s.log.append(('NESTED_CHANGED_STATE', -1))

    for at in (0, 1, 3):
        model = Model(seed=5)
        log = []
        model.systems.add_system(Recorder('hi', model, log, priority=5))
        model.systems.add_system(Completer('c', model, log, at=at, after=nested_requests, priority=3))
        model.systems.add_system(Recorder('lo', model, log, priority=1))
        model.execute(at + 2)
        exp = [(s, t) for t in range(at) for s in ('hi', 'c', 'lo')] + [('hi', at), ('c', at)]
        if log != exp:
            problems.append(f"(a) at={at}: {log}")
        if model.systems.timestep != at + 1:
            problems.append(f"(a) at={at}: timestep {model.systems.timestep}")
        hammer(model, log, f"(a) at={at}", problems)

    # (b) an outer system runs a nested step in which an inner system completes the model
    class Nester(Recorder):
        depth = 0

        def execute(self):
            super().execute()
            if Nester.depth == 0:
                Nester.depth += 1
                try:
                    self.model.execute()
                finally:
                    Nester.depth -= 1

    class InnerCompleter(Recorder):  # completes the model only while it is being run by the *nested* step
        def execute(self):
            super().execute()
            if Nester.depth == 1 and self.model.systems.timestep >= 1:
                self.log.append('COMPLETE')
                self.model.complete()

    for cprio in (9, 3, 1):  # completer before / after the nester
        Nester.depth = 0
        model = Model(seed=5)
        log = []
        model.systems.add_system(Nester('nest', model, log, priority=5))
        model.systems.add_system(InnerCompleter('c', model, log, priority=cprio))
        model.systems.add_system(Recorder('lo', model, log, priority=0))
        model.systems.add_system(Recorder('lowest', model, log, priority=-5))
        model.execute(4)
        if 'COMPLETE' not in log:
            problems.append(f"(b) cprio={cprio}: harness: inner completion never happened {log}")
        else:
            idx = log.index('COMPLETE')
            if log[idx + 1:]:
                problems.append(f"(b) cprio={cprio}: systems ran after completion: {log[idx + 1:]} (full {log})")
        hammer(model, log, f"(b) cprio={cprio}", problems)

    # (c) nested stepping of a *different* model which completes the outer one
    class CrossCompleter(System):
        def __init__(self, id, model, target, log):
            super().__init__(id, model)
            self.target = target
            self.log = log

        def execute(self):
            self.log.append((self.id, self.model.systems.timestep))
            self.target.complete()

    class StepOther(Recorder):
        other = None

        def execute(self):
            super().execute()
            self.other.execute()

    outer, inner = Model(seed=1), Model(seed=2)
    olog, ilog = [], []
    so = StepOther('step_inner', outer, olog, priority=5)
    so.other = inner
    outer.systems.add_system(Recorder('hi', outer, olog, priority=9))
    outer.systems.add_system(so)
    outer.systems.add_system(Recorder('lo', outer, olog, priority=1))
    inner.systems.add_system(CrossCompleter('cc', inner, outer, ilog))
    inner.systems.add_system(Recorder('inner_lo', inner, ilog, priority=-5))
    outer.execute(3)
    if olog != [('hi', 0), ('step_inner', 0)]:
        problems.append(f"(c) outer log {olog}")
    if not inner.is_running() or ilog != [('cc', 0), ('inner_lo', 0)]:
        problems.append(f"(c) inner model wrongly affected: running={inner.is_running()} log={ilog}")
    hammer(outer, olog, "(c) outer", problems)
    inner.execute()
    if ilog[-2:] != [('cc', 1), ('inner_lo', 1)]:
        problems.append(f"(c) inner model (never completed) stopped running: {ilog}")
    report("A05 advance requests from inside a running timestep (self, nested inner completion, cross-model)",
           problems)


def exp_exception_after_complete():
    problems = []

    class Boom(Exception):
        pass

    def boom(s):
        raise Boom()

    for at in (0, 2):
        model = Model(seed=1)
        log = []
        model.systems.add_system(Recorder('hi', model, log, priority=5))
        model.systems.add_system(Completer('c', model, log, at=at, after=boom, priority=3))
        model.systems.add_system(Recorder('lo', model, log, priority=1))
        try:
            model.execute(at + 3)
            problems.append("exception swallowed")
        except Boom:
            pass
        if ('lo', at) in log:
            problems.append(f"at={at}: lo ran")
        hammer(model, log, f"boom at={at}", problems)

    # a system that raises *before* another system completes: half-finished step, then outside completion
    class Raiser(Recorder):
        def execute(self):
            super().execute()
            raise Boom()

    model = Model(seed=1)
    log = []
    model.systems.add_system(Raiser('r', model, log, priority=5))
    model.systems.add_system(Recorder('lo', model, log, priority=1))
    try:
        model.execute()
    except Boom:
        pass
    model.complete()
    hammer(model, log, "half-finished step then complete()", problems)
    report("A06 error paths: completer raises after complete(); half-finished step followed by complete()", problems)


def exp_invalid_n_on_completed():
    problems = []
    import numpy as np
    model = Model(seed=1)
    log = []
    model.systems.add_system(Recorder('s', model, log))
    model.execute(2)
    model.complete()
    before = snapshot(model, log)
    for bad, exc in ((0, ValueError), (-1, ValueError), (-10 ** 30, ValueError), (True, TypeError), (1.0, TypeError),
                     (np.int64(2), TypeError), ('1', TypeError), (None, TypeError), (-0.0, TypeError),
                     ([1], TypeError)):
        try:
            model.execute(bad)
            problems.append(f"execute({bad!r}) accepted on a completed model")
        except exc:
            pass
        except Exception as e:  # noqa
            problems.append(f"execute({bad!r}) raised {type(e).__name__} instead of {exc.__name__}")
        if snapshot(model, log) != before:
            problems.append(f"execute({bad!r}) changed state of a completed model")
    # large but feasible n
    t0 = time.time()
    model.execute(200000)
    dt = time.time() - t0
    if snapshot(model, log) != before:
        problems.append("execute(200000) changed state of a completed model")
    report("A07 Model.execute(n) argument validation on a completed model (0, negatives, bool, float, numpy, str, "
           "None) and large n", problems)
    note("A07b", f"execute(n) on a completed model still loops n times (200000 no-op calls took {dt:.2f}s): huge n "
                 f"(e.g. 10**12) never returns in practice - a performance remark, state stays untouched, "
                 f"not counted as a violation")


def exp_throw_error_values():
    problems = []
    import numpy as np
    model = Model()
    log = []
    model.systems.add_system(Recorder('s', model, log))
    model.execute()
    model.complete()
    before = snapshot(model, log)

    class Truthy:
        def __bool__(self):
            return True

    class Len1:
        def __len__(self):
            return 1

    for val in (True, 1, np.True_, np.int64(1), 'yes', Truthy(), Len1(), 1.5, [0]):
        try:
            model.systems.execute_systems(throw_error=val)
            problems.append(f"throw_error={val!r}: no ModelCompleteError")
        except ModelCompleteError:
            pass
        if snapshot(model, log) != before:
            problems.append(f"throw_error={val!r}: state changed")

    class Falsy:
        def __bool__(self):
            return False

    class Len0:
        def __len__(self):
            return 0

    for val in (False, 0, np.False_, '', None, Falsy(), Len0(), 0.0, -0.0, [], {}):
        try:
            r = model.systems.execute_systems(throw_error=val)
            if r is not None:
                problems.append(f"throw_error={val!r}: returned {r!r}")
        except Exception as e:  # noqa
            problems.append(f"throw_error={val!r}: raised {type(e).__name__}")
        if snapshot(model, log) != before:
            problems.append(f"throw_error={val!r}: state changed")
    # on a RUNNING model throw_error=True must not raise and must step normally - also in the step that completes
    m2 = Model()
    log2 = []
    m2.systems.add_system(Completer('c', m2, log2, at=1))
    m2.systems.add_system(Recorder('lo', m2, log2, priority=-1))
    m2.systems.execute_systems(throw_error=True)
    m2.systems.execute_systems(throw_error=True)
    if log2 != [('c', 0), ('lo', 0), ('c', 1)] or m2.systems.timestep != 2:
        problems.append(f"running model with throw_error=True: {log2} t={m2.systems.timestep}")
    hammer(m2, log2, "throw", problems)
    # the error is picklable and keeps its message
    e = pickle.loads(pickle.dumps(ModelCompleteError()))
    if not isinstance(e, ModelCompleteError) or 'COMPLETE' not in e.message:
        problems.append("ModelCompleteError does not survive pickling")
    report("A08 throw_error truthy/falsy variants (bool, int, numpy, str, __bool__/__len__ objects), error pickling",
           problems)


def exp_many_models_shared_systems():
    problems = []
    # several models alive at once, completing one leaves others running and vice versa
    models = [Model(seed=i) for i in range(4)]
    logs = [[] for _ in models]
    for i, (m, lg) in enumerate(zip(models, logs)):
        m.systems.add_system(Recorder('hi', m, lg, priority=2))
        m.systems.add_system(Completer('c', m, lg, at=i, priority=1))
        m.systems.add_system(Recorder('lo', m, lg, priority=0))
    for step in range(6):
        for m in models:
            m.execute()
    for i, (m, lg) in enumerate(zip(models, logs)):
        exp = [(s, t) for t in range(i) for s in ('hi', 'c', 'lo')] + [('hi', i), ('c', i)]
        if lg != exp or m.systems.timestep != i + 1 or m.is_running():
            problems.append(f"model {i}: log={lg} t={m.systems.timestep}")
        hammer(m, lg, f"model {i}", problems)

    # one system object registered with two managers; its .model is A.  Running it from B completes A only.
    A, B = Model(seed=1), Model(seed=2)
    la, lb = [], []
    shared = Completer('shared', A, la, at=0, priority=5)
    A.systems.add_system(Recorder('a_hi', A, la, priority=9))
    A.systems.add_system(shared)
    A.systems.add_system(Recorder('a_lo', A, la, priority=1))
    B.systems.add_system(shared)
    B.systems.add_system(Recorder('b_lo', B, lb, priority=1))
    B.execute()  # shared.execute() -> A.complete() (A.timestep == 0 == at)
    if A.is_running():
        problems.append("shared system did not complete its own model A")
    if not B.is_running() or lb != [('b_lo', 0)]:
        problems.append(f"B affected by A's completion: running={B.is_running()} {lb}")
    n = len(la)
    A.execute(3)
    if len(la) != n or A.systems.timestep != 0:
        problems.append(f"A ran after being completed from B's timestep: {la[n:]} t={A.systems.timestep}")
    hammer(A, la, "A(shared)", problems)

    # foreign system: registered with A's manager but system.model is B -> it completes B, A goes on
    A, B = Model(seed=1), Model(seed=2)
    la, lb = [], []
    A.systems.add_system(Completer('foreign', B, lb, at=0, priority=5))
    A.systems.add_system(Recorder('a_lo', A, la, priority=1))
    B.systems.add_system(Recorder('b', B, lb))
    A.execute(2)
    if not A.is_running() or la != [('a_lo', 0), ('a_lo', 1)]:
        problems.append(f"foreign: A wrongly stopped {la}")
    if B.is_running():
        problems.append("foreign: B not completed")
    n = len(lb)
    B.execute(2)
    if len(lb) != n or B.systems.timestep != 0:
        problems.append(f"foreign: B ran after completion {lb[n:]}")
    hammer(B, lb, "B(foreign)", problems)
    report("A09 several models alive at once; system objects shared between managers; foreign systems", problems)


class SubModelNoSlots(Model):
    def __init__(self, stop_at=2, seed=None):
        super().__init__(seed=seed)
        self.stop_at = stop_at
        self.log = []
        self.systems.add_system(Recorder('hi', self, self.log, priority=2))
        self.systems.add_system(Completer('c', self, self.log, at=stop_at, priority=1))
        self.systems.add_system(RecCollector('col', self))


class RecCollector(collectors.Collector):
    def collect(self):
        self.records.append(self.model.systems.timestep)


class SubModelOverrides(Model):
    """Overrides execute() the way a user might (calling super) and keeps extra state."""
    __slots__ = ['calls']

    def __init__(self):
        super().__init__()
        self.calls = 0

    def execute(self, n: int = 1):
        self.calls += 1
        super().execute(n)


def exp_model_subclasses_and_environments():
    problems = []
    m = SubModelNoSlots(stop_at=2, seed=4)
    m.execute(6)
    if m.log != [('hi', 0), ('c', 0), ('hi', 1), ('c', 1), ('hi', 2), ('c', 2)] or m.systems['col'].records != [0, 1]:
        problems.append(f"SubModelNoSlots: {m.log} {m.systems['col'].records}")
    hammer(m, m.log, "SubModelNoSlots", problems)

    m = SubModelOverrides()
    log = []
    m.systems.add_system(Completer('c', m, log, at=1))
    m.systems.add_system(Recorder('lo', m, log, priority=-1))
    m.execute(5)
    if log != [('c', 0), ('lo', 0), ('c', 1)] or m.systems.timestep != 2:
        problems.append(f"SubModelOverrides: {log}")
    hammer(m, log, "SubModelOverrides", problems)

    # spatial environments, environment replaced before / after completion, environment that is not model.environment
    for mk in (lambda mod: envs.GridWorld(mod, 3, 3), lambda mod: envs.LineWorld(mod, 4),
               lambda mod: envs.SpaceWorld(mod, 2.0, 2.0), lambda mod: envs.DiscreteWorld(mod, 2, 2, 2)):
        m = Model(seed=2)
        m.set_environment(mk(m))
        populate(m, 2)
        log = []
        m.systems.add_system(Completer('c', m, log, at=1, priority=1))
        m.systems.add_system(Recorder('lo', m, log, priority=0))
        m.execute(4)
        if log != [('c', 0), ('lo', 0), ('c', 1)]:
            problems.append(f"{type(m.environment).__name__}: {log}")
        hammer(m, log, type(m.environment).__name__, problems)
        # replace the environment on the completed model, add agents; still nothing runs
        other = mk(m)
        m.environment = other
        populate(m, 1)
        n = len(log)
        m.execute(3)
        m.systems.execute_systems()
        if len(log) != n or m.systems.timestep != 2 or m.is_running():
            problems.append(f"{type(m.environment).__name__}: ran after environment replacement")
        hammer(m, log, type(m.environment).__name__ + " (replaced env)", problems)
    report("A10 Model subclasses (with/without __slots__, overriding execute) and replaced/spatial environments",
           problems)


def exp_pickle_copy():
    problems = []
    m = SubModelNoSlots(stop_at=1, seed=4)
    m.execute(3)
    for name, clone in (('pickle', pickle.loads(pickle.dumps(m))), ('deepcopy', copy.deepcopy(m)),
                        ('copy', copy.copy(m))):
        if clone.is_running() or bool(clone):
            problems.append(f"{name}: clone of a completed model reports running")
        log = clone.systems['hi'].log
        n = len(log)
        t = clone.systems.timestep
        clone.execute(2)
        clone.systems.execute_systems()
        try:
            clone.systems.execute_systems(throw_error=True)
            problems.append(f"{name}: no error")
        except ModelCompleteError:
            pass
        if len(log) != n or clone.systems.timestep != t:
            problems.append(f"{name}: clone ran after completion")
    # base Model (slots only)
    b = Model(seed=1)
    b.complete()
    for name, clone in (('pickle', pickle.loads(pickle.dumps(b))), ('deepcopy', copy.deepcopy(b))):
        if clone.is_running():
            problems.append(f"base {name}: running again")
    hammer(m, m.log, "original after cloning", problems)
    report("A11 pickled / deep-copied / shallow-copied completed models stay complete", problems)


def exp_collectors():
    problems = []
    tmp = tempfile.mkdtemp()
    fname = os.path.join(tmp, 'out.txt')

    class StrFileCollector(collectors.FileCollector):
        def collect(self):
            self.records.append(f"{self.model.systems.timestep}\n")

    for cprio, expect_last in ((5, False), (-5, True)):  # completer before / after the collectors (default prio -1)
        if os.path.exists(fname):
            os.remove(fname)
        m = Model(seed=3)
        populate(m)
        log = []
        ac = collectors.AgentCollector(m, lambda a: a[Counter].value, includeTimstep=True)
        fc = StrFileCollector('fc', m, fname)
        rc = RecCollector('rc', m)
        m.systems.add_system(ac)
        m.systems.add_system(fc)
        m.systems.add_system(rc)
        m.systems.add_system(Completer('c', m, log, at=2, priority=cprio))
        m.execute(6)
        last = 2 if expect_last else 1
        if rc.records != list(range(last + 1)):
            problems.append(f"cprio={cprio}: RecCollector records {rc.records}")
        if [r['timestep'] for r in ac.records] != list(range(last + 1)):
            problems.append(f"cprio={cprio}: AgentCollector records {ac.records}")
        content = open(fname).read() if os.path.exists(fname) else ''
        if content != ''.join(f"{t}\n" for t in range(last + 1)):
            problems.append(f"cprio={cprio}: FileCollector wrote {content!r}")
        hammer(m, log, f"collectors cprio={cprio}", problems, registrations=False)
        content2 = open(fname).read() if os.path.exists(fname) else ''
        if content2 != content:
            problems.append(f"cprio={cprio}: file written after completion")
        # a collector registered after completion never collects
        late = RecCollector('late', m, priority=99)
        m.systems.add_system(late)
        m.execute(3)
        if late.records:
            problems.append(f"late collector collected {late.records}")

    # completion from inside a collector's agent function (i.e. from deep inside a system)
    m = Model(seed=3)
    populate(m)
    log = []

    def agent_func(a):
        if a.model.systems.timestep == 1:
            a.model.complete()
        return 1

    m.systems.add_system(collectors.AgentCollector(m, agent_func, priority=5))
    m.systems.add_system(Recorder('lo', m, log, priority=1))
    m.execute(4)
    if log != [('lo', 0)] or m.systems.timestep != 2:
        problems.append(f"complete() from agentFunc: {log} t={m.systems.timestep}")
    hammer(m, log, "complete from agentFunc", problems)
    report("A12 collectors (Agent/File/custom) next to a completer; completion from inside a collector callback",
           problems)


class BatchModel(Model):
    def __init__(self, stop_at=2, pos=1):
        super().__init__(seed=stop_at)
        self.log = []
        prios = [3, 2, 1]
        names = ['r0', 'r1', 'r2']
        for i in range(3):
            if i == pos:
                self.systems.add_system(Completer('c', self, self.log, at=stop_at, priority=prios[i]))
            else:
                self.systems.add_system(Recorder(names[i], self, self.log, priority=prios[i]))
        self.systems.add_system(LogCollector('col', self, priority=-10))
        self.systems.add_system(LogCollector('col_hi', self, priority=10))


class LogCollector(collectors.Collector):
    def collect(self):
        self.records.append((self.model.systems.timestep, len(self.model.log)))


def score_model(model):
    # score exposes anything that ran after completion
    return float(len(model.log) * 1000 + model.systems.timestep)


def _expected_batch(stop_at, pos, max_t=sys.maxsize):
    per_step = 3
    steps_full = min(stop_at, max_t)
    n = steps_full * per_step
    completed = stop_at < max_t
    if completed:
        n += pos + 1
    t = stop_at + 1 if completed else max_t
    return n, t, completed


def _batch_worker(q, processes):
    try:
        params = {'stop_at': [0, 1, 3], 'pos': [0, 1, 2]}
        res = batching.batch_run(BatchModel, params, collectors=['col', 'col_hi'], processes=processes,
                                 max_timesteps=50, repetitions=2)
        gs = batching.grid_search(BatchModel, params, score_model, processes=processes, max_timesteps=50,
                                  repetitions=2, mode=batching.ScoreMode.MAX)
        q.put(('ok', res, gs[1]))
    except Exception as e:  # noqa
        q.put(('err', repr(e), None))


def exp_batching():
    problems = []
    for processes in (1, 2, 3):
        q = multiprocessing.Queue()
        p = multiprocessing.Process(target=_batch_worker, args=(q, processes))
        p.start()
        try:
            status, res, gs = q.get(timeout=90)
        except Exception:  # noqa
            p.terminate()
            problems.append(f"processes={processes}: timed out")
            continue
        p.join(10)
        if status != 'ok':
            problems.append(f"processes={processes}: {res}")
            continue
        if len(res) != 18:
            problems.append(f"processes={processes}: {len(res)} results")
        for r in res:
            hi, lo = r['col_hi'], r['col']
            # col_hi runs first each step: one record per started step; col runs last: not in the completing step
            last_t = hi[-1][0]
            if [t for t, _ in hi] != list(range(last_t + 1)):
                problems.append(f"processes={processes}: col_hi {hi}")
            if [t for t, _ in lo] != list(range(last_t)):
                problems.append(f"processes={processes}: low-priority collector ran in/after the completing step: "
                                f"{lo} vs {hi}")
            if last_t not in (0, 1, 3):
                problems.append(f"processes={processes}: model ran until t={last_t}")
        for g in gs:
            n, t, _ = _expected_batch(g['stop_at'], g['pos'], 50)
            for rec in g['records']:
                if rec != float(n * 1000 + t):
                    problems.append(f"processes={processes}: grid_search {g} expected {n * 1000 + t}")
    report("A13 batch_run / grid_search with processes 1, 2, 3 (real multiprocessing, with timeout)", problems)


def exp_logger_variants():
    problems = []

    class ListHandler(logging.Handler):
        def __init__(self):
            super().__init__()
            self.msgs = []

        def emit(self, record):
            self.msgs.append(record.getMessage())

    class FalsyLogger(logging.Logger):
        def __bool__(self):
            return False

        def __len__(self):
            return 0

    for lg in (logging.getLogger('hunt.custom'), FalsyLogger('hunt.falsy'), logging.getLogger()):
        h = ListHandler()
        lg.addHandler(h)
        old = lg.level
        lg.setLevel(logging.DEBUG)
        try:
            m = Model(logger=lg)
            if m.logger is not lg:
                problems.append(f"logger {lg!r} replaced")
            log = []
            m.systems.add_system(Completer('c', m, log, at=0))
            m.systems.add_system(Recorder('lo', m, log, priority=-1))
            m.execute(3)
            if log != [('c', 0)]:
                problems.append(f"{lg!r}: {log}")
            hammer(m, log, f"logger {lg.name}", problems)
            # (a falsy logger never reaches its handlers: logging.Logger.callHandlers does ``while c:`` - stdlib, not
            #  ECAgent - so the message check is only meaningful for truthy loggers)
            if not h.msgs and bool(lg):
                problems.append(f"{lg!r}: no info message for advance requests on a completed model")
        finally:
            lg.removeHandler(h)
            lg.setLevel(old)
    # disabled logging altogether
    logging.disable(logging.CRITICAL)
    try:
        m = Model()
        log = []
        m.systems.add_system(Completer('c', m, log, at=0))
        m.execute(2)
        hammer(m, log, "logging disabled", problems)
    finally:
        logging.disable(logging.NOTSET)
    report("A14 custom / falsy (__bool__, __len__) / root loggers and globally disabled logging", problems)


class StrId(str):
    pass


def exp_weird_ids_and_system_dunders():
    problems = []
    ids_sets = [
        ['', 'x', ' '],
        [0, 1, 2],
        [StrId('a'), StrId('b'), 'c'],
        [None, False, 0.5],
        [(1, 2), frozenset(), b'x'],
        ['s\r\n', 's\n', 's'],
        ['é', 'é', 'e'],
    ]
    for ids in ids_sets:
        for pos in range(3):
            m = Model(seed=1)
            log = []
            for i, sid in enumerate(ids):
                if i == pos:
                    m.systems.add_system(Completer(sid, m, log, at=1, priority=-i))
                else:
                    m.systems.add_system(Recorder(sid, m, log, priority=-i))
            m.execute(4)
            exp = [(sid, 0) for sid in ids] + [(sid, 1) for sid in ids[:pos + 1]]
            if log != exp:
                problems.append(f"ids={ids!r} pos={pos}: {log}")
            hammer(m, log, f"ids={ids!r} pos={pos}", problems)

    # systems with hostile dunders
    class EqAll(Recorder):
        def __eq__(self, other):
            return True

        __hash__ = None

    class FalsySys(Recorder):
        def __bool__(self):
            return False

        def __len__(self):
            return 0

    class FalsyCompleter(Completer):
        def __bool__(self):
            return False

    m = Model(seed=1)
    log = []
    m.systems.add_system(FalsySys('f_hi', m, log, priority=3))
    m.systems.add_system(FalsyCompleter('c', m, log, at=1, priority=2))
    m.systems.add_system(FalsySys('f_lo', m, log, priority=1))
    m.systems.add_system(EqAll('eq', m, log, priority=0))
    m.execute(4)
    if [e for e in log if e[1] > 1 or (e[1] == 1 and e[0] in ('f_lo', 'eq'))]:
        problems.append(f"hostile dunders: {log}")
    hammer(m, log, "hostile dunders", problems, registrations=False)
    report("A15 falsy / non-str / str-subclass / CRLF / unicode system ids; systems with __eq__/__bool__/__len__",
           problems)


def exp_timestep_extremes():
    problems = []
    for t0 in (sys.maxsize - 1, sys.maxsize, sys.maxsize + 5, 10 ** 40, -3, True):
        m = Model(seed=1)
        log = []
        m.systems.timestep = t0
        m.systems.add_system(Recorder('hi', m, log, priority=2, start=-10, end=10 ** 50))
        m.systems.add_system(Completer('c', m, log, at=t0 + 1, priority=1, start=-10, end=10 ** 50))
        m.systems.add_system(Recorder('lo', m, log, priority=0, start=-10, end=10 ** 50))
        m.execute(4)
        exp = [('hi', t0), ('c', t0), ('lo', t0), ('hi', t0 + 1), ('c', t0 + 1)]
        if log != exp or m.systems.timestep != t0 + 2:
            problems.append(f"t0={t0}: {log} t={m.systems.timestep}")
        hammer(m, log, f"t0={t0}", problems)
    report("A16 extreme timesteps (around sys.maxsize, 10**40, negative, bool) and start/end windows", problems)


def exp_many_systems_and_repeated():
    problems = []
    import random as _r
    rng = _r.Random(12345)
    for trial in range(150):
        n = rng.randint(1, 40)
        m = Model(seed=trial)
        populate(m, rng.randint(0, 3))
        log = []
        completers = set(rng.sample(range(n), rng.randint(1, min(3, n))))
        ats = {}
        for i in range(n):
            pr = rng.choice([0, 1, -1, 2.5, 7, -7, 10 ** 20, True, False])
            kw = dict(priority=pr, frequency=rng.choice([1, 1, 2, 3]), start=rng.choice([0, 0, 1, 2]),
                      end=rng.choice([sys.maxsize, 3, 6]))
            if i in completers:
                ats[f"s{i}"] = rng.randint(0, 6)
                m.systems.add_system(Completer(f"s{i}", m, log, at=ats[f"s{i}"], **kw))
            else:
                m.systems.add_system(Recorder(f"s{i}", m, log, **kw))
        # oracle
        queue = [s for s in m.systems.execution_queue]
        exp, t, done = [], 0, False
        budget = 10
        while not done and t < budget:
            for s in queue:
                if s.start <= t <= s.end and (s.start - t) % s.frequency == 0:
                    exp.append((s.id, t))
                    if ats.get(s.id) == t:
                        done = True
                        break
            t += 1
        # drive with a random mixture of advance requests
        steps = 0
        while steps < budget:
            k = rng.choice([1, 1, 2, 3])
            k = min(k, budget - steps)
            mode = rng.choice(['e', 'en', 'raw'])
            if mode == 'e':
                for _ in range(k):
                    m.execute()
            elif mode == 'en':
                m.execute(k)
            else:
                for _ in range(k):
                    m.systems.execute_systems()
            steps += k
        if log != exp:
            problems.append(f"trial {trial}: log differs from oracle (len {len(log)} vs {len(exp)})")
        if m.systems.timestep != t:
            problems.append(f"trial {trial}: timestep {m.systems.timestep} != {t}")
        if done:
            hammer(m, log, f"trial {trial}", problems)
        elif not m.is_running():
            problems.append(f"trial {trial}: model stopped without complete()")
    report("A17 randomised differential test against an oracle (150 models, up to 40 systems, several completers, "
           "mixed single/multi/raw stepping)", problems)


def exp_manager_replacement_and_status_api():
    problems = []
    # a fresh SystemManager put on a completed model still refuses to run
    m = Model(seed=1)
    log = []
    m.systems.add_system(Recorder('s', m, log))
    m.execute()
    m.complete()
    m.systems = core.SystemManager(m)
    m.systems.add_system(Recorder('s2', m, log))
    m.execute(2)
    m.systems.execute_systems()
    if log != [('s', 0)] or m.systems.timestep != 0 or m.is_running():
        problems.append(f"replaced manager ran: {log} t={m.systems.timestep}")
    # is_running()/bool()/ModelStatus agree, repeatedly, after many requests
    m = Model()
    m.systems.add_system(Completer('c', m, [], at=0))
    m.execute()
    for _ in range(1000):
        m.execute()
        if m.is_running() or m or not (not m):
            problems.append("model reported running again")
            break
    if m.timestep != 1:
        problems.append(f"timestep {m.timestep}")
    # Decode-built model
    report("A18 replaced SystemManager on a completed model; status reported consistently over 1000 requests",
           problems)


def exp_threads():
    """Outside completion issued from another thread while a step is in flight (best effort)."""
    import threading
    problems = []
    m = Model()
    log = []
    gate_in, gate_out = threading.Event(), threading.Event()

    class Waiter(Recorder):
        def execute(self):
            super().execute()
            gate_in.set()
            gate_out.wait(5)

    m.systems.add_system(Waiter('w', m, log, priority=1))
    m.systems.add_system(Recorder('lo', m, log, priority=0))
    th = threading.Thread(target=m.execute)
    th.start()
    gate_in.wait(5)
    m.complete()  # between two systems of the running step, from outside
    gate_out.set()
    th.join(5)
    if log != [('w', 0)] or m.systems.timestep != 1:
        problems.append(f"{log} t={m.systems.timestep}")
    hammer(m, log, "thread", problems)
    report("A19 complete() issued from another thread while a system of the step is executing", problems)


def exp_hash_seed():
    problems = []
    code = r'''
import sys
from ECAgent.Core import Model, System
log = []
class R(System):
    def execute(self):
        log.append((self.id, self.model.timestep))
        if self.id == 'k3' and self.model.timestep == 1:
            self.model.complete()
m = Model()
for i in range(8):
    m.systems.add_system(R('k%d' % i, m, priority=i % 3))
m.execute(5)
m.systems.execute_systems()
print(log, m.timestep, m.is_running())
'''
    outs = set()
    for seed in ('0', '1', '42', '4242', 'random'):
        env = dict(os.environ, PYTHONHASHSEED=seed, PYTHONPATH=os.path.dirname(os.path.abspath(__file__)))
        r = subprocess.run([sys.executable, '-c', code], env=env, capture_output=True, text=True, timeout=60)
        if r.returncode != 0:
            problems.append(f"seed {seed}: {r.stderr[-300:]}")
        outs.add(r.stdout)
    if len(outs) != 1:
        problems.append(f"behaviour depends on the hash seed: {outs}")
    else:
        out = outs.pop()
        if "('k3', 1)]" not in out.replace('"', "'") or 'False' not in out:
            problems.append(f"unexpected output {out}")
    report("A20 independence from PYTHONHASHSEED (5 seeds, subprocesses)", problems)


def exp_decoder_built_model():
    problems = []
    import json
    from ECAgent.Decode import JsonDecoder, IDecodable
    mod = sys.modules[__name__]

    class DModel(Model, IDecodable):
        @staticmethod
        def decode(params):
            return DModel()

    class DComp(Completer, IDecodable):
        @staticmethod
        def decode(params):
            return DComp(params['id'], params['model'], DLOG, at=params['at'], priority=params['priority'])

    class DRec(Recorder, IDecodable):
        @staticmethod
        def decode(params):
            return DRec(params['id'], params['model'], DLOG, priority=params['priority'])

    DLOG = []
    mod.DModel, mod.DComp, mod.DRec, mod.DLOG = DModel, DComp, DRec, DLOG
    data = {
        "model": {"name": "DModel", "module": __name__, "params": {}},
        "systems": [
            {"name": "DRec", "module": __name__, "params": {"id": "hi", "priority": 3}},
            {"name": "DComp", "module": __name__, "params": {"id": "c", "priority": 2, "at": 1}},
            {"name": "DRec", "module": __name__, "params": {"id": "lo", "priority": 1}},
        ],
        "agents": [],
    }
    with tempfile.NamedTemporaryFile('w', suffix='.json', delete=False, newline='\r\n') as f:
        f.write(json.dumps(data, indent=1))
        path = f.name
    m = JsonDecoder().decode(path)
    os.remove(path)
    m.execute(4)
    if DLOG != [('hi', 0), ('c', 0), ('lo', 0), ('hi', 1), ('c', 1)]:
        problems.append(f"{DLOG}")
    hammer(m, DLOG, "decoded model", problems)
    report("A21 model assembled by JsonDecoder (CRLF json file)", problems)


def main():
    exps = [
        exp_exhaustive_positions,
        exp_outside_completion,
        exp_frequency_start_end,
        exp_mutating_completer,
        exp_nested_stepping,
        exp_exception_after_complete,
        exp_invalid_n_on_completed,
        exp_throw_error_values,
        exp_many_models_shared_systems,
        exp_model_subclasses_and_environments,
        exp_pickle_copy,
        exp_collectors,
        exp_batching,
        exp_logger_variants,
        exp_weird_ids_and_system_dunders,
        exp_timestep_extremes,
        exp_many_systems_and_repeated,
        exp_manager_replacement_and_status_api,
        exp_threads,
        exp_hash_seed,
        exp_decoder_built_model,
    ]
    print(f"ECAgent under test: {core.__file__}")
    for e in exps:
        try:
            e()
        except Exception as ex:  # an experiment crashing is a harness problem, reported loudly but not a violation
            import traceback
            traceback.print_exc()
            print(f"HARNESS-ERROR {e.__name__}: {type(ex).__name__}: {ex}")
            NOTES.append(e.__name__)
    print()
    if VIOLATIONS:
        print(f"{len(VIOLATIONS)} experiment(s) found violations:")
        for v in VIOLATIONS:
            print("  *", v)
        return 1
    print("No violation of the property found.")
    return 0


if __name__ == '__main__':
    sys.exit(main())
